"""E8 - obligations, findings, known findings, evidence."""

from __future__ import annotations

import json
import os
import time
from dataclasses import dataclass, field, asdict

from .astutil import AnalysisError

VERIF = os.path.dirname(os.path.dirname(os.path.abspath(__file__)))
KNOWN_FINDINGS = os.path.join(VERIF, "known_findings.json")


@dataclass
class Finding:
    property: str
    rule: str
    construct: str  # qualified construct (file::Class.method / table entry)
    detail: str  # short stable token making the key specific (never a line number)
    file: str
    line: int
    expected: str
    found: str
    message: str = ""

    @property
    def key(self) -> str:
        return f"{self.rule}|{self.construct}|{self.detail}"

    def text(self) -> str:
        return (
            f"{self.file}:{self.line} rule={self.rule} construct={self.construct} "
            f"expected={self.expected} found={self.found}"
            + (f" -- {self.message}" if self.message else "")
        )


class Run:
    """One run of all rules of one property."""

    def __init__(self, prop: str, idx, tier: str = "quick"):
        self.prop = prop
        self.idx = idx
        self.tier = tier
        self.findings: list[Finding] = []
        self.notes: list[str] = []
        self.rule_stats: dict[str, dict] = {}
        self._cur: str | None = None
        self.t0 = time.time()

    # ---------------------------------------------------------------- rules
    def bound(self, quick, thorough):
        """enumeration bound of a rule: the thorough tier explores a larger (still finite) part of the domain"""
        return thorough if self.tier == "thorough" else quick

    def begin(self, rule: str, desc: str, floor: int = 1):
        self._cur = rule
        self.rule_stats[rule] = {
            "description": desc,
            "floor": floor,
            "obligations": 0,
            "discharged": 0,
            "samples": [],
            "instances": set(),
        }

    def end(self):
        st = self.rule_stats[self._cur]
        n = len(st["instances"])
        failed = st["obligations"] - st["discharged"]
        # a rule that already reports a violation is not vacuous; the floor guards silent passes only
        if n < st["floor"] and not failed:
            raise AnalysisError(
                f"rule {self._cur}: only {n} instance(s) examined, floor is {st['floor']} "
                f"(anchors moved or extraction broke)"
            )
        self._cur = None

    def ob(
        self,
        ok: bool,
        construct: str,
        *,
        file: str,
        line: int,
        expected: str,
        found: str,
        detail: str = "",
        message: str = "",
        sample: bool = True,
    ) -> bool:
        """record one obligation of the current rule."""
        st = self.rule_stats[self._cur]
        st["obligations"] += 1
        st["instances"].add((construct, detail))
        if ok:
            st["discharged"] += 1
        else:
            self.findings.append(
                Finding(self.prop, self._cur, construct, detail, file, line, expected, found, message)
            )
        if sample and (len(st["samples"]) < 4 or not ok) and len(st["samples"]) < 12:
            st["samples"].append(
                {
                    "site": f"{file}:{line}",
                    "construct": construct,
                    "detail": detail,
                    "expected": expected,
                    "found": found,
                    "ok": ok,
                }
            )
        return ok

    def note(self, text: str):
        self.notes.append(f"[{self._cur}] {text}" if self._cur else text)


def load_known() -> list[dict]:
    if not os.path.exists(KNOWN_FINDINGS):
        return []
    with open(KNOWN_FINDINGS) as fh:
        data = json.load(fh)
    return data.get("findings", [])


def finish(run: Run, level: str, explanation: str, assumptions: list[str], checker_cmd: str) -> int:
    """print the verdict, write evidence, return the exit code."""
    prop = run.prop
    known = [k for k in load_known() if k.get("property") == prop and k.get("status") == "known"]
    known_keys = {k["key"]: k for k in known}
    new, listed = [], []
    for f in run.findings:
        (listed if f.key in known_keys else new).append(f)
    seen_known = set()
    for f in listed:
        if f.key in seen_known:
            continue
        seen_known.add(f.key)
        print(f"KNOWN-FINDING: property={prop} {known_keys[f.key]['what']} [{f.key}]")
    stale = [k for k in known_keys if k not in seen_known]
    for k in stale:
        run.notes.append(f"known finding no longer reported (fixed or moved?): {k}")

    ev_dir = os.environ.get("VERIF_EVIDENCE_DIR") or os.path.join(VERIF, "evidence")
    os.makedirs(ev_dir, exist_ok=True)
    obligations = sum(s["obligations"] for s in run.rule_stats.values())
    discharged = sum(s["discharged"] for s in run.rule_stats.values())
    instances = sum(len(s["instances"]) for s in run.rule_stats.values())
    samples = []
    rules_out = {}
    for rid, s in run.rule_stats.items():
        rules_out[rid] = {
            "description": s["description"],
            "instances": len(s["instances"]),
            "floor": s["floor"],
            "obligations": s["obligations"],
            "discharged": s["discharged"],
        }
        for smp in s["samples"][:3]:
            samples.append(dict(rule=rid, **smp))
    wall = round(time.time() - run.t0, 3)
    evidence = {
        "property_id": prop,
        "tier": run.tier,
        "seed": int(os.environ.get("VERIF_SEED", "0") or 0),
        "level": level,
        "coverage": {
            "explanation": explanation,
            "obligations": obligations,
            "discharged": discharged,
            "evaluations": obligations,
            "distinct_nontrivial": instances,
            "rule": "one obligation per (rule, construct, detail) extracted from the current "
            "source tree; distinct = distinct (construct, detail) pairs; every one is "
            "non-trivial in that it is a site/table row/path of cohdl the rule had to resolve",
            "samples": samples,
            "rules": rules_out,
            "checker_cmd": checker_cmd,
            "trusted_base": [
                "CPython ast parser",
                "sa/ engine resolver and the enumerated idioms",
                "frozen oracle tables under sa/tables",
            ],
            "modules_consulted": sorted(run.idx.consulted),
            "tree_digest": run.idx.digest(),
            "known_findings_reported": sorted(seen_known),
            "notes": run.notes[:60],
            "exhaustive": False,
        },
        "assumptions": assumptions,
        "wall_s": wall,
        "violations": len(new),
    }
    with open(os.path.join(ev_dir, f"{prop}.json"), "w") as fh:
        json.dump(evidence, fh, indent=1, sort_keys=False)
        fh.write("\n")

    if new:
        replay = os.path.join(ev_dir, f"{prop}.violations.json")
        with open(replay, "w") as fh:
            json.dump([dict(asdict(f), key=f.key) for f in new], fh, indent=1)
            fh.write("\n")
        print(f"VIOLATION property={prop} replay={replay}")
        for f in new[:40]:
            print("  " + f.text() + f"  [key {f.key}]")
        if len(new) > 40:
            print(f"  ... {len(new) - 40} more finding(s) in {replay}")
        return 1
    else:
        stale_replay = os.path.join(ev_dir, f"{prop}.violations.json")
        if os.path.exists(stale_replay):
            os.remove(stale_replay)
    print(
        f"OK property={prop} tier={run.tier} rules={len(run.rule_stats)} "
        f"obligations={obligations} discharged={discharged} known={len(seen_known)} wall={wall}s"
    )
    return 0
