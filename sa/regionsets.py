"""E5 - region-set algebra: an abstract interpreter for code that manipulates
Python sets, evaluated on the Venn-region universe of its symbolic inputs.

For n symbolic input sets there are 2**n - 1 non-empty regions (each region is
the set of inputs it belongs to).  A set expression built from union,
intersection and difference of the inputs is an identity for *all* sets iff it
holds region-wise on this universe, so the verdicts below are exact, not sampled.

The interpreter executes the statements of one arm of
`search_invalid_temporaries` with real Python `set` objects whose elements are
region ids - aliasing between variables is therefore modelled faithfully (it
matters: the historical defect F1 was an aliasing bug).
"""

from __future__ import annotations

import ast

from .astutil import AnalysisError, dotted, src


class Sym:
    """opaque token (a sub-block, a condition, ...)."""

    def __init__(self, name):
        self.name = name

    def __repr__(self):
        return f"<{self.name}>"


class Interp:
    def __init__(self, env: dict, recursive_fn: str, oracle, ignore_calls: set[str]):
        self.env = env
        self.recursive_fn = recursive_fn
        self.oracle = oracle  # token -> fresh set
        self.ignore_calls = ignore_calls
        self.steps = 0

    # ------------------------------------------------------------------ exprs
    def ev(self, e: ast.AST):
        if isinstance(e, ast.Name):
            if e.id not in self.env:
                raise AnalysisError(f"region-set interpreter: unknown name {e.id}")
            return self.env[e.id]
        if isinstance(e, ast.Constant):
            return e.value
        if isinstance(e, ast.Attribute):
            base = self.ev(e.value)
            if isinstance(base, dict) and e.attr in base:
                return base[e.attr]
            raise AnalysisError(f"region-set interpreter: unknown attribute {src(e)}")
        if isinstance(e, ast.Tuple):
            return tuple(self.ev(x) for x in e.elts)
        if isinstance(e, ast.Compare) and len(e.ops) == 1:
            l, r = self.ev(e.left), self.ev(e.comparators[0])
            op = e.ops[0]
            if isinstance(op, ast.Is):
                return l is r
            if isinstance(op, ast.IsNot):
                return l is not r
            if isinstance(op, ast.Eq):
                return l == r
            if isinstance(op, ast.NotEq):
                return l != r
            raise AnalysisError(f"region-set interpreter: comparison {src(e)}")
        if isinstance(e, ast.UnaryOp) and isinstance(e.op, ast.Not):
            return not self.ev(e.operand)
        if isinstance(e, ast.BoolOp):
            vals = [self.ev(v) for v in e.values]
            return all(vals) if isinstance(e.op, ast.And) else any(vals)
        if isinstance(e, ast.BinOp):
            l, r = self.ev(e.left), self.ev(e.right)
            if not (isinstance(l, (set, frozenset)) and isinstance(r, (set, frozenset))):
                raise AnalysisError(f"region-set interpreter: non-set operands in {src(e)}")
            if isinstance(e.op, ast.BitAnd):
                return l & r
            if isinstance(e.op, ast.BitOr):
                return l | r
            if isinstance(e.op, ast.Sub):
                return l - r
            if isinstance(e.op, ast.BitXor):
                return l ^ r
            raise AnalysisError(f"region-set interpreter: operator in {src(e)}")
        if isinstance(e, ast.Call):
            return self.call(e)
        if isinstance(e, ast.Set) and not e.elts:
            return set()
        if isinstance(e, ast.List):
            out = []
            for x in e.elts:
                if isinstance(x, ast.Starred):
                    out.extend(self.ev(x.value))
                else:
                    out.append(self.ev(x))
            return out
        if isinstance(e, ast.Subscript):
            base = self.ev(e.value)
            idx = self.ev(e.slice) if not isinstance(e.slice, ast.Slice) else slice(
                self.ev(e.slice.lower) if e.slice.lower else None,
                self.ev(e.slice.upper) if e.slice.upper else None,
                self.ev(e.slice.step) if e.slice.step else None,
            )
            if isinstance(base, (list, tuple)):
                return base[idx]
            raise AnalysisError(f"region-set interpreter: subscript of non-sequence {src(e)}")
        if isinstance(e, ast.UnaryOp) and isinstance(e.op, ast.USub):
            return -self.ev(e.operand)
        if isinstance(e, ast.ListComp) and len(e.generators) == 1 and not e.generators[0].ifs:
            g = e.generators[0]
            out = []
            for item in self.ev(g.iter):
                self.assign(g.target, item)
                out.append(self.ev(e.elt))
            return out
        raise AnalysisError(f"region-set interpreter: unsupported expression {src(e)}")

    def call(self, e: ast.Call):
        fn = e.func
        name = dotted(fn)
        if name == self.recursive_fn:
            tok = self.ev(e.args[0])
            return self.oracle(tok)
        if name in self.ignore_calls:
            return None
        if name in ("set", "frozenset"):
            if not e.args:
                return set()
            v = self.ev(e.args[0])
            return set(v)
        if name == "len":
            return len(self.ev(e.args[0]))
        if name in ("set.intersection", "set.union", "set.difference"):
            args = []
            for a in e.args:
                if isinstance(a, ast.Starred):
                    args.extend(self.ev(a.value))
                else:
                    args.append(self.ev(a))
            if not args or not all(isinstance(a, (set, frozenset)) for a in args):
                raise AnalysisError(f"region-set interpreter: bad arguments in {src(e)}")
            return getattr(set, name.split(".")[1])(*args)
        if name in ("list", "tuple", "reversed", "enumerate", "zip"):
            vals = [self.ev(a) for a in e.args]
            return list({"list": list, "tuple": tuple, "reversed": reversed, "enumerate": enumerate, "zip": zip}[name](*vals))
        if isinstance(fn, ast.Attribute):
            recv = self.ev(fn.value)
            args = []
            for a in e.args:
                if isinstance(a, ast.Starred):
                    args.extend(self.ev(a.value))
                else:
                    args.append(self.ev(a))
            if isinstance(recv, list) and fn.attr in ("append", "extend", "insert", "pop", "copy", "clear"):
                return getattr(recv, fn.attr)(*args)
            if isinstance(recv, set):
                m = fn.attr
                if m in (
                    "difference_update", "intersection_update", "update", "symmetric_difference_update",
                    "add", "discard", "remove", "clear",
                ):
                    return getattr(recv, m)(*args)
                if m in ("intersection", "union", "difference", "copy", "symmetric_difference", "issubset"):
                    return getattr(recv, m)(*args)
            raise AnalysisError(f"region-set interpreter: unsupported method call {src(e)}")
        raise AnalysisError(f"region-set interpreter: unsupported call {src(e)}")

    # ------------------------------------------------------------------ stmts
    def run(self, stmts):
        for s in stmts:
            self.steps += 1
            if self.steps > 5000:
                raise AnalysisError("region-set interpreter: step limit")
            self.stmt(s)

    def assign(self, target, value):
        if isinstance(target, ast.Name):
            self.env[target.id] = value
        elif isinstance(target, (ast.Tuple, ast.List)):
            vals = list(value)
            if len(vals) != len(target.elts):
                raise AnalysisError("region-set interpreter: unpack mismatch")
            for t, v in zip(target.elts, vals):
                self.assign(t, v)
        else:
            raise AnalysisError(f"region-set interpreter: unsupported target {src(target)}")

    def stmt(self, s):
        if isinstance(s, ast.Assign):
            v = self.ev(s.value)
            for t in s.targets:
                self.assign(t, v)
        elif isinstance(s, ast.AnnAssign):
            if s.value is not None:
                self.assign(s.target, self.ev(s.value))
        elif isinstance(s, ast.AugAssign):
            if not isinstance(s.target, ast.Name):
                raise AnalysisError(f"region-set interpreter: augassign target {src(s.target)}")
            cur = self.env[s.target.id]
            val = self.ev(s.value)
            if not isinstance(cur, set):
                raise AnalysisError(f"region-set interpreter: augassign on non-set {src(s)}")
            # in-place semantics of set operators (aliases observe the change)
            if isinstance(s.op, ast.BitOr):
                cur |= val
            elif isinstance(s.op, ast.BitAnd):
                cur &= val
            elif isinstance(s.op, ast.Sub):
                cur -= val
            elif isinstance(s.op, ast.BitXor):
                cur ^= val
            else:
                raise AnalysisError(f"region-set interpreter: augassign op {src(s)}")
        elif isinstance(s, ast.Expr):
            if isinstance(s.value, ast.Constant):
                return
            self.ev(s.value)
        elif isinstance(s, ast.If):
            self.run(s.body if self.ev(s.test) else s.orelse)
        elif isinstance(s, ast.For):
            for item in self.ev(s.iter):
                self.assign(s.target, item)
                self.run(s.body)
            self.run(s.orelse)
        elif isinstance(s, (ast.Pass, ast.Nonlocal, ast.Global)):
            return
        elif isinstance(s, ast.Assert):
            return
        else:
            raise AnalysisError(f"region-set interpreter: unsupported statement {type(s).__name__}: {src(s)[:80]}")


def regions(n: int) -> list[int]:
    return list(range(1, 1 << n))


def input_set(i: int, n: int) -> set[int]:
    return {r for r in regions(n) if r & (1 << i)}
