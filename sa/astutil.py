"""Small AST helpers shared by all rules (stdlib only)."""

from __future__ import annotations

import ast
import hashlib
from typing import Iterable, Iterator


class AnalysisError(Exception):
    """The analyser cannot decide (vanished anchor, unknown idiom, ...): exit 2."""


FUNC_TYPES = (ast.FunctionDef, ast.AsyncFunctionDef)
SCOPE_TYPES = (ast.FunctionDef, ast.AsyncFunctionDef, ast.Lambda, ast.ClassDef)


def dotted(node: ast.AST) -> str | None:
    """`a.b.c` for Name/Attribute chains, None otherwise."""
    parts = []
    while isinstance(node, ast.Attribute):
        parts.append(node.attr)
        node = node.value
    if isinstance(node, ast.Name):
        parts.append(node.id)
        return ".".join(reversed(parts))
    return None


def call_name(node: ast.AST) -> str | None:
    """dotted name of the callee of a Call (subscripted callee `X[T](..)` -> `X[]`)."""
    if not isinstance(node, ast.Call):
        return None
    f = node.func
    if isinstance(f, ast.Subscript):
        d = dotted(f.value)
        return None if d is None else d + "[]"
    return dotted(f)


def last_attr(node: ast.AST) -> str | None:
    if isinstance(node, ast.Attribute):
        return node.attr
    if isinstance(node, ast.Name):
        return node.id
    return None


def walk_local(node: ast.AST, *, include_self: bool = True) -> Iterator[ast.AST]:
    """ast.walk that does not descend into nested function/class/lambda scopes."""
    stack = [node]
    first = True
    while stack:
        n = stack.pop()
        if not first and isinstance(n, SCOPE_TYPES):
            # yield the def node itself (decorators etc. are ignored) but not its body
            yield n
            continue
        if not first or include_self:
            yield n
        first = False
        stack.extend(reversed(list(ast.iter_child_nodes(n))))


def walk_ordered(node: ast.AST) -> Iterator[ast.AST]:
    """Pre-order, source-order walk (ast.walk is breadth-first)."""
    yield node
    for c in ast.iter_child_nodes(node):
        yield from walk_ordered(c)


def body_walk(stmts: Iterable[ast.stmt]) -> Iterator[ast.AST]:
    for s in stmts:
        yield from walk_local(s)


def calls_in(node: ast.AST | Iterable[ast.AST], local: bool = True) -> list[ast.Call]:
    nodes = [node] if isinstance(node, ast.AST) else list(node)
    out = []
    for n in nodes:
        it = walk_local(n) if local else ast.walk(n)
        out.extend(c for c in it if isinstance(c, ast.Call))
    return out


def names_in(node: ast.AST) -> set[str]:
    return {n.id for n in ast.walk(node) if isinstance(n, ast.Name)}


def norm(node: ast.AST | list) -> str:
    """Position-free structural dump."""
    if isinstance(node, list):
        return "[" + ",".join(norm(n) for n in node) + "]"
    return ast.dump(node, annotate_fields=False, include_attributes=False)


def src(node: ast.AST | None) -> str:
    if node is None:
        return "<none>"
    try:
        return ast.unparse(node)
    except Exception:  # pragma: no cover
        return "<unparse failed>"


def short_hash(text: str) -> str:
    return hashlib.sha1(text.encode()).hexdigest()[:10]


def const_str(node: ast.AST) -> str | None:
    if isinstance(node, ast.Constant) and isinstance(node.value, str):
        return node.value
    return None


def is_name(node: ast.AST, name: str) -> bool:
    return isinstance(node, ast.Name) and node.id == name


def kwarg(call: ast.Call, name: str) -> ast.AST | None:
    for k in call.keywords:
        if k.arg == name:
            return k.value
    return None


def decorator_names(fn: ast.AST) -> list[str]:
    out = []
    for d in getattr(fn, "decorator_list", []):
        if isinstance(d, ast.Call):
            d = d.func
        n = dotted(d)
        if n:
            out.append(n)
    return out


def ends_in_raise(stmts: list[ast.stmt]) -> bool:
    """True iff every path through `stmts` that reaches its end ... does not:
    the last statement unconditionally raises (or is an if/else / match whose arms
    all do)."""
    if not stmts:
        return False
    last = stmts[-1]
    if isinstance(last, ast.Raise):
        return True
    if isinstance(last, ast.Assert):
        c = last.test
        return isinstance(c, ast.Constant) and not c.value
    if isinstance(last, ast.If):
        return bool(last.orelse) and ends_in_raise(last.body) and ends_in_raise(last.orelse)
    if isinstance(last, (ast.With, ast.AsyncWith)):
        return ends_in_raise(last.body)
    if isinstance(last, ast.Try):
        if last.finalbody and ends_in_raise(last.finalbody):
            return True
        return ends_in_raise(last.body) and all(ends_in_raise(h.body) for h in last.handlers)
    return False


def terminates(stmts: list[ast.stmt]) -> bool:
    """True iff control cannot fall off the end of `stmts` (return/raise/continue/break)."""
    if not stmts:
        return False
    last = stmts[-1]
    if isinstance(last, (ast.Return, ast.Raise, ast.Continue, ast.Break)):
        return True
    if isinstance(last, ast.If):
        return bool(last.orelse) and terminates(last.body) and terminates(last.orelse)
    if isinstance(last, (ast.With, ast.AsyncWith)):
        return terminates(last.body)
    if isinstance(last, ast.Try):
        if last.finalbody and terminates(last.finalbody):
            return True
        return terminates(last.body) and all(terminates(h.body) for h in last.handlers)
    if isinstance(last, ast.Assert):
        c = last.test
        return isinstance(c, ast.Constant) and not c.value
    return False


class ParentMap:
    def __init__(self, tree: ast.AST):
        self.parent: dict[int, ast.AST] = {}
        self.field: dict[int, str] = {}
        for p in ast.walk(tree):
            for name, value in ast.iter_fields(p):
                if isinstance(value, list):
                    for c in value:
                        if isinstance(c, ast.AST):
                            self.parent[id(c)] = p
                            self.field[id(c)] = name
                elif isinstance(value, ast.AST):
                    self.parent[id(value)] = p
                    self.field[id(value)] = name

    def of(self, node: ast.AST) -> ast.AST | None:
        return self.parent.get(id(node))

    def field_of(self, node: ast.AST) -> str | None:
        return self.field.get(id(node))

    def ancestors(self, node: ast.AST) -> Iterator[ast.AST]:
        n = self.of(node)
        while n is not None:
            yield n
            n = self.of(n)

    def enclosing_function(self, node: ast.AST):
        for a in self.ancestors(node):
            if isinstance(a, FUNC_TYPES):
                return a
        return None

    def enclosing_stmt(self, node: ast.AST) -> ast.stmt | None:
        n = node
        while n is not None and not isinstance(n, ast.stmt):
            n = self.of(n)
        return n


def fail_closed(stmts: list[ast.stmt]) -> bool:
    """control cannot fall off the end without raising: the last statement raises unconditionally, or it is an
    if/elif chain whose arms all terminate (return/raise) and whose final else raises."""
    if not stmts:
        return False
    if ends_in_raise(stmts):
        return True
    last = stmts[-1]
    if isinstance(last, ast.If):
        node = last
        while True:
            if not terminates(node.body):
                return False
            if len(node.orelse) == 1 and isinstance(node.orelse[0], ast.If):
                node = node.orelse[0]
                continue
            return fail_closed(node.orelse)
    return False


def unconditional_stmt(fn, pred):
    """first top-level statement of fn satisfying pred that is reached on every call: only simple assignments /
    docstrings / other asserts may precede it (no branch, loop, return, raise, try).  -> stmt or None"""
    for st in fn.body:
        if pred(st):
            return st
        if isinstance(st, (ast.Assign, ast.AnnAssign, ast.AugAssign, ast.Assert, ast.Pass, ast.Global, ast.Nonlocal, ast.Import, ast.ImportFrom)):
            continue
        if isinstance(st, ast.Expr) and isinstance(st.value, ast.Constant):
            continue
        return None
    return None


def chain_arms(node):
    """arms of an if/elif/else chain as (condition text, body); the condition of an arm is written positively or as
    `not <text>`, and the final else gets the negation of the last test - so `elif not C: X else: Y` and
    `elif C: Y else: X` yield the same set of (condition, body) pairs."""
    arms = []
    n = node
    while isinstance(n, ast.If):
        t = n.test
        neg = isinstance(t, ast.UnaryOp) and isinstance(t.op, ast.Not)
        base = src(t.operand) if neg else src(t)
        arms.append((("not " + base) if neg else base, n.body))
        if len(n.orelse) == 1 and isinstance(n.orelse[0], ast.If):
            n = n.orelse[0]
        else:
            if n.orelse:
                arms.append((base if neg else "not " + base, n.orelse))
            break
    return arms
