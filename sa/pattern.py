"""Structural pattern matching over ASTs with metavariables, so that rules do not depend on the
spelling of LOCAL variable names, on formatting, or on unrelated neighbouring statements.

Pattern language = Python source in which
  __x, __y ...   (names starting with two underscores and not ending in them) are metavariables: they match
                 any single Name (consistently: the same metavariable must match the same identifier);
  ___            matches any expression (wildcard, no binding);
  ___s           as the ONLY statement of a block matches any block (wildcard statement list).
Everything else (attributes, called functions, constants, operators, keyword names) must match literally.
"""

from __future__ import annotations

import ast
from typing import Iterable

_IGNORE = {"lineno", "col_offset", "end_lineno", "end_col_offset", "ctx", "type_comment", "kind", "type_ignores"}


def _is_meta(name: str) -> bool:
    return name.startswith("__") and not name.endswith("__") and name not in ("___", "___s")


def compile_pattern(text: str):
    tree = ast.parse(text.strip())
    if len(tree.body) == 1 and isinstance(tree.body[0], ast.Expr):
        return tree.body[0].value
    if len(tree.body) == 1:
        return tree.body[0]
    return tree.body


def match(p, n, env: dict | None = None) -> dict | None:
    """match pattern node p against node n; returns the bindings or None"""
    env = dict(env or {})
    return env if _m(p, n, env) else None


def _m(p, n, env) -> bool:
    if isinstance(p, ast.Name):
        if p.id == "___":
            return isinstance(n, ast.AST)
        if _is_meta(p.id):
            if not isinstance(n, ast.Name):
                return False
            if p.id in env:
                return env[p.id] == n.id
            env[p.id] = n.id
            return True
    if isinstance(p, list):
        if len(p) == 1 and isinstance(p[0], ast.Expr) and isinstance(p[0].value, ast.Name) and p[0].value.id == "___s":
            return isinstance(n, list)
        if not isinstance(n, list) or len(p) != len(n):
            return False
        return all(_m(a, b, env) for a, b in zip(p, n))
    if type(p) is not type(n):
        return False
    if isinstance(p, ast.AST):
        for f in p._fields:
            if f in _IGNORE:
                continue
            a, b = getattr(p, f, None), getattr(n, f, None)
            if isinstance(a, (ast.AST, list)):
                if not _m(a, b, env):
                    return False
            elif a != b:
                return False
        return True
    return p == n


def _nodes(scope) -> Iterable[ast.AST]:
    if isinstance(scope, ast.AST):
        yield from ast.walk(scope)
    else:
        for s in scope:
            yield from ast.walk(s)


def find(scope, pattern: str, env: dict | None = None):
    """all (node, bindings) in scope (a node or a list of nodes) that match the pattern"""
    p = compile_pattern(pattern)
    out = []
    for n in _nodes(scope):
        b = match(p, n, env)
        if b is not None:
            out.append((n, b))
    return out


def has(scope, pattern: str, env: dict | None = None) -> bool:
    return bool(find(scope, pattern, env))


def first(scope, pattern: str, env: dict | None = None):
    r = find(scope, pattern, env)
    return r[0] if r else (None, None)


# ---------------------------------------------------------------------------- automatic metavariables
import builtins as _bi

_BUILTINS = set(dir(_bi))


def literal_names(mod, node) -> set[str]:
    """names that must match literally in a pattern applied to `node`: parameters of the enclosing / nested
    functions, module-level names, imports, builtins, declared globals/nonlocals.  Every other Name (i.e. a
    LOCAL variable, whatever it is called today) is treated as a metavariable."""
    cache = mod.__dict__.setdefault("_lit_cache", {})
    top = node
    for anc in mod.parents.ancestors(node):
        if isinstance(anc, (ast.FunctionDef, ast.AsyncFunctionDef)):
            top = anc
    if not isinstance(top, (ast.FunctionDef, ast.AsyncFunctionDef)) and isinstance(node, (ast.FunctionDef, ast.AsyncFunctionDef)):
        top = node
    key = id(top)
    if key in cache:
        return cache[key]
    lit = set(_BUILTINS) | {"self", "cls"}
    for s in mod.tree.body:
        for n in ast.walk(s) if not isinstance(s, (ast.FunctionDef, ast.AsyncFunctionDef, ast.ClassDef)) else [s]:
            if isinstance(n, (ast.FunctionDef, ast.AsyncFunctionDef, ast.ClassDef)):
                lit.add(n.name)
            elif isinstance(n, (ast.Import, ast.ImportFrom)):
                if isinstance(n, ast.ImportFrom) and n.module == "__future__":
                    continue  # `from __future__ import annotations` binds nothing a pattern could mean
                for a in n.names:
                    lit.add((a.asname or a.name).split(".")[0])
            elif isinstance(n, ast.Name) and isinstance(n.ctx, ast.Store):
                lit.add(n.id)
    for n in ast.walk(mod.tree):
        if isinstance(n, ast.ClassDef):
            lit.add(n.name)
    for n in ast.walk(top):
        if isinstance(n, (ast.FunctionDef, ast.AsyncFunctionDef, ast.Lambda)):
            a = n.args
            for x in a.posonlyargs + a.args + a.kwonlyargs:
                lit.add(x.arg)
            if a.vararg:
                lit.add(a.vararg.arg)
            if a.kwarg:
                lit.add(a.kwarg.arg)
            if not isinstance(n, ast.Lambda):
                lit.add(n.name)
        elif isinstance(n, (ast.Global, ast.Nonlocal)):
            lit.update(n.names)
        elif isinstance(n, (ast.Import, ast.ImportFrom)):
            for al in n.names:
                lit.add((al.asname or al.name).split(".")[0])
    # parameters of enclosing functions (closures)
    for anc in mod.parents.ancestors(top):
        if isinstance(anc, (ast.FunctionDef, ast.AsyncFunctionDef)):
            a = anc.args
            for x in a.posonlyargs + a.args + a.kwonlyargs:
                lit.add(x.arg)
    cache[key] = lit
    return lit


class _Auto(ast.NodeTransformer):
    def __init__(self, lit):
        self.lit = lit

    def visit_Name(self, n):
        if n.id in self.lit or n.id.startswith("__") or n.id in ("___", "___s"):
            return n
        return ast.copy_location(ast.Name(id="__" + n.id, ctx=n.ctx), n)


def _auto_pattern(node, text):
    mod = getattr(node, "_sa_mod", None)
    if mod is None and isinstance(node, list) and node:
        mod = getattr(node[0], "_sa_mod", None)
    p = compile_pattern(text)
    if mod is None:
        return p
    anchor = node if isinstance(node, ast.AST) else node[0]
    lit = literal_names(mod, anchor)
    if isinstance(p, list):
        return [_Auto(lit).visit(x) for x in p]
    return _Auto(lit).visit(p)


def afind(scope, text: str):
    """find with automatic metavariables: local variable names in `text` match any (consistently bound) local."""
    p = _auto_pattern(scope, text)
    out = []
    for n in _nodes(scope):
        b = match(p, n)
        if b is not None:
            out.append((n, b))
    return out


def ahas(scope, text: str) -> bool:
    return bool(afind(scope, text))


def amatch(node, text: str) -> bool:
    """the node itself (not a sub-node) matches the pattern, locals as metavariables"""
    if node is None:
        return False
    p = _auto_pattern(node, text)
    return match(p, node) is not None


class T(str):
    """text view of a node (a str: the unparsed source) whose CONTAINMENT and EQUALITY tests are structural:
    `"<python fragment>" in T(node)` looks for a sub-tree matching the fragment, with the fragment's local variable
    names as metavariables.  Fragments that are not complete Python (or a bare identifier / constant) fall back to
    a substring test on the text."""

    def __new__(cls, node):
        text = ast.unparse(node) if isinstance(node, ast.AST) else "\n".join(ast.unparse(n) for n in node)
        self = super().__new__(cls, text)
        self.node = node
        return self

    def __contains__(self, pat) -> bool:
        if str.__contains__(self, pat):
            return True  # literally present: same spelling, nothing to abstract
        try:
            p = compile_pattern(pat)
        except SyntaxError:
            return False
        if isinstance(p, (ast.Name, ast.Constant)):
            return False
        return ahas(self.node, pat)

    def __eq__(self, other):
        if isinstance(other, str) and not isinstance(other, T):
            if str.__eq__(self, other):
                return True
            try:
                p = compile_pattern(other)
            except SyntaxError:
                return False
            if isinstance(p, (ast.Name, ast.Constant)):
                return False  # a bare identifier is a spelling, nothing structural to compare
            return bool(amatch(self.node, other))
        return str.__eq__(self, other)

    def __ne__(self, other):
        return not self.__eq__(other)

    __hash__ = str.__hash__
