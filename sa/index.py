"""E1 - source index over the repository working tree.

Parses every `cohdl/**/*.py` (source overrides allowed, used by the self-test and
by positive controls), and offers anchored lookups that raise AnalysisError when
an anchor has vanished (never a silent pass).
"""

from __future__ import annotations

import ast
import json
import hashlib
import os
from dataclasses import dataclass, field

from .astutil import FUNC_TYPES, AnalysisError, ParentMap, dotted, decorator_names


@dataclass
class FuncInfo:
    module: "ModuleInfo"
    qualname: str  # Class.method / outer.<locals>.inner
    node: ast.AST
    cls: ast.ClassDef | None

    @property
    def where(self) -> str:
        return f"{self.module.rel}:{self.node.lineno}"


def _canonicalise(tree):
    """behaviour-preserving normal form applied to every parsed module before any rule sees it, so that rules are
    invariant under the corresponding refactorings:
      if not C: A else: B   ->   if C: B else: A        (plain if/else only; elif chains keep their shape)
    Line numbers of the moved statements are kept."""
    for n in ast.walk(tree):
        if isinstance(n, ast.If) and n.orelse and not (len(n.orelse) == 1 and isinstance(n.orelse[0], ast.If)):
            t = n.test
            if isinstance(t, ast.UnaryOp) and isinstance(t.op, ast.Not):
                n.test, n.body, n.orelse = t.operand, n.orelse, n.body


def param_signature(fn) -> list[tuple[str, str]]:
    """(kind, name) of every parameter in declaration order"""
    a = fn.args
    out = [("p", x.arg) for x in a.posonlyargs] + [("a", x.arg) for x in a.args]
    if a.vararg:
        out.append(("v", a.vararg.arg))
    out += [("k", x.arg) for x in a.kwonlyargs]
    if a.kwarg:
        out.append(("w", a.kwarg.arg))
    return out


_PARAM_REF: dict | None = None


def _param_ref() -> dict:
    global _PARAM_REF
    if _PARAM_REF is None:
        p = os.path.join(os.path.dirname(os.path.abspath(__file__)), "param_ref.json")
        try:
            with open(p) as fh:
                _PARAM_REF = json.load(fh)
        except OSError:
            _PARAM_REF = {}
    return _PARAM_REF


def _restore_param_names(mod: "ModuleInfo"):
    """behaviour-preserving normal form, part 2: a parameter that was renamed (same function, same position, same
    parameter kinds) is alpha-renamed back to the name the rules know it by (sa/param_ref.json), so that rules talk
    about "the 2nd parameter of X" rather than about a spelling.  Done only when the renaming cannot capture:
    the reference name occurs nowhere in the function, and no nested scope rebinds the current name."""
    ref = _param_ref().get(mod.rel)
    if not ref:
        return
    for q, f in mod.functions.items():
        want = ref.get(q)
        if not want:
            continue
        cur = param_signature(f.node)
        want = [tuple(w.split(":", 1)) for w in want]
        if len(cur) != len(want) or [k for k, _ in cur] != [k for k, _ in want]:
            continue
        cur_names = {n for _k, n in cur}
        todo = {c: w for (_k, c), (_k2, w) in zip(cur, want) if c != w}
        if not todo or any(w in cur_names for w in todo.values()):
            continue  # nothing renamed, or a permutation (names still present): rules resolve by name
        used = set()
        rebound = set()
        for n in ast.walk(f.node):
            if isinstance(n, ast.Name):
                used.add(n.id)
            elif isinstance(n, (ast.Global, ast.Nonlocal)):
                used.update(n.names)
                rebound.update(n.names)
            elif isinstance(n, ast.arg) and n.arg not in cur_names:
                used.add(n.arg)
            elif isinstance(n, ast.ExceptHandler) and n.name:
                used.add(n.name)
            elif isinstance(n, (ast.FunctionDef, ast.AsyncFunctionDef, ast.ClassDef)) and n is not f.node:
                used.add(n.name)
            elif isinstance(n, ast.alias):
                used.add((n.asname or n.name).split(".")[0])
            if isinstance(n, (ast.FunctionDef, ast.AsyncFunctionDef, ast.Lambda)) and n is not f.node:
                rebound.update(nm for _k, nm in param_signature(n))
        for c, w in todo.items():
            if w in used or c in rebound:
                continue
            for n in ast.walk(f.node):
                if isinstance(n, ast.Name) and n.id == c:
                    n.id = w
                elif isinstance(n, ast.arg) and n.arg == c:
                    n.arg = w


class ModuleInfo:
    def __init__(self, rel: str, source: str):
        self.rel = rel
        self.source = source
        try:
            self.tree = ast.parse(source, filename=rel)
        except SyntaxError as e:  # the tree must at least parse
            raise AnalysisError(f"syntax error in {rel}: {e}") from e
        if os.environ.get("VERIF_NO_CANON") != "1":
            _canonicalise(self.tree)
        self._parents: ParentMap | None = None
        for _n in ast.walk(self.tree):
            _n._sa_mod = self  # lets pattern helpers find the module (and so the enclosing function) of any node
        self.functions: dict[str, FuncInfo] = {}
        self.classes: dict[str, ast.ClassDef] = {}
        self.imports: dict[str, str] = {}  # local name -> "module:name" / "module"
        self._collect(self.tree.body, "", None)
        self._collect_imports()
        if os.environ.get("VERIF_NO_CANON") != "1" and os.environ.get("VERIF_NO_PARAM_CANON") != "1":
            _restore_param_names(self)

    @property
    def parents(self) -> ParentMap:
        if self._parents is None:
            self._parents = ParentMap(self.tree)
        return self._parents

    def _collect(self, body, prefix, cls):
        for n in body:
            if isinstance(n, FUNC_TYPES):
                q = prefix + n.name
                # property setters etc. share a name: keep all under q, q#2 ...
                key = q
                k = 2
                while key in self.functions:
                    key = f"{q}#{k}"
                    k += 1
                self.functions[key] = FuncInfo(self, key, n, cls)
                self._collect_nested(n, q + ".<locals>.")
            elif isinstance(n, ast.ClassDef):
                q = prefix + n.name
                self.classes[q] = n
                self._collect(n.body, q + ".", n)
            elif isinstance(n, (ast.If, ast.Try, ast.With, ast.For, ast.While)):
                for sub in ("body", "orelse", "finalbody"):
                    self._collect(getattr(n, sub, []) or [], prefix, cls)
                for h in getattr(n, "handlers", []) or []:
                    self._collect(h.body, prefix, cls)

    def _collect_nested(self, fn, prefix):
        for n in ast.walk(fn):
            if n is fn:
                continue
        # direct nested defs only (one level at a time)
        stack = list(fn.body)
        while stack:
            s = stack.pop(0)
            if isinstance(s, FUNC_TYPES):
                q = prefix + s.name
                key = q
                k = 2
                while key in self.functions:
                    key = f"{q}#{k}"
                    k += 1
                self.functions[key] = FuncInfo(self, key, s, None)
                self._collect_nested(s, q + ".<locals>.")
            elif isinstance(s, ast.ClassDef):
                q = prefix + s.name
                self.classes[q] = s
                self._collect(s.body, q + ".", s)
            else:
                for name, value in ast.iter_fields(s):
                    if isinstance(value, list):
                        for c in value:
                            if isinstance(c, ast.stmt):
                                stack.append(c)
                            elif isinstance(c, (ast.ExceptHandler, ast.match_case)):
                                stack.extend(c.body)

    def _collect_imports(self):
        pkg = self.rel[:-3].replace("/", ".")
        if pkg.endswith(".__init__"):
            pkg_parts = pkg.split(".")[:-1]
        else:
            pkg_parts = pkg.split(".")[:-1]
        for n in ast.walk(self.tree):
            if isinstance(n, ast.Import):
                for a in n.names:
                    self.imports[a.asname or a.name.split(".")[0]] = a.name
            elif isinstance(n, ast.ImportFrom):
                if n.level:
                    base = pkg_parts[: len(pkg_parts) - (n.level - 1)]
                    mod = ".".join(base + ([n.module] if n.module else []))
                else:
                    mod = n.module or ""
                for a in n.names:
                    self.imports[a.asname or a.name] = f"{mod}:{a.name}"

    # ------------------------------------------------------------------ lookups
    def func(self, qualname: str) -> FuncInfo:
        f = self.functions.get(qualname)
        if f is None:
            raise AnalysisError(f"anchor vanished: function {qualname} in {self.rel}")
        return f

    def has_func(self, qualname: str) -> bool:
        return qualname in self.functions

    def funcs_named(self, qualname: str) -> list[FuncInfo]:
        """all definitions sharing a qualname (property getter/setter pairs)."""
        out = []
        for k, f in self.functions.items():
            if k == qualname or k.startswith(qualname + "#"):
                out.append(f)
        return out

    def cls(self, name: str) -> ast.ClassDef:
        c = self.classes.get(name)
        if c is None:
            raise AnalysisError(f"anchor vanished: class {name} in {self.rel}")
        return c

    def methods(self, clsname: str) -> dict[str, FuncInfo]:
        self.cls(clsname)
        pre = clsname + "."
        return {
            k[len(pre):]: f
            for k, f in self.functions.items()
            if k.startswith(pre) and "." not in k[len(pre):]
        }

    def canonical_view(self, qualname: str, mapping: dict[str, str]) -> "FuncInfo":
        """the function `qualname` with LOCAL names renamed (actual -> canonical) - same layout, same line numbers.
        Used after roles have been resolved by dataflow, so that rules can be phrased over role names whatever the
        locals are called today.  Only NAME tokens inside the function's own line span are touched; attribute names
        (after a dot) and keyword-argument names are left alone."""
        mapping = {a: c for a, c in mapping.items() if a and a != c}
        f = self.func(qualname)
        if not mapping:
            return f
        import io
        import tokenize
        lo, hi = f.node.lineno, f.node.end_lineno
        toks = list(tokenize.generate_tokens(io.StringIO(self.source).readline))
        lines = self.source.splitlines(keepends=True)
        edits = []
        for i, t in enumerate(toks):
            if t.type == tokenize.NAME and lo <= t.start[0] <= hi and t.string in mapping:
                prev = toks[i - 1] if i else None
                nxt = toks[i + 1] if i + 1 < len(toks) else None
                if prev is not None and prev.type == tokenize.OP and prev.string == ".":
                    continue
                if nxt is not None and nxt.type == tokenize.OP and nxt.string == "=" and prev is not None and prev.type == tokenize.OP and prev.string in ("(", ","):
                    continue  # keyword argument name
                edits.append((t.start, t.end, mapping[t.string]))
        for (r, c0), (_r2, c1), new in sorted(edits, reverse=True):
            ln = lines[r - 1]
            lines[r - 1] = ln[:c0] + new + ln[c1:]
        m2 = ModuleInfo(self.rel, "".join(lines))
        return m2.func(qualname)

    def line(self, lineno: int) -> str:
        lines = self.source.splitlines()
        return lines[lineno - 1] if 0 < lineno <= len(lines) else ""


_PARSE_CACHE: dict = {}


def _module(rel, source):
    """dev tools (self-tests over hundreds of variants) may share parsed modules between Index objects: set
    VERIF_PARSE_CACHE=1.  Registered checks never do (one Index per run)."""
    if os.environ.get("VERIF_PARSE_CACHE") != "1":
        return ModuleInfo(rel, source)
    k = (rel, hash(source))
    m = _PARSE_CACHE.get(k)
    if m is None:
        if len(_PARSE_CACHE) > 400:
            _PARSE_CACHE.clear()
        m = _PARSE_CACHE[k] = ModuleInfo(rel, source)
    return m


class Index:
    def __init__(self, repo: str, overrides: dict[str, str] | None = None, package: str = "cohdl"):
        self.repo = repo
        self.package = package
        self.overrides = overrides or {}
        self.modules: dict[str, ModuleInfo] = {}
        self.consulted: set[str] = set()
        root = os.path.join(repo, package)
        if not os.path.isdir(root):
            raise AnalysisError(f"package directory {root} not found")
        rels = []
        for dp, dn, fn in os.walk(root):
            dn[:] = sorted(d for d in dn if d != "__pycache__")
            for f in sorted(fn):
                if f.endswith(".py"):
                    rels.append(os.path.relpath(os.path.join(dp, f), repo))
        for rel in rels:
            if rel in self.overrides:
                source = self.overrides[rel]
            else:
                with open(os.path.join(repo, rel), encoding="utf-8") as fh:
                    source = fh.read()
            self.modules[rel] = _module(rel, source)
        for rel, source in self.overrides.items():
            if rel not in self.modules:
                self.modules[rel] = ModuleInfo(rel, source)

    def mod(self, rel: str) -> ModuleInfo:
        m = self.modules.get(rel)
        if m is None:
            raise AnalysisError(f"anchor vanished: module {rel}")
        self.consulted.add(rel)
        return m

    def all_modules(self, prefix: str = "") -> list[ModuleInfo]:
        out = [m for r, m in self.modules.items() if r.startswith(prefix)]
        for m in out:
            self.consulted.add(m.rel)
        return out

    def func(self, rel: str, qualname: str) -> FuncInfo:
        return self.mod(rel).func(qualname)

    def digest(self) -> str:
        h = hashlib.sha256()
        for rel in sorted(self.consulted):
            h.update(rel.encode())
            h.update(self.modules[rel].source.encode())
        return h.hexdigest()[:16]

    def resolve_import(self, mod: ModuleInfo, name: str) -> tuple[ModuleInfo, str] | None:
        """follow `from .x import name` to the defining module inside the package."""
        seen = set()
        cur_mod, cur_name = mod, name
        while True:
            tgt = cur_mod.imports.get(cur_name)
            if tgt is None or ":" not in tgt:
                return (cur_mod, cur_name) if (cur_mod is not mod or cur_name != name) else None
            m, n = tgt.split(":")
            for cand in (m.replace(".", "/") + ".py", m.replace(".", "/") + "/__init__.py"):
                if cand in self.modules:
                    nxt = self.modules[cand]
                    break
            else:
                return None
            if (nxt.rel, n) in seen:
                return None
            seen.add((nxt.rel, n))
            if n in nxt.classes or n in nxt.functions or n not in nxt.imports:
                return (nxt, n)
            cur_mod, cur_name = nxt, n
