"""C13 - parametrised types are canonical and form the documented subtype lattice.

Decided:
  F-CACHE   the three metaclass __getitem__ are get-or-create on a plain dict keyed by the complete,
            normalised parameter tuple; the created class depends only on the key and cls
  C13.b     every family root owns its own cache
  C13.c     the bases computed per branch equal the documented lattice
  C13.views value-level views (.unsigned/.signed/.bitvector, slices) share the element storage
  F-VIEW    qualified views keep _root / qualifier / _ref_spec (shared with C07)
"""

from __future__ import annotations

import ast

from ..astutil import AnalysisError, dotted, src, walk_local, walk_ordered, calls_in
from .. import pattern as P
from ..rules import views

BV = "cohdl/_core/_bit_vector.py"
AR = "cohdl/_core/_array.py"
TQ = "cohdl/_core/_type_qualifier.py"
UN = "cohdl/_core/_unsigned.py"
SI = "cohdl/_core/_signed.py"

CACHES = [
    (BV, "_BitVector.__getitem__", ["order", "width"]),
    (TQ, "_TypeQualifier.__getitem__", ["WrappedType", "direction"]),
    (AR, "_MetaArray.__getitem__", ["elemtype", "count"]),
]


def rule_cache(run):
    run.begin(
        "F-CACHE",
        "metaclass __getitem__: key = tuple of all normalised parameters; `if key in cls._SubTypes: return cls._SubTypes[key]` "
        "precedes creation; the new class is stored under the same key in the same unbounded dict and returned; its "
        "attributes are functions of the key",
        floor=12,
    )
    for rel, q, comps in CACHES:
        mod = run.idx.mod(rel)
        f = mod.func(q)
        body = f.node.body
        stores = [a for a in walk_local(f.node) if isinstance(a, ast.Assign) and isinstance(a.targets[0], ast.Subscript) and dotted(a.targets[0].value) == "cls._SubTypes"]
        if len(stores) != 1:
            run.ob(False, q, file=rel, line=f.node.lineno, detail="store", expected="exactly one `cls._SubTypes[key] = new_type`", found=f"{len(stores)} stores (cache replaced or bypassed)")
            continue
        st = stores[0]
        key = dotted(st.targets[0].slice)
        kdef = [a for a in body if isinstance(a, ast.Assign) and dotted(a.targets[0]) == key]
        # the key must contain every input the created class depends on: all values computed from the subscript
        # argument BEFORE the key that are read AFTER it (whatever the locals are called)
        comps_doc = comps
        comps = [dotted(e) for e in kdef[0].value.elts] if len(kdef) == 1 and isinstance(kdef[0].value, ast.Tuple) else []
        inputs = {a.arg for a in f.node.args.args if a.arg != "cls"}
        used_after = set()
        if kdef:
            ki = body.index(kdef[0])
            for stx in body[:ki]:
                inputs |= {n.id for n in ast.walk(stx) if isinstance(n, ast.Name) and isinstance(n.ctx, ast.Store)}
            for stx in body[ki + 1:]:
                used_after |= {n.id for n in ast.walk(stx) if isinstance(n, ast.Name) and isinstance(n.ctx, ast.Load) and n.id in inputs}
        missing_in_key = sorted(used_after - set(comps) - {key})
        ok = len(kdef) == 1 and len(comps) == len(comps_doc) and all(comps) and not missing_in_key
        run.ob(ok, q, file=rel, line=(kdef[0].lineno if kdef else f.node.lineno), detail="key", expected=f"{key} = (<{len(comps_doc)} normalised parameters>), containing every input the new class depends on",
               found=(src(kdef[0]) + (f"; used after the key but not part of it: {missing_in_key}" if missing_in_key else "")) if kdef else "key not built in the function body")
        look = [s for s in body if isinstance(s, ast.If) and P.T(s.test) == f"{key} in cls._SubTypes"]
        ok = len(look) == 1 and isinstance(look[0].body[-1], ast.Return) and P.T(look[0].body[-1].value) == f"cls._SubTypes[{key}]"
        run.ob(ok, q, file=rel, line=(look[0].lineno if look else f.node.lineno), detail="lookup", expected=f"if {key} in cls._SubTypes: return cls._SubTypes[{key}]", found="ok" if ok else "missing/changed")
        if look and kdef:
            ok = body.index(kdef[0]) < body.index(look[0]) and look[0].lineno < st.lineno
            run.ob(ok, q, file=rel, line=look[0].lineno, detail="lookup-before-create", expected="key built, looked up, then created", found="ok" if ok else "order changed")
            # nothing that the created type depends on is (re)assigned between key and lookup except normalisation before the key
            later_norm = [a for a in body[body.index(kdef[0]) + 1:] if isinstance(a, (ast.Assign, ast.If)) and any(isinstance(x, ast.Assign) and dotted(x.targets[0]) in comps for x in ast.walk(a))]
            run.ob(not later_norm, q, file=rel, line=kdef[0].lineno, detail="normalise-before-key", expected="parameters are normalised before the key is built", found="ok" if not later_norm else "a key component is modified after the key was built")
        ok = dotted(st.value) == "new_type" and isinstance(body[-1], ast.Return) and dotted(body[-1].value) == "new_type"
        run.ob(ok, q, file=rel, line=st.lineno, detail="store-and-return", expected=f"cls._SubTypes[{key}] = new_type; return new_type", found="ok" if ok else "changed")
        # the created class's attribute dict only mentions key components
        creations = [c for c in ast.walk(f.node) if isinstance(c, ast.Call) and dotted(c.func) == "type" and len(c.args) == 3 and any(isinstance(a, ast.Assign) and dotted(a.targets[0]) == "new_type" and a.value is c for a in ast.walk(f.node))]
        for c in creations:
            d = c.args[2]
            names = {dotted(v) for v in (d.values if isinstance(d, ast.Dict) else [])}
            ok = isinstance(d, ast.Dict) and names <= set(comps) | {"width", "order"}
            run.ob(ok, q, file=rel, line=c.lineno, detail=f"attributes@{c.lineno - f.node.lineno}", expected="class attributes are key components", found=src(d)[:70])
        if not creations:
            raise AnalysisError(f"{q}: creation of new_type not found")
        # no bounded / foreign cache
        deco = [dotted(x.func) if isinstance(x, ast.Call) else dotted(x) for x in f.node.decorator_list]
        bad = [x for x in deco if x and ("cache" in x)]
        run.ob(not bad, q, file=rel, line=f.node.lineno, detail="unbounded", expected="no evicting cache decorator", found=str(bad) if bad else "ok")
    # normalisation of bool/int in _TypeQualifier happens before the key
    tq = run.idx.mod(TQ)
    f = tq.func("_TypeQualifier.__getitem__")
    body = f.node.body
    kd = [a for a in body if isinstance(a, ast.Assign) and isinstance(a.value, ast.Tuple) and any(isinstance(x, ast.If) and dotted(a.targets[0]) in src(x.test) and "_SubTypes" in src(x.test) for x in body)]
    ok = False
    if kd:
        wrapped = dotted(kd[0].value.elts[0])
        before = body[: body.index(kd[0])]
        norm_bool = any(P.has(st, "__w = _Boolean", {"__w": wrapped}) and "is bool" in src(st) for st in before if isinstance(st, ast.If))
        norm_int = any(P.has(st, "__w = Integer", {"__w": wrapped}) and "is int" in src(st) for st in before if isinstance(st, ast.If))
        ok = norm_bool and norm_int
    run.ob(ok, "_TypeQualifier.__getitem__", file=tq.rel, line=f.node.lineno, detail="bool-int-normalised", expected="bool -> _Boolean and int -> Integer before the key is built", found="ok" if ok else "changed")
    run.end()


def rule_own_cache(run):
    run.begin("C13.b", "every family root that must yield distinct classes owns its own `_SubTypes = {}`", floor=8)
    roots = [(BV, "BitVector"), (UN, "Unsigned"), (SI, "Signed"), (AR, "Array"), (TQ, "Signal"), (TQ, "Port"), (TQ, "Variable"), (TQ, "Temporary")]
    for rel, cname in roots:
        mod = run.idx.mod(rel)
        c = mod.cls(cname)
        own = [s for s in c.body if isinstance(s, ast.Assign) and dotted(s.targets[0]) == "_SubTypes"]
        ok = len(own) == 1 and isinstance(own[0].value, ast.Dict) and not own[0].value.keys
        run.ob(ok, cname, file=rel, line=c.lineno, detail="own-cache", expected="_SubTypes = {} in the class body", found="ok" if ok else "missing: parametrisations would be shared with the parent family")
    run.end()


def _type_calls(node):
    return [c for c in ast.walk(node) if isinstance(c, ast.Call) and dotted(c.func) == "type" and len(c.args) == 3]


def rule_lattice(run):
    run.begin(
        "C13.c",
        "bases of the created classes equal the documented lattice: Q[Unsigned[n]] : (Q[Unsigned], Q[BitVector[n]]); "
        "Q[Signed[n]] : (Q[Signed], Q[BitVector[n]]); Q[BitVector[n]] : Q[BitVector]; Q[Unsigned]|Q[Signed] : Q[BitVector]; "
        "ports additionally Signal[T] and carry the same direction; Unsigned[n] : (Unsigned, BitVector[n])",
        floor=10,
    )
    tq = run.idx.mod(TQ)
    f = tq.func("_TypeQualifier.__getitem__")
    # resolve the roles of the locals (wrapped type / direction = the two key components, parent class = the value tested
    # for being a Port) and phrase the rule over canonical names, whatever the locals are called today
    body = f.node.body
    kd = [a for a in body if isinstance(a, ast.Assign) and isinstance(a.value, ast.Tuple) and len(a.value.elts) == 2 and any(isinstance(x, ast.If) and "_SubTypes" in src(x.test) and dotted(a.targets[0]) in src(x.test) for x in body)]
    pc = [b["__p"] for _n, b in P.find(body, "issubclass(__p, Port)")]
    if not kd or not pc:
        raise AnalysisError("_TypeQualifier.__getitem__: key / parent class roles not recognised")
    f = tq.canonical_view("_TypeQualifier.__getitem__", {dotted(kd[0].value.elts[0]): "WrappedType", dotted(kd[0].value.elts[1]): "direction", pc[0]: "parent_cls"})
    sized = [s for s in ast.walk(f.node) if isinstance(s, ast.If) and P.T(s.test) == "hasattr(WrappedType, '_width')"]
    if not sized:
        raise AnalysisError("sized-vector branch of _TypeQualifier.__getitem__ not found")
    seen = 0
    for kind in ("Unsigned", "Signed"):
        br = [s for s in ast.walk(sized[0]) if isinstance(s, ast.If) and P.T(s.test) == f"issubclass(WrappedType, {kind})"]
        if not br:
            run.ob(False, "_TypeQualifier.__getitem__", file=tq.rel, line=sized[0].lineno, detail=f"{kind}[n]", expected="branch present", found="missing")
            continue
        inner = [s for s in br[0].body if isinstance(s, ast.If) and P.T(s.test) == "direction is None"]
        if not inner:
            raise AnalysisError(f"direction split of the {kind} branch not found")
        for arm, stmts, suffix in (("no-direction", inner[0].body, ""), ("direction", inner[0].orelse, ", direction")):
            tc = _type_calls(ast.Module(body=stmts, type_ignores=[]))
            if len(tc) != 1:
                raise AnalysisError(f"{kind}/{arm}: parent class creation not found")
            bases = [src(b) for b in tc[0].args[1].elts] if isinstance(tc[0].args[1], ast.Tuple) else []
            exp = [f"cls[{kind}{suffix}]", f"cls[BitVector[WrappedType._width]{suffix}]"]
            seen += 1
            run.ob(bases == exp, "_TypeQualifier.__getitem__", file=tq.rel, line=tc[0].lineno, detail=f"{kind}[n].{arm}", expected=str(exp), found=str(bases))
    # plain sized BitVector and unsized Unsigned/Signed
    t = P.T(f.node)
    ok = "cls[BitVector] if direction is None else cls[BitVector, direction]" in t.replace("\n", " ").replace("  ", "")  or "parent_cls = cls[BitVector] if direction is None else cls[BitVector, direction]" in " ".join(t.split())
    run.ob(ok, "_TypeQualifier.__getitem__", file=tq.rel, line=sized[0].lineno, detail="BitVector[n]", expected="parent = cls[BitVector] (with the same direction)", found="ok" if ok else "changed")
    uns = [s for s in ast.walk(f.node) if isinstance(s, ast.If) and P.T(s.test) == "WrappedType is Unsigned or WrappedType is Signed"]
    ok = bool(uns) and "parent_cls = cls[BitVector]" in P.T(uns[0]) and "parent_cls = cls[BitVector, direction]" in P.T(uns[0])
    run.ob(ok, "_TypeQualifier.__getitem__", file=tq.rel, line=(uns[0].lineno if uns else f.node.lineno), detail="Unsigned|Signed", expected="parent = cls[BitVector] (with the same direction)", found="ok" if ok else "changed")
    base = [s for s in ast.walk(f.node) if isinstance(s, ast.If) and P.T(s.test) == "WrappedType is BitVector"]
    ok = bool(base) and "parent_cls = cls" in P.T(base[0].body[0])
    run.ob(ok, "_TypeQualifier.__getitem__", file=tq.rel, line=(base[0].lineno if base else f.node.lineno), detail="BitVector", expected="parent = cls", found="ok" if ok else "changed")
    port = [s for s in f.node.body if isinstance(s, ast.If) and P.T(s.test) == "issubclass(parent_cls, Port)"]
    if not port:
        raise AnalysisError("port branch not found")
    tc = _type_calls(ast.Module(body=port[0].body, type_ignores=[]))
    ok = len(tc) == 1 and [src(b) for b in tc[0].args[1].elts] == ["parent_cls", "Signal[WrappedType]"] and "'_direction': direction" in P.T(tc[0].args[2]) and "'_Wrapped': WrappedType" in P.T(tc[0].args[2])
    run.ob(ok, "_TypeQualifier.__getitem__", file=tq.rel, line=port[0].lineno, detail="port-is-signal", expected="(parent_cls, Signal[WrappedType]) with _Wrapped and _direction", found=src(tc[0])[:120] if tc else "missing")
    tc = _type_calls(ast.Module(body=port[0].orelse, type_ignores=[]))
    ok = len(tc) == 1 and P.T(tc[0].args[1]) == "(parent_cls,)" and "'_Wrapped': WrappedType" in P.T(tc[0].args[2])
    run.ob(ok, "_TypeQualifier.__getitem__", file=tq.rel, line=port[0].lineno, detail="non-port", expected="(parent_cls,) with _Wrapped", found=src(tc[0])[:100] if tc else "missing")
    bv = run.idx.mod(BV)
    g = bv.func("_BitVector.__getitem__")
    split = [s for s in g.node.body if isinstance(s, ast.If) and P.T(s.test) == "cls._SubTypes is BitVector._SubTypes"]
    if not split:
        raise AnalysisError("family split of _BitVector.__getitem__ not found")
    a = _type_calls(ast.Module(body=split[0].body, type_ignores=[]))
    b = _type_calls(ast.Module(body=split[0].orelse, type_ignores=[]))
    ok = len(a) == 1 and P.T(a[0].args[1]) == "(cls,)"
    run.ob(ok, "_BitVector.__getitem__", file=bv.rel, line=split[0].lineno, detail="BitVector[n]", expected="(cls,)", found=src(a[0].args[1]) if a else "missing")
    ok = len(b) == 1 and P.T(b[0].args[1]) == "(cls, BitVector[width])"
    run.ob(ok, "_BitVector.__getitem__", file=bv.rel, line=split[0].lineno, detail="Unsigned[n]|Signed[n]", expected="(cls, BitVector[width])", found=src(b[0].args[1]) if b else "missing")
    if seen != 4:
        raise AnalysisError("lattice extraction incomplete")
    run.end()


def rule_value_views(run):
    run.begin(
        "C13.views",
        "value-level views alias the storage: .unsigned/.signed/.bitvector construct the sibling type from self._value "
        "(the shared Span), never from a copy; constructing from a Span adopts it; the setters write through the view",
        floor=7,
    )
    bv = run.idx.mod(BV)
    for prop, cls in (("unsigned", "Unsigned"), ("signed", "Signed"), ("bitvector", "BitVector")):
        getters = [g for g in bv.funcs_named(f"BitVector.{prop}") if not any((dotted(d) or "").endswith(".setter") for d in g.node.decorator_list)]
        setters = [g for g in bv.funcs_named(f"BitVector.{prop}") if any((dotted(d) or "").endswith(".setter") for d in g.node.decorator_list)]
        if not getters or not setters:
            raise AnalysisError(f"BitVector.{prop}: getter/setter not found")
        g = getters[0]
        last = g.node.body[-1]
        ok = isinstance(last, ast.Return) and P.T(last.value) == f"{cls}[self._width](self._value)"
        run.ob(ok, f"BitVector.{prop}", file=bv.rel, line=g.node.lineno, detail="shares-storage", expected=f"{cls}[self._width](self._value)", found=src(last)[:70])
        s = setters[0]
        ok = P.T(s.node.body[-1]) == f"self.{prop}._assign(value)"
        run.ob(ok, f"BitVector.{prop}.setter", file=bv.rel, line=s.node.lineno, detail="writes-through", expected=f"self.{prop}._assign(value)", found=src(s.node.body[-1])[:70])
    init = bv.func("BitVector.__init__")
    first = [s for s in init.node.body if isinstance(s, ast.If)]
    ok = bool(first) and P.T(first[0].test) == "isinstance(val, Span)" and "self._value = val" in P.T(first[0].body[-1])
    run.ob(ok, "BitVector.__init__", file=bv.rel, line=init.node.lineno, detail="adopts-span", expected="a Span argument becomes the storage itself (no copy)", found="ok" if ok else "changed")
    run.end()


def rule_views(run):
    views.run_rule(run, "F-VIEW")


def rule_array_elements(run):
    run.begin(
        "C13.d",
        "elements of an Array value always have exactly the declared element type (every initialiser is passed through "
        "the element type's constructor), so views of elements get the canonical class Q[elemtype]",
        floor=2,
    )
    ar = run.idx.mod(AR)
    f = ar.func("Array.__init__")
    et = [b["__e"] for _n, b in P.find(f.node, "__e = self._elemtype_")]
    names = set(et) | {"self._elemtype_"}
    n = 0
    for a in walk_local(f.node):
        if isinstance(a, ast.Assign) and dotted(a.targets[0]) == "self._value" and isinstance(a.value, ast.BinOp) and isinstance(a.value.op, ast.Mult):
            n += 1
            run.ob(False, "Array.__init__", file=ar.rel, line=a.lineno, detail=f"element#{n}", expected="one freshly constructed object per element ([elemtype(..) for ..])",
                   found=f"{src(a.value)[:60]}: list repetition stores the SAME object in every element (views of different elements alias each other)")
            continue
        if isinstance(a, ast.Assign) and dotted(a.targets[0]) == "self._value" and isinstance(a.value, (ast.ListComp, ast.List)):
            elts = [a.value.elt] if isinstance(a.value, ast.ListComp) else a.value.elts
            for e in elts:
                n += 1
                ok = isinstance(e, ast.Call) and dotted(e.func) in names
                run.ob(ok, "Array.__init__", file=ar.rel, line=a.lineno, detail=f"element#{n}", expected="elemtype(<initialiser>) for every element", found=src(e)[:70])
    if n < 2:
        raise AnalysisError("Array.__init__: element construction not recognised")
    run.end()


def rule_array_getitem(run):
    run.begin(
        "C13.arrayget",
        "a constant-index view of an Array value is the stored element whenever one is stored (whatever the element "
        "type, enumerations included); only positions without a stored element get a default-constructed element; "
        "indices outside [0, count) are rejected (abstract evaluation of Array.__getitem__)",
        floor=30,
    )
    from ..absint import Interp, Reject

    class _EnumBase:
        pass

    class _Stored:
        def __init__(self, i):
            self.i = i

    class _Default:
        def __init__(self, *a):
            self.a = a

    class _EnumT(_EnumBase):
        _member_map_ = {"A": "member-A", "B": "member-B"}

        def __init__(self, *a):
            self.a = a

    class _Self:
        pass

    ar = run.idx.mod(AR)
    f = ar.func("Array.__getitem__")
    for et_name, et in (("plain", _Default), ("enum", _EnumT)):
        for count in (1, 3):
            for nstored in (None, 0, 1, count):
                if nstored is not None and nstored > count:
                    continue
                for index in range(-1, count + 1):
                    me = _Self()
                    me._count_ = count
                    me._elemtype_ = et
                    me._value = None if nstored is None else [_Stored(i) for i in range(nstored)]
                    prims = {"issubclass": lambda c, b: isinstance(c, type) and isinstance(b, type) and issubclass(c, b), "Enum": _EnumBase, "len": len,
                             "isinstance": lambda v, t: isinstance(v, t) if isinstance(t, (type, tuple)) else False, "IndexError": IndexError, "list": list}
                    try:
                        got = Interp(ar, prims).call_function("Array.__getitem__", me, index)
                    except Reject:
                        got = "rejected"
                    if index < 0 or index >= count:
                        ok, exp = got == "rejected", "rejected"
                    elif nstored and index < nstored:
                        ok, exp = got is me._value[index], f"the stored element #{index}"
                    else:
                        ok, exp = isinstance(got, et), f"a default {et_name} element"
                    desc = f"stored#{got.i}" if isinstance(got, _Stored) else type(got).__name__.strip("_") if not isinstance(got, str) else got
                    run.ob(ok, "Array.__getitem__", file=ar.rel, line=f.node.lineno, detail=f"{et_name},count={count},stored={nstored},index={index}", expected=exp, found=desc,
                           sample=(et_name, count, nstored, index) == ("enum", 3, 3, 1))
    run.end()


def rule_ref_views(run):
    run.begin(
        "C13.ref",
        "std.Ref[T](obj) for a vector type T is the view of obj of exactly the requested kind (Ref[BitVector[n]] of an "
        "Unsigned/Signed object is its .bitvector view, not the numeric object itself) over the same storage; without T "
        "the kind of obj is kept (abstract evaluation of _Ref.__call__ over the kind lattice)",
        floor=12,
    )
    from ..absint import Interp, Reject

    class _BV:
        def __init__(self, root=None):
            self.root = root or self

        signed = property(lambda self: _S(self.root))
        unsigned = property(lambda self: _U(self.root))
        bitvector = property(lambda self: _BV(self.root))

    class _U(_BV):
        pass

    class _S(_BV):
        pass

    class _CB:
        pass

    class _TQB:
        @staticmethod
        def decay(x):
            return x

    class _Fail:
        @staticmethod
        def raise_if(cond, *a):
            if cond:
                raise Reject("RefQualifierFail")

    class _Me:
        pass

    cu = run.idx.mod("cohdl/std/_core_utility.py")
    f = cu.func("_Ref.__call__")
    kinds = {"BitVector": _BV, "Unsigned": _U, "Signed": _S}
    for tname, T in [*kinds.items(), ("none", None)]:
        for aname, A in kinds.items():
            arg = A()
            me = _Me()
            me._T = T
            prims = {"is_primitive_type": lambda t: True, "subclass_check": lambda c, b: issubclass(c, b), "instance_check": lambda v, t: isinstance(v, t), "BitVector": _BV, "Signed": _S,
                     "Unsigned": _U, "CohdlBool": _CB, "bool": bool, "TypeQualifierBase": _TQB(), "type": type, "len": len, "_check_type_qualifier_params": lambda k: True,
                     "RefQualifierFail": _Fail(), "issubclass": issubclass, "isinstance": lambda v, t: isinstance(v, t) if isinstance(t, (type, tuple)) else False, "tuple": tuple, "list": list}
            try:
                got = Interp(cu, prims).call_function("_Ref.__call__", me, arg)
            except Reject as e:
                got = f"rejected: {e}"
            want = T or A
            ok = isinstance(got, _BV) and type(got) is want and got.root is arg
            nm = {_BV: "BitVector", _U: "Unsigned", _S: "Signed"}
            found = got if isinstance(got, str) else f"{nm.get(type(got), type(got).__name__)} object" + ("" if not isinstance(got, _BV) or got.root is arg else " over OTHER storage")
            run.ob(ok, "_Ref.__call__", file=cu.rel, line=f.node.lineno, detail=f"Ref[{tname}]({aname})", expected=f"{nm[want]} view of the argument", found=found,
                   sample=(tname, aname) == ("BitVector", "Unsigned"))
    run.end()


def rule_own_storage(run):
    run.begin(
        "C13.own",
        "only VIEWS share storage: a vector constructor is handed a span of bit storage (which it adopts as its own "
        "storage) only by the object's own view methods (`T(self._value...)`); the storage of ANOTHER object (an "
        "argument's `._value`) is never passed to a constructor, so an object built FROM a value has its own bits and its "
        "own root (flow of foreign `._value` spans into constructor calls, per function)",
        floor=5,
    )
    n_view = 0
    for rel in (BV, UN, SI):
        m = run.idx.mod(rel)
        for q, f in m.functions.items():
            if ".<locals>." in q:
                continue
            params = [a.arg for a in f.node.args.posonlyargs + f.node.args.args]
            me = params[0] if params and params[0] in ("self", "cls") else None
            foreign = {}    # local name -> line where it was bound to another object's storage

            def is_foreign(e):
                for x in ast.walk(e):
                    if isinstance(x, ast.Attribute) and x.attr == "_value" and not (isinstance(x.value, ast.Name) and x.value.id == me):
                        return True
                    if isinstance(x, ast.Name) and x.id in foreign:
                        return True
                return False

            def direct(e):
                """the expression IS (a sub-span of) foreign storage - not something computed from it"""
                while isinstance(e, ast.Subscript):
                    e = e.value
                if isinstance(e, ast.Name):
                    return e.id in foreign
                return isinstance(e, ast.Attribute) and e.attr == "_value" and not (isinstance(e.value, ast.Name) and e.value.id == me)

            stmts = sorted((a for a in walk_local(f.node) if isinstance(a, ast.Assign)), key=lambda a: a.lineno)
            for _round in range(2):
                for a in stmts:
                    if len(a.targets) == 1 and isinstance(a.targets[0], ast.Name) and direct(a.value):
                        foreign.setdefault(a.targets[0].id, a.lineno)
            for c in walk_local(f.node):
                if not isinstance(c, ast.Call):
                    continue
                fn = c.func
                ctor = (
                    (isinstance(fn, ast.Subscript) and dotted(fn.value) in ("BitVector", "Unsigned", "Signed"))
                    or (isinstance(fn, ast.Call) and dotted(fn.func) == "type")
                    or (isinstance(fn, ast.Attribute) and fn.attr == "__init__" and isinstance(fn.value, ast.Call) and dotted(fn.value.func) == "super")
                    or dotted(fn) in ("BitVector", "Unsigned", "Signed", "cls")
                )
                if not ctor:
                    continue
                for a in c.args[:1] if not (dotted(fn) in ("BitVector", "Unsigned", "Signed")) else c.args[1:2]:
                    own = any(isinstance(x, ast.Attribute) and x.attr == "_value" and isinstance(x.value, ast.Name) and x.value.id == me for x in ast.walk(a))
                    if own and not is_foreign(a):
                        n_view += 1
                        run.ob(True, f"{rel.split('/')[-1]}::{q}", file=rel, line=c.lineno, detail="view-of-self", expected="own storage", found=src(a)[:50], sample=n_view == 1)
                    if direct(a):
                        run.ob(False, f"{rel.split('/')[-1]}::{q}", file=rel, line=c.lineno, detail="adopts-foreign-storage",
                               expected="a constructor receives values (int / str / vector objects), which it copies bit by bit",
                               found=f"`{src(c)[:60]}` hands the constructor the storage span of another object: the new object aliases it")
    run.end()


def rule_alias(run):
    from . import c03
    c03.rule_alias(run)   # views of a locally constructed signal are redirected to the alias as well (keyed by root)


def rule_span_width(run):
    from . import c05
    c05.rule_backend_sites(run)     # a vector constructed over a span of storage has exactly that many bits (slice views cannot reach beyond the vector)


RULES = [rule_cache, rule_own_cache, rule_lattice, rule_value_views, rule_views, rule_array_elements, rule_array_getitem, rule_ref_views, rule_own_storage, rule_alias, rule_span_width]
LEVEL = "other"
EXPLANATION = (
    "Canonicity and the subtype lattice are decided from the three metaclass __getitem__ functions for all parameters "
    "and all orders of first use: complete normalised key, lookup before creation on an unbounded per-family dict, "
    "bases per branch equal to the documented lattice, own cache per family root; plus storage sharing of value-level "
    "views and root/ref-spec propagation of qualified views. NOT decided: MRO legality for every creation order "
    "(C3 linearisation is computed by CPython at run time)."
)
ASSUMPTIONS = ["Python class creation with type(name, bases, dict) produces a distinct class per call", "dict lookup by tuple key is by value (ints, enum members, class objects by identity)"]
