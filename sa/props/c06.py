"""C06 - every accepted design yields legal, well-typed, self-consistent VHDL.

Decided (the parts of legality that are a property of the back end's own tables and templates):
  C06.a  reserved-word table is a superset of IEEE 1076-2008
  C06.b  every predefined identifier the emitted text itself relies on is reserved
  C06.c  name allocation: outer underscores stripped, every comparison with / insertion into the set of
         used names is lower-cased (case-insensitive uniqueness), user-reserved names are lower-cased
  C06.e  every expression-level template has balanced parentheses and quotes
  C06.f  case statements always get an others branch; with/select without default -> known finding
  C06.g  sensitivity of unclocked processes = all read signal roots (no filtering); non-empty -> known finding
  C06.h  output ports are never read: buffer + alias for every output port, everything assembled under
         the alias scope, the alias map is private to the entity being assembled
  C05.b  cast insertion matrix (shared with C05)
"""

from __future__ import annotations

import ast
import os
import re

from ..astutil import AnalysisError, dotted, src, walk_local, walk_ordered, calls_in
from .. import pattern as P
from ..rules import vhdltext as vt

VH = "cohdl/_compiler/backend/vhdl/_vhdl_repr.py"
ASM = "cohdl/_compiler/backend/vhdl/_vhdl_assembler.py"
TABLES = os.path.join(os.path.dirname(os.path.dirname(os.path.abspath(__file__))), "tables")

SCOPE_SAFE = {
    "ieee": "used only in the context clause in front of the entity declaration",
    "std_logic_1164": "used only in the context clause (selected name ieee.std_logic_1164.all)",
    "numeric_std": "used only in the context clause (selected name ieee.numeric_std.all)",
    "inp": "parameter of the helper function cohdl_bool_to_std_logic, visible only inside its own declarative region",
    "null_literal": "internal marker >>NULL_LITERAL<< that format_cast replaces before emission",
    "full_literal": "internal marker >>FULL_LITERAL>> that format_cast replaces before emission",
}


def reserved_sets(idx):
    m = idx.mod(VH)
    cls = m.cls("ModuleScope")
    out = {}
    for s in cls.body:
        if isinstance(s, ast.Assign) and isinstance(s.value, ast.Set) and isinstance(s.targets[0], ast.Name):
            vals = set()
            for e in s.value.elts:
                if not (isinstance(e, ast.Constant) and isinstance(e.value, str)):
                    raise AnalysisError("non-literal element in the reserved-word tables")
                vals.add(e.value)
            out[s.targets[0].id] = (vals, s.lineno)
    if "_vhdl_reserved" not in out or "_additional_reserved" not in out:
        raise AnalysisError("anchor vanished: ModuleScope._vhdl_reserved / _additional_reserved")
    return m, out


def lrm_words():
    words = set()
    with open(os.path.join(TABLES, "vhdl2008_reserved.txt")) as fh:
        for l in fh:
            if not l.startswith("#"):
                words |= {w.strip("*") for w in l.split()}
    return words


def rule_reserved(run):
    run.begin("C06.a", "ModuleScope._vhdl_reserved contains every reserved word of IEEE 1076-2008 (all lower case)", floor=100)
    m, sets = reserved_sets(run.idx)
    have, line = sets["_vhdl_reserved"]
    for w in sorted(lrm_words()):
        run.ob(w in have, "ModuleScope._vhdl_reserved", file=m.rel, line=line, detail=w, expected="reserved", found="present" if w in have else "missing: an object named like this is emitted verbatim", sample=(w in ("abs", "context")))
    upper = sorted(w for w in have | sets["_additional_reserved"][0] if w != w.lower())
    run.ob(not upper, "ModuleScope", file=m.rel, line=line, detail="lower-case", expected="table entries are lower case (names are compared lower-cased)", found=str(upper) if upper else "ok")
    # the tables are actually used to seed the set of used names
    init = m.func("ModuleScope.__init__")
    t = P.T(init.node)
    ok = "self._vhdl_reserved" in t and "self._additional_reserved" in t and "self._used_names" in t
    run.ob(ok, "ModuleScope.__init__", file=m.rel, line=init.node.lineno, detail="seeds-used-names", expected="_used_names = reserved | additional | user supplied", found="ok" if ok else "changed")
    run.end()


def rule_vocabulary(run):
    run.begin(
        "C06.b",
        "every complete identifier in the constant text of the back end's templates (outside comments and literals) is "
        "reserved, i.e. cannot be hidden by a user object: vocabulary ⊆ _vhdl_reserved ∪ _additional_reserved ∪ scope-safe",
        floor=40,
    )
    m, sets = reserved_sets(run.idx)
    res = sets["_vhdl_reserved"][0] | sets["_additional_reserved"][0]
    vocab = vt.vocabulary(run.idx)
    for w, sites in sorted(vocab.items()):
        ok = w in res or w in SCOPE_SAFE
        rel, q, line = sites[0]
        run.ob(ok, "emitted-vocabulary", file=rel, line=line, detail=w,
               expected="reserved (or reviewed scope-safe)", found=("reserved" if w in res else "scope-safe: " + SCOPE_SAFE.get(w, "")) if ok else f"`{w}` is emitted by {q} but a user object may take this name",
               sample=(w in ("to_unsigned", "inp")))
    must = {"to_unsigned", "to_signed", "to_integer", "shift_left", "shift_right", "rising_edge", "falling_edge", "resize", "std_logic", "std_logic_vector", "unsigned", "signed"}
    missing = sorted(must - set(vocab))
    if missing:
        raise AnalysisError(f"vocabulary extraction lost known emitted names {missing}")
    run.end()


def rule_names(run):
    run.begin(
        "C06.c",
        "name allocation in VhdlScope.complete_setup: strip outer underscores; every membership test against and every "
        "insertion into used_names uses the lower-cased name; the suffix search terminates with a free name; "
        "user-reserved names are stored lower-cased",
        floor=8,
    )
    m = run.idx.mod(VH)
    f = m.func("VhdlScope.complete_setup")
    tests = [c for c in ast.walk(f.node) if isinstance(c, ast.Compare) and len(c.ops) == 1 and isinstance(c.ops[0], (ast.In, ast.NotIn)) and dotted(c.comparators[0]) == "used_names"]
    if len(tests) < 3:
        raise AnalysisError("collision tests of complete_setup not found")
    for i, c in enumerate(tests):
        l = c.left
        ok = isinstance(l, ast.Call) and isinstance(l.func, ast.Attribute) and l.func.attr == "lower" and dotted(l.func.value) == "name"
        run.ob(ok, "VhdlScope.complete_setup", file=m.rel, line=c.lineno, detail=f"collision-test#{i}", expected="name.lower() in used_names", found=src(c))
    adds = [c for c in calls_in(f.node) if dotted(c.func) == "used_names.add"]
    ok = len(adds) == 1 and P.T(adds[0].args[0]) == "name.lower()"
    run.ob(ok, "VhdlScope.complete_setup", file=m.rel, line=(adds[0].lineno if adds else f.node.lineno), detail="insertion", expected="used_names.add(name.lower())", found="; ".join(src(a) for a in adds))
    ok = any(isinstance(a, ast.Assign) and dotted(a.targets[0]) == "name" and P.T(a.value) == "name.strip('_')" for a in ast.walk(f.node))
    run.ob(ok, "VhdlScope.complete_setup", file=m.rel, line=f.node.lineno, detail="strip-underscores", expected="name = name.strip('_')", found="ok" if ok else "missing")
    # the assigned name is the searched one, stored after the search
    stores = [a for a in ast.walk(f.node) if isinstance(a, ast.Assign) and dotted(a.targets[0]) == "decl.name"]
    ok = len(stores) == 1 and dotted(stores[0].value) == "name" and all(t.lineno < stores[0].lineno for t in tests)
    run.ob(ok, "VhdlScope.complete_setup", file=m.rel, line=(stores[0].lineno if stores else f.node.lineno), detail="assigned-after-search", expected="decl.name = name after the collision search", found="ok" if ok else "changed")
    # child scopes inherit the parent's used names
    t = P.T(f.node)
    ok = "set(self._parent._used_names) | self._used_names" in t and "self._used_names = used_names" in t
    run.ob(ok, "VhdlScope.complete_setup", file=m.rel, line=f.node.lineno, detail="inherits-parent-names", expected="names of enclosing scopes are taken (no hiding)", found="ok" if ok else "changed")
    r = m.func("VhdlScope.reserve_name")
    ok = "self._used_names.add(name.lower())" in P.T(r.node)
    run.ob(ok, "VhdlScope.reserve_name", file=m.rel, line=r.node.lineno, detail="lower-cased", expected="self._used_names.add(name.lower())", found=src(r.node.body[-1]))
    init = m.func("ModuleScope.__init__")
    ok = ".lower()" in P.T(init.node) and "additional_reserved_names" in P.T(init.node)
    comp = [c for c in ast.walk(init.node) if isinstance(c, (ast.SetComp, ast.GeneratorExp)) and "additional_reserved_names" in P.T(c)]
    ok = bool(comp) and ".lower()" in P.T(comp[0].elt)
    run.ob(ok, "ModuleScope.__init__", file=m.rel, line=init.node.lineno, detail="user-names-lower-cased", expected="{name.lower() for name in additional_reserved_names}", found=src(comp[0]) if comp else "stored as given")
    run.end()


def _dead_event_branch(idx, mod, node):
    """the template sits under `if event is Type.M:` and no code in cohdl/ can produce M -> reason, else None"""
    member = None
    for anc in mod.parents.ancestors(node):
        if isinstance(anc, ast.If) and isinstance(anc.test, ast.Compare) and isinstance(anc.test.ops[0], ast.Is):
            d = dotted(anc.test.comparators[0]) or ""
            if "." in d and d.split(".")[-1].isupper():  # `<enum alias>.MEMBER`, whatever the alias is called
                member = d.split(".")[-1]
                break
    if member is None:
        return None
    producers = []
    for m in idx.all_modules("cohdl/"):
        for n in ast.walk(m.tree):
            if isinstance(n, ast.Attribute) and n.attr == member:
                par = m.parents.of(n)
                is_test = isinstance(par, ast.Compare)
                fn = m.parents.enclosing_function(n)
                producers.append((m.rel, fn.name if fn else "<module>", is_test))
    real = [p for p in producers if not p[2]]
    # a producer inside a function that has no caller anywhere is dead as well
    live = []
    for rel, fname, _ in real:
        callers = 0
        for m in idx.all_modules("cohdl/"):
            for n in ast.walk(m.tree):
                if isinstance(n, ast.Call) and (dotted(n.func) or "").split(".")[-1] == fname:
                    callers += 1
        if callers:
            live.append((rel, fname))
    if live:
        return None
    return f"no live producer of Type.{member}: producers {sorted(set((r, f) for r, f, _ in real))} have no caller"


def rule_templates(run, known_exempt=True):
    run.begin("C06.e", "every expression-level string template of the back end has balanced parentheses and double quotes", floor=40)
    for mod, q, n in vt.expression_templates(run.idx):
        b = vt.balance(n)
        if b is not None:
            # reviewed exemption: template of an enum member that nothing can produce (dead branch), re-derived
            dead = _dead_event_branch(run.idx, mod, n)
            if dead:
                run.note(f"{q}:{n.lineno}: unbalanced template in a dead branch ({dead})")
                b = None
        first = vt.parts(n)[0][1] if vt.parts(n) else ""
        tag = re.sub(r"[^A-Za-z_]+", "_", first)[:24]
        run.ob(b is None, f"{q}", file=mod.rel, line=n.lineno, detail=f"template:{tag}", expected="balanced", found=b or "balanced", sample=(b is not None))
    run.end()


def rule_choices(run):
    run.begin("C06.f", "case statements always have an others branch; with/select emits `when others` (known finding when no default)", floor=2)
    m = run.idx.mod(VH)
    f = m.func("CaseWhen.write")
    ifx = [e for e in ast.walk(f.node) if isinstance(e, ast.IfExp) and "_others" in P.T(e.test)]
    if not ifx:
        raise AnalysisError("others-branch selection of CaseWhen.write not found")
    for arm, e in (("no-default", ifx[0].body if "is None" in P.T(ifx[0].test) else ifx[0].orelse), ("default", ifx[0].orelse if "is None" in P.T(ifx[0].test) else ifx[0].body)):
        ok = "when others =>" in P.T(e)
        run.ob(ok, "CaseWhen.write", file=m.rel, line=e.lineno, detail=f"others[{arm}]", expected="`when others =>` emitted", found="ok" if ok else src(e)[:60])
    # the others branch is inside the emitted list between the branches and `end case;`
    ok = src(f.node).find("when others") < src(f.node).find("end case;")
    run.ob(ok, "CaseWhen.write", file=m.rel, line=f.node.lineno, detail="others-before-end", expected="others branch precedes `end case;`", found="ok" if ok else "order changed")
    # the front end only builds a case statement from pairwise DISTINCT constant choices (a repeated pattern is legal
    # Python - the first one wins - but an illegal VHDL case): the eligibility test compares every choice with the ones seen
    gen = run.idx.mod("cohdl/_compiler/frontend/_generate_ir.py")
    cbs = [g for q, g in gen.functions.items() if q.endswith("try_gen_case_when.<locals>.check_branches")]
    if len(cbs) != 1:
        raise AnalysisError("anchor vanished: check_branches of try_gen_case_when")
    cb = cbs[0]
    loops = [l for l in walk_local(cb.node) if isinstance(l, ast.For) and isinstance(l.target, ast.Name)]
    lv = loops[0].target.id if loops else None
    dup = False
    for c in ast.walk(cb.node):
        if isinstance(c, ast.Compare) and len(c.ops) == 1 and isinstance(c.ops[0], ast.Eq) and lv in (dotted(c.left), dotted(c.comparators[0])) and dotted(c.left) != dotted(c.comparators[0]):
            guard = [anc for anc in gen.parents.ancestors(c) if isinstance(anc, ast.If)]
            if any(any(isinstance(r, ast.Return) and isinstance(r.value, ast.Constant) and r.value.value is False for r in ast.walk(g)) for g in guard):
                dup = True
    # the choices are collected in a map keyed by IDENTITY: one object used in two patterns (an enumerator) is a single
    # entry there, so the number of entries is compared with the number of branches as well
    mp = cb.node.args.args[0].arg if cb.node.args.args else None
    cnt = False
    for c in ast.walk(cb.node):
        if isinstance(c, ast.Compare) and len(c.ops) == 1 and isinstance(c.ops[0], (ast.NotEq, ast.Lt, ast.Eq)):
            sides = [c.left, c.comparators[0]]
            if any(isinstance(x, ast.Call) and dotted(x.func) == "len" and x.args and dotted(x.args[0]) == mp for x in sides) and all(isinstance(x, ast.Call) and dotted(x.func) == "len" for x in sides):
                g = [anc for anc in gen.parents.ancestors(c) if isinstance(anc, ast.If)]
                if isinstance(c.ops[0], ast.Eq) or any(any(isinstance(r, ast.Return) and isinstance(r.value, ast.Constant) and r.value.value is False for r in ast.walk(x)) for x in g):
                    cnt = True
    run.ob(cnt, "try_gen_case_when.check_branches", file=gen.rel, line=cb.node.lineno, detail="distinct-objects", expected="len(<identity map of choices>) is compared with the number of branches (the same object in two patterns is one map entry)",
           found="ok" if cnt else "never compared: `case St.A` twice is one entry of the identity map and is emitted as two identical `when A` choices")
    # the duplicate test compares choices of ONE type: every pattern value of a match statement is first converted to the
    # subject's type (a literal 3 and a named constant Unsigned[4](3) are the same choice), whatever kind of value it is
    prep = run.idx.mod("cohdl/_compiler/frontend/_prepare_ast.py")
    ai = prep.func("PrepareAst.apply_impl")
    norm = [c for c in ast.walk(ai.node) if isinstance(c, ast.Call) and dotted(c.func) == "_make_static_comparable" and len(c.args) == 2
            and any(isinstance(a, ast.If) and "ast.Match" in src(a.test) for a in prep.parents.ancestors(c))]
    if not norm:
        raise AnalysisError("apply_impl[ast.Match]: normalisation of the pattern value not found")
    for c in norm:
        pv = dotted(c.args[1])
        cond = [src(a.test)[:60] for a in prep.parents.ancestors(c) if isinstance(a, ast.If) and pv and pv in {n_.id for n_ in ast.walk(a.test) if isinstance(n_, ast.Name)}]
        run.ob(not cond, "apply_impl[ast.Match]", file=prep.rel, line=c.lineno, detail="patterns-normalised", expected=f"_make_static_comparable(subject, {pv}) for every pattern value",
               found="ok" if not cond else f"only if {cond}: choices of different types are never recognised as duplicates")
    run.ob(dup, "try_gen_case_when.check_branches", file=gen.rel, line=cb.node.lineno, detail="distinct-choices", expected="equal constant choices make the chain ineligible for a case statement (fall back to if/else)", found="ok" if dup else "choices are never compared: `case \"00\"` twice is emitted as two identical `when` choices")
    s = m.func("SelectWith.write")
    # abstract evaluation on the two-point domain default in {None, value}
    others_elems = [e for e in ast.walk(s.node) if isinstance(e, ast.ListComp) and "when others" in P.T(e.elt)]
    cond_none = bool(others_elems) and any("is not None" in P.T(i) for g in others_elems[0].generators for i in g.ifs)
    run.ob(not cond_none, "SelectWith.write", file=m.rel, line=s.node.lineno, detail="others[no-default]",
           expected="`when others` emitted (or the design rejected) when there is no default", found="no `when others` choice is emitted when _default is None" if cond_none else "ok")
    run.end()


def rule_sensitivity(run):
    run.begin(
        "C06.g",
        "unclocked processes: the sensitivity list is the set of roots of all signals read anywhere in the process "
        "(collected over all referenced objects, nothing filtered out); the header must not emit an empty list",
        floor=4,
    )
    a = run.idx.mod(ASM)
    ap = a.func("VhdlAssembler.apply")
    fr = a.func("VhdlAssembler.apply.<locals>.find_read_roots")
    top = [s for s in fr.node.body if isinstance(s, ast.If)]
    ok = len(top) == 1 and src(top[0].test) in ("access is ir.AccessFlags.READ and isinstance(obj, Signal)", "isinstance(obj, Signal) and access is ir.AccessFlags.READ")
    run.ob(ok, "VhdlAssembler.apply.find_read_roots", file=a.rel, line=fr.node.lineno, detail="admission", expected="READ access to a Signal", found="; ".join(src(s.test) for s in top))
    ok = bool(top) and any(dotted(c.func) == "read_roots.add" and P.T(c.args[0]) == "obj._root" for c in calls_in(top[0].body))
    run.ob(ok, "VhdlAssembler.apply.find_read_roots", file=a.rel, line=fr.node.lineno, detail="root", expected="read_roots.add(obj._root)", found="ok" if ok else "changed")
    # nothing is removed from read_roots and the list is built from the whole set
    muts = [c for c in ast.walk(ap.node) if isinstance(c, ast.Call) and isinstance(c.func, ast.Attribute) and dotted(c.func.value) == "read_roots" and c.func.attr not in ("add",)]
    rebinds = [x for x in ast.walk(ap.node) if isinstance(x, (ast.Assign, ast.AugAssign)) and any(dotted(t) == "read_roots" for t in (x.targets if isinstance(x, ast.Assign) else [x.target]))]
    filt = [x for x in ast.walk(ap.node) if isinstance(x, (ast.ListComp, ast.GeneratorExp, ast.SetComp)) and "read_roots" in P.T(x)]
    ok = not muts and len(rebinds) == 1 and not filt
    run.ob(ok, "VhdlAssembler.apply[Sequential]", file=a.rel, line=fr.node.lineno, detail="no-filtering",
           expected="read_roots only grows; no removal / filtering (a process reading what it writes must be sensitive to it)",
           found="ok" if ok else f"mutations {[src(m)[:40] for m in muts]} rebinds {len(rebinds)} filters {[src(x)[:40] for x in filt]}")
    mk = [c for c in ast.walk(ap.node) if isinstance(c, ast.Call) and dotted(c.func) == "_SensitivityList"]
    ok = len(mk) == 1 and dotted(mk[0].args[0]) == "read_roots"
    run.ob(ok, "VhdlAssembler.apply[Sequential]", file=a.rel, line=(mk[0].lineno if mk else ap.node.lineno), detail="list-from-set", expected="_SensitivityList(read_roots)", found=src(mk[0]) if mk else "missing")
    applied = any(isinstance(c.func, ast.Attribute) and c.func.attr == "visit_referenced_objects" and c.args and dotted(c.args[0]) == "find_read_roots" for c in calls_in(ap.node))
    run.ob(applied, "VhdlAssembler.apply[Sequential]", file=a.rel, line=ap.node.lineno, detail="all-referenced-objects", expected="inp.visit_referenced_objects(find_read_roots) (includes run-time indices)", found="ok" if applied else "changed")
    m = run.idx.mod(VH)
    h = m.func("Process._write_header")
    # two-point abstract evaluation of the header template: the list may be empty
    guarded = any(isinstance(x, (ast.Assert, ast.If)) and "signals" in P.T(x) and ("len(" in P.T(x) or "not " in P.T(x)) for x in walk_local(h.node))
    run.ob(guarded, "Process._write_header", file=m.rel, line=h.node.lineno, detail="non-empty-list",
           expected="an empty sensitivity list is never emitted as `process()`", found="ok" if guarded else "`process()` is emitted when the process reads no signal")
    run.end()


def rule_buffers(run):
    run.begin(
        "C06.h",
        "output ports are never read: every OUTPUT port gets a buffer signal that is assigned to the port, the port is "
        "aliased to the buffer, all sub-blocks and contexts are assembled under the alias scope, and the alias map "
        "belongs to the entity being assembled only",
        floor=7,
    )
    a = run.idx.mod(ASM)
    ap = a.func("VhdlAssembler.apply")
    br = None
    for s in ap.node.body:
        if isinstance(s, ast.If) and "ir.EntityTemplate" in P.T(s.test):
            br = s
    if br is None:
        raise AnalysisError("anchor vanished: EntityTemplate branch of VhdlAssembler.apply")
    t = P.T(br)
    sel = [x for x in ast.walk(br) if isinstance(x, ast.If) and "Port.Direction.OUTPUT" in P.T(x.test)]
    ok = len(sel) == 1 and (P.T(sel[0].test) == "port.direction() == Port.Direction.OUTPUT" or P.T(sel[0].test) == "port.direction() is Port.Direction.OUTPUT") and "output_ports.append(port)" in P.T(sel[0])
    run.ob(ok, "VhdlAssembler.apply[EntityTemplate]", file=a.rel, line=(sel[0].lineno if sel else br.lineno), detail="buffered-ports", expected="exactly the OUTPUT ports are buffered (inout ports stay connected directly)", found=src(sel[0].test) if sel else "selection changed")
    ok = "buffer_ports = output_ports" in t
    run.ob(ok, "VhdlAssembler.apply[EntityTemplate]", file=a.rel, line=br.lineno, detail="all-outputs", expected="buffer_ports = output_ports", found="ok" if ok else "changed")
    loop = [l for l in ast.walk(br) if isinstance(l, ast.For) and dotted(l.iter) == "buffer_ports"]
    if not loop:
        raise AnalysisError("buffer loop not found")
    lt = P.T(loop[0])
    # the scope objects, whatever the locals are called
    al = P.find(br, "__a = vhdl.AliasScope(__arch)")
    if len(al) != 1:
        raise AnalysisError("anchor vanished: alias scope construction `x = vhdl.AliasScope(arch_scope)`")
    alias_name, arch_name = al[0][1]["__a"], al[0][1]["__arch"]
    ok = P.has(br, "__arch = vhdl.ArchScope(___)", {"__arch": arch_name})
    run.ob(ok, "VhdlAssembler.apply[EntityTemplate]", file=a.rel, line=al[0][0].lineno, detail="alias-over-arch", expected="alias scope wraps the architecture scope", found="ok" if ok else "changed")
    pv = loop[0].target.id if isinstance(loop[0].target, ast.Name) else "port"
    for detail, needle in (("buffer-drives-port", f"vhdl.SignalAssignment(vhdl.Target({pv}), vhdl.Value(buffer))"), ("alias", f"{alias_name}.set_alias({pv}, buffer)"), ("declared", f"{arch_name}.declare(buffer)")):
        run.ob(needle in lt, "VhdlAssembler.apply[EntityTemplate]", file=a.rel, line=loop[0].lineno, detail=detail, expected=needle, found="ok" if needle in lt else "missing")
    # user supplied reserved names protect the names allocated for the BODY (architecture scope)
    rn = [c for c in ast.walk(br) if isinstance(c, ast.Call) and isinstance(c.func, ast.Attribute) and c.func.attr == "reserve_name"]
    ok = len(rn) == 1 and dotted(rn[0].func.value) == arch_name
    run.ob(ok, "VhdlAssembler.apply[EntityTemplate]", file=a.rel, line=(rn[0].lineno if rn else br.lineno), detail="reserved-names-scope", expected=f"{arch_name}.reserve_name(name) for every entry of the reserved_names attribute", found=src(rn[0])[:60] if rn else "missing")
    subs = [c for c in ast.walk(br) if isinstance(c, ast.Call) and dotted(c.func) == "self.apply" and any(k.arg is None for k in c.keywords)]
    n_alias = sum(1 for c in subs if f"'parent_scope': {alias_name}" in src(c))
    run.ob(len(subs) >= 2 and n_alias == len(subs), "VhdlAssembler.apply[EntityTemplate]", file=a.rel, line=br.lineno, detail="assembled-under-alias-scope",
           expected="every sub-block and context is assembled with parent_scope=alias_scope", found=f"{n_alias}/{len(subs)}")
    m = run.idx.mod(VH)
    init = m.func("AliasScope.__init__")
    st = [x for x in walk_ordered(init.node) if isinstance(x, ast.Assign)]
    cls_rebind = [x for x in st if dotted(x.targets[0]) == "self.__class__" and isinstance(x.value, ast.Call) and dotted(x.value.func) == "type"]
    map_store = [x for x in st if (dotted(x.targets[0]) or "").endswith("._alias_map_")]
    ok = bool(cls_rebind) and len(map_store) == 1 and dotted(map_store[0].targets[0]) == "self.__class__._alias_map_" and cls_rebind[0].lineno < map_store[0].lineno
    run.ob(ok, "AliasScope.__init__", file=m.rel, line=init.node.lineno, detail="private-alias-map",
           expected="self.__class__ = type(...) first, then self.__class__._alias_map_ = IdMap() (map private to this scope)",
           found="ok" if ok else "; ".join(src(x)[:60] for x in map_store) or "missing")
    for q in ("AliasScope.set_alias", "AliasScope.lookup_name"):
        f = m.func(q)
        refs = {dotted(x) for x in ast.walk(f.node) if isinstance(x, ast.Attribute) and x.attr == "_alias_map_"}
        ok = refs == {"self.__class__._alias_map_"}
        run.ob(ok, q, file=m.rel, line=f.node.lineno, detail="uses-private-map", expected="self.__class__._alias_map_", found=str(sorted(refs)))
    lk = m.func("AliasScope.lookup_name")
    ok = "super().lookup_name(obj)" in P.T(lk.node) and "obj = self.__class__._alias_map_[obj]" in P.T(lk.node)
    run.ob(ok, "AliasScope.lookup_name", file=m.rel, line=lk.node.lineno, detail="redirects", expected="aliased objects are looked up by their replacement", found="ok" if ok else "changed")
    run.end()


def rule_castmatrix(run):
    from . import c05
    c05.rule_back(run)


def rule_concat_cast(run):
    from . import c02
    c02.rule_casts(run)


def rule_visit_unconditional(run):
    from ..rules import roles as _roles
    _roles.run_unconditional_rule(run, "F-VISIT")


def rule_shadow(run):
    from ..rules import shadow
    shadow.run_rule(run, "F-SHADOW")


def rule_hint_position(run):
    run.begin(
        "C06.i",
        "format_cast(target, value, text): wherever a writer receives a target hint, the hint is the FIRST argument of "
        "format_cast and the written object the second; case/select choices are written as vhdl.Constant of the choice",
        floor=3,
    )
    vh = run.idx.mod(VH)
    n = 0
    for q, f in vh.functions.items():
        params = [a.arg for a in f.node.args.args]
        hints = {p for p in params if "hint" in p}
        if not hints:
            continue
        for c in calls_in(f.node):
            if isinstance(c.func, ast.Attribute) and c.func.attr == "format_cast" and len(c.args) == 3:
                pos = [i for i, a in enumerate(c.args) if any(isinstance(x, ast.Name) and (x.id in hints or "hint" in x.id) for x in ast.walk(a))]
                n += 1
                run.ob(pos in ([0], []), q, file=vh.rel, line=c.lineno, detail="hint-first", expected="format_cast(<hint>, <object>, <text>)", found=src(c)[:80])
    if n < 3:
        raise AnalysisError(f"format_cast call sites with a target hint not recognised ({n})")
    asm = run.idx.mod(ASM)
    ap = asm.func("_StmtAssembler.apply")
    lit = [c for c in ast.walk(ap.node) if isinstance(c, ast.Call) and dotted(c.func) == "vhdl.Literal"]
    run.ob(not lit, "_StmtAssembler.apply", file=asm.rel, line=(lit[0].lineno if lit else ap.node.lineno), detail="choices-are-constants", expected="choices / constant operands are wrapped in vhdl.Constant", found="ok" if not lit else f"{len(lit)} vhdl.Literal wrapper(s)")
    run.end()


def rule_sensitivity_merge(run):
    run.begin(
        "C06.j",
        "explicit sensitivity declarations accumulate: after sensitivity.list(a) and sensitivity.list(b) the process is "
        "sensitive to a AND b; `all` absorbs lists (abstract evaluation of PrepareAst.add_sensitivity)",
        floor=4,
    )
    from ..absint import Interp, Reject
    prep = run.idx.mod("cohdl/_compiler/frontend/_prepare_ast.py")
    f = prep.func("PrepareAst.add_sensitivity")

    class _SensitivityList:
        def __init__(self, signals):
            self.signals = list(signals)

    class _SensitivityAll:
        pass

    class _Self:
        def __init__(self):
            self._parent, self._sensitivity = None, None

    prims = {"isinstance": lambda v, t: isinstance(v, t if isinstance(t, (type, tuple)) else ()), "_SensitivityList": _SensitivityList, "_SensitivityAll": _SensitivityAll,
             "__setattr__": lambda o, k, v: setattr(o, k, v)}

    class _Sig:
        """a signal: `==` is the overloaded HDL comparison of trace-time values (two inputs that are both 'U' compare
        equal) - only identity tells signals apart"""

        def __init__(self, name):
            self.name = name

        def __eq__(self, other):
            return True

        __hash__ = object.__hash__

    def run_seq(seq):
        so = _Self()
        for x in seq:
            arg = _SensitivityAll() if x == "all" else _SensitivityList([_Sig(n_) for n_ in x])
            Interp(prep, dict(prims)).call_function("PrepareAst.add_sensitivity", so, arg)
        r = so._sensitivity
        return "all" if isinstance(r, _SensitivityAll) else ([s_.name for s_ in r.signals] if isinstance(r, _SensitivityList) else r)
    for seq, exp in (((["a"], ["b"]), ["a", "b"]), ((["a", "b"], ["c"], ["d"]), ["a", "b", "c", "d"]), ((["a"], "all"), "all"), (("all", ["a"]), "all"), ((["a"],), ["a"])):
        try:
            got = run_seq(seq)
        except Reject as e:
            got = f"rejected: {e}"
        run.ob(got == exp, "PrepareAst.add_sensitivity", file=prep.rel, line=f.node.lineno, detail=str(list(seq)), expected=str(exp), found=str(got))
    run.end()


def rule_interface_names(run):
    from . import c12
    c12.rule_interface(run)      # the entity declares each port under the name every port map and the body use


def rule_refspec(run):
    from . import c08
    c08.rule_refspec_reads(run)  # replaced index objects are stored back (otherwise a process variable is used at architecture level)


def rule_lexical(run):
    run.begin(
        "C06.k",
        "Python strings copied into the VHDL text are made safe for their lexical context: text emitted behind `--` is "
        "emitted line by line (a line break would end the comment and turn the rest into code); text emitted between "
        "quotation marks has its quotation marks doubled and contains no line break (or is the str() of a bit vector, "
        "which consists of bit characters only); select_with choices are compared with each other before a selected "
        "assignment is built",
        floor=4,
    )
    n = 0
    for rel in (VH, ASM):
        m = run.idx.mod(rel)
        for js in ast.walk(m.tree):
            if not isinstance(js, ast.JoinedStr):
                continue
            vals = js.values
            for i, v in enumerate(vals):
                if not isinstance(v, ast.FormattedValue):
                    continue
                prev = vals[i - 1].value if i and isinstance(vals[i - 1], ast.Constant) and isinstance(vals[i - 1].value, str) else ""
                nxt = vals[i + 1].value if i + 1 < len(vals) and isinstance(vals[i + 1], ast.Constant) and isinstance(vals[i + 1].value, str) else ""
                first = vals[0].value if isinstance(vals[0], ast.Constant) and isinstance(vals[0].value, str) else ""
                fn = next((a for a in m.parents.ancestors(js) if isinstance(a, (ast.FunctionDef, ast.AsyncFunctionDef))), None)
                where = next((q for q, f in m.functions.items() if f.node is fn), "?")
                if first.lstrip().startswith("--") and isinstance(v.value, ast.Name):
                    # free text in a comment: the variable must range over the pieces of a line split
                    comps = [c for c in m.parents.ancestors(js) if isinstance(c, (ast.ListComp, ast.GeneratorExp, ast.For))]
                    src_it = None
                    for c in comps:
                        gens = c.generators if not isinstance(c, ast.For) else [c]
                        for g in gens:
                            if isinstance(g.target, ast.Name) and g.target.id == v.value.id:
                                src_it = g.iter
                    if src_it is None:
                        continue  # not a loop variable (a fixed label)
                    n += 1
                    ok = any(isinstance(c, ast.Call) and isinstance(c.func, ast.Attribute) and c.func.attr in ("splitlines", "split") for c in ast.walk(src_it))
                    run.ob(ok, where, file=rel, line=js.lineno, detail=f"comment-text:{v.value.id}", expected="the text is split at line breaks, every piece gets its own `--`",
                           found="ok" if ok else f"`{src(js)}` for {v.value.id} in `{src(src_it)[:50]}`: a line break in the text ends the comment, the rest is emitted as code")
                elif prev.endswith('"') and nxt.startswith('"'):
                    n += 1
                    var = v.value.id if isinstance(v.value, ast.Name) else None
                    safe = None
                    # (a) pieces of a text whose quotation marks were doubled and which was split at line breaks
                    for c in m.parents.ancestors(js):
                        if isinstance(c, (ast.ListComp, ast.GeneratorExp)):
                            for g in c.generators:
                                if isinstance(g.target, ast.Name) and g.target.id == var:
                                    t = src(g.iter)
                                    dbl = any(isinstance(k, ast.Call) and isinstance(k.func, ast.Attribute) and k.func.attr == "replace" and len(k.args) == 2
                                              and isinstance(k.args[0], ast.Constant) and k.args[0].value == '"' and isinstance(k.args[1], ast.Constant) and k.args[1].value == '""' for k in ast.walk(g.iter))
                                    spl = any(isinstance(k, ast.Call) and isinstance(k.func, ast.Attribute) and k.func.attr in ("split", "splitlines") for k in ast.walk(g.iter))
                                    safe = "escaped" if dbl and spl else f"unescaped pieces of `{t[:50]}`"
                    # (b) str() of a bit vector
                    if safe is None and var:
                        for c in m.parents.ancestors(js):
                            if isinstance(c, ast.If) and any(_contains_node(x, js) for x in c.body):
                                for k in ast.walk(c.test):
                                    if isinstance(k, ast.Call) and dotted(k.func) == "isinstance" and dotted(k.args[0]) == var and dotted(k.args[1]) in ("BitVector", "Unsigned", "Signed"):
                                        safe = "escaped"
                    # (c) a computed bit string: "0" * width
                    if safe is None and var and fn is not None:
                        asg = [a for a in walk_local(fn) if isinstance(a, ast.Assign) and any(dotted(t) == var for t in a.targets)]
                        if asg and all(isinstance(a.value, ast.BinOp) and isinstance(a.value.op, ast.Mult) and isinstance(a.value.left, ast.Constant) and isinstance(a.value.left.value, str)
                                       and set(a.value.left.value) <= set("01UXZWLH-") for a in asg):
                            safe = "escaped"
                    ok = safe == "escaped"
                    run.ob(ok, where, file=rel, line=js.lineno, detail=f"string-literal:{src(v.value)[:30]}", expected="quotation marks doubled and no line break (or a bit string)",
                           found="ok" if ok else f"`{src(js)}`: {safe or 'the text is copied between the quotation marks as it is'} - a `\"` or a line break in it gives an invalid string literal")
    if n < 3:
        raise AnalysisError("C06.k: comment / string-literal emission sites not recognised")
    # the escaping helper is what the free-text sites use
    m = run.idx.mod(VH)
    for q in ("Assert.write",):
        f = m.func(q)
        msg = [j for j in ast.walk(f.node) if isinstance(j, ast.JoinedStr) and any(isinstance(v, ast.FormattedValue) and "_message" in src(v.value) for v in j.values)]
        for j in msg:
            v = [v for v in j.values if isinstance(v, ast.FormattedValue) and "_message" in src(v.value)][0]
            ok = isinstance(v.value, ast.Call) and isinstance(v.value.func, ast.Name) and m.has_func(v.value.func.id)
            run.ob(ok, q, file=m.rel, line=j.lineno, detail="message", expected="the message goes through the string-literal helper", found=src(v.value)[:60])
    # select_with: distinct choices
    prep = run.idx.mod("cohdl/_compiler/frontend/_prepare_ast.py")
    ci = prep.func("PrepareAst.convert_intrinsic")
    brs = [s_ for s_ in ast.walk(ci.node) if isinstance(s_, ast.If) and isinstance(s_.test, ast.Call) and dotted(s_.test.func) == "isinstance" and len(s_.test.args) == 2 and (dotted(s_.test.args[1]) or "").split(".")[-1] == "_SelectWith"]
    if len(brs) != 1:
        raise AnalysisError("convert_intrinsic: branch for _SelectWith not found")
    br = brs[0]
    loopvars = set()
    for x in ast.walk(br):
        if isinstance(x, (ast.For, ast.comprehension)):
            loopvars.update(nm.id for nm in ast.walk(x.target) if isinstance(nm, ast.Name))
    ok = False
    for a in ast.walk(br):
        if isinstance(a, (ast.Assert, ast.If)):
            for c in ast.walk(a.test):
                if isinstance(c, ast.Compare) and len(c.ops) == 1 and isinstance(c.ops[0], (ast.Eq, ast.NotEq, ast.In, ast.NotIn)):
                    l, r = dotted(c.left), dotted(c.comparators[0])
                    if l in loopvars and r and r.split(".")[0] in loopvars | {"branches"} and l != r:
                        ok = True
    run.ob(ok, "PrepareAst.convert_intrinsic[_SelectWith]", file=prep.rel, line=br.lineno, detail="distinct-choices", expected="the converted choices are compared pairwise; equal choices are rejected",
           found="ok" if ok else "choices are never compared: two dictionary keys that denote the same value are emitted as two identical `when` choices")
    run.end()


def _contains_node(root, node):
    return any(x is node for x in ast.walk(root))


def rule_visit_stateless(run):
    from ..rules import roles as _r
    _r.run_memo_rule(run, "F-VISIT.memo")   # every traversal (driver check, sensitivity, definite assignment) sees the whole statement


def rule_port_widths(run):
    from . import c12
    c12.rule_port_widths(run)    # port associations have matching widths
    c12.rule_empty_interface(run)   # no empty interface list, every instantiation statement is terminated
    c12.rule_unit_names(run)        # no two design units with one (case-insensitive) name: VHDL identifiers are case-insensitive


def rule_slice_direction(run):
    """All objects are declared `downto`; a slice whose bounds are equal (one element) must therefore be written
    `(k downto k)` - `(k to k)` has the wrong direction and is rejected by VHDL analysers."""
    run.begin("C06.l", "a constant slice is emitted with the declared direction: start >= stop (including the one-element slice) is `downto`", floor=1)
    vh = run.idx.mod("cohdl/_compiler/backend/vhdl/_vhdl_repr.py")
    f = vh.func("VhdlScope._format_ref")
    n = 0
    for node in ast.walk(f.node):
        tests = []
        if isinstance(node, (ast.If, ast.IfExp)):
            body = node.body if isinstance(node.body, list) else [node.body]
            orelse = node.orelse if isinstance(node.orelse, list) else [node.orelse]
            tb, te = " ".join(src(x) for x in body), " ".join(src(x) for x in orelse)
            if "downto" in tb + te and isinstance(node.test, ast.Compare) and len(node.test.ops) == 1:
                l, r_ = src(node.test.left), src(node.test.comparators[0])
                if not (l.endswith(".start") or l.endswith(".stop")):
                    continue
                op = type(node.test.ops[0]).__name__
                down_in_body = "downto" in tb
                # which branch does start == stop take?
                eq_true = op in ("GtE", "LtE", "Eq")
                eq_branch_down = down_in_body if eq_true else ("downto" in te)
                n += 1
                run.ob(eq_branch_down, "VhdlScope._format_ref", file=vh.rel, line=node.lineno, detail="one-element-slice",
                       expected="start == stop is emitted as `downto`", found=f"`{src(node.test)}` sends start == stop to the `to` branch" if not eq_branch_down else "ok")
    if n == 0:
        raise AnalysisError("anchor vanished: direction choice of constant slices in VhdlScope._format_ref")
    run.end()


RULES = [rule_reserved, rule_vocabulary, rule_names, rule_templates, rule_choices, rule_sensitivity, rule_buffers, rule_castmatrix, rule_concat_cast, rule_visit_unconditional, rule_shadow, rule_hint_position, rule_sensitivity_merge, rule_interface_names, rule_refspec, rule_lexical, rule_visit_stateless, rule_port_widths, rule_slice_direction]
LEVEL = "other"
EXPLANATION = (
    "Legality clauses that are properties of the back end's own tables and templates, decided for all designs: the "
    "reserved-word table against IEEE 1076-2008; the emitted vocabulary (tokenised constant parts of all templates) "
    "against the reserved names; case-insensitive name allocation; balanced expression templates; others branches; "
    "sensitivity inference; output-port buffering with a private alias map; the cast matrix. Known findings are "
    "listed in known_findings.json. NOT decided: full type-correctness of every emitted expression, raw user names "
    "that bypass the allocator (entity/port/enumerator names), double underscores."
)
ASSUMPTIONS = [
    "IEEE 1076-2008 reserved word list frozen in sa/tables/vhdl2008_reserved.txt",
    "VHDL identifiers are case-insensitive; predefined names can be hidden by a homograph declared in an enclosing region",
]
