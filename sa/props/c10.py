"""C10 - the compile-time Python subset evaluates exactly like CPython.

Decided:
  C10.a  operator -> dunder tables of the tracer (BinOp 13 rows, Compare 6 rows with swapped reflected names,
         UnaryOp, aug-assign) equal the Python data model
  C10.b  dispatch protocol: forward then reflected with swapped operands, NotImplemented fallback, fail closed
         (subclass priority / same-type rule -> known finding)
  C10.cmp chained comparisons compare adjacent operands and fold constants like `and`
  C10.bool and/or folding
  C10.c  unsupported constructs are rejected (fail-closed tails), match patterns that cannot be translated are rejected
  C10.bind argument binding rejects what CPython rejects (duplicate values, surplus arguments) in CPython's order
  C10.env closure capture resolves free names nonlocal -> global -> builtins
  C10.builtins min/max replacements follow the builtin's one-argument rule
  C10.e  With/AsyncWith, ListComp/DictComp sibling handlers agree
"""

from __future__ import annotations

import ast
import copy

from ..astutil import AnalysisError, dotted, src, walk_local, walk_ordered, calls_in, norm, ends_in_raise, fail_closed
from .. import pattern as P
from ..rules import optable as ot

PREP = "cohdl/_compiler/frontend/_prepare_ast.py"
CAS = "cohdl/_core/_collect_ast_and_scope.py"
IDEF = "cohdl/_core/_intrinsic_definitions.py"


def _branch(fn_node, cls: str):
    return ot.find_branch(fn_node, lambda t: isinstance(t, ast.Call) and dotted(t.func) == "isinstance" and dotted(t.args[0]) == "inp" and dotted(t.args[1]) == cls)


def _op_table(body, var="op", call="overloaded_operator"):
    """rows of `if isinstance(<var>, ast.X): return <call>("a", "b")` -> {X: [args]}"""
    rows = {}
    for s in body:
        node = s
        while isinstance(node, ast.If):
            t = node.test
            if isinstance(t, ast.Call) and dotted(t.func) == "isinstance" and dotted(t.args[0]) == var and (dotted(t.args[1]) or "").startswith("ast."):
                opn = dotted(t.args[1]).split(".")[1]
                for r in node.body:
                    if isinstance(r, ast.Return) and isinstance(r.value, ast.Call) and dotted(r.value.func) == call:
                        rows[opn] = [a.value for a in r.value.args if isinstance(a, ast.Constant)]
            node = node.orelse[0] if len(node.orelse) == 1 and isinstance(node.orelse[0], ast.If) else None
    return rows


def rule_tables(run):
    run.begin(
        "C10.a",
        "operator tables of the tracer equal the Python data model: ast.BinOp -> (forward, reflected) dunder for all 13 "
        "operators, ast.Compare -> (forward, swapped reflected) for the 6 rich comparisons, ast.UnaryOp, aug-assign",
        floor=24,
    )
    orc = ot.oracle()["python_ast"]
    prep = run.idx.mod(PREP)
    ai = prep.func("PrepareAst.apply_impl")
    b = _branch(ai.node, "ast.BinOp")
    if b is None:
        raise AnalysisError("anchor vanished: ast.BinOp handler")
    rows = _op_table(b.body)
    for opn, exp in orc["binop"].items():
        got = rows.get(opn)
        run.ob(got == exp, "apply_impl[ast.BinOp]", file=prep.rel, line=b.lineno, detail=opn, expected=str(exp), found=str(got) if got else "operator not handled (rejected)" if got is None else str(got))
    for opn in rows:
        if opn not in orc["binop"]:
            run.ob(False, "apply_impl[ast.BinOp]", file=prep.rel, line=b.lineno, detail=opn, expected="a Python binary operator", found="unknown operator row")
    c = _branch(ai.node, "ast.Compare")
    sc = prep.func("PrepareAst.apply_impl.<locals>.single_compare")
    rows = _op_table(sc.node.body, var="operator", call="evaluate")
    for opn, exp in orc["compare"].items():
        got = rows.get(opn)
        run.ob(got == exp, "apply_impl[ast.Compare]", file=prep.rel, line=sc.node.lineno, detail=opn, expected=f"{exp} (reflected comparison swaps the operator)", found=str(got))
    u = _branch(ai.node, "ast.UnaryOp")
    rows = _op_table(u.body)
    for opn, exp in orc["unary"].items():
        if exp is None:
            continue
        got = (rows.get(opn) or [None])[0]
        run.ob(got == exp, "apply_impl[ast.UnaryOp]", file=prep.rel, line=u.lineno, detail=opn, expected=exp, found=str(got))
    run.end()


def rule_dispatch(run):
    run.begin(
        "C10.b",
        "operator dispatch: forward method of the left operand's type with (lhs, rhs); on NotImplemented (or missing) the "
        "reflected method of the right operand's type with (rhs, lhs); both NotImplemented -> rejected; the data model's "
        "subclass-priority and same-type clauses",
        floor=8,
    )
    prep = run.idx.mod(PREP)
    f = None
    for q, g in prep.functions.items():
        if q.endswith("apply_impl.<locals>.overloaded_operator") and len(g.node.args.args) == 2:
            f = g
    if f is None:
        raise AnalysisError("anchor vanished: binary overloaded_operator")
    calls = [c for c in walk_ordered(f.node) if isinstance(c, ast.Call) and dotted(c.func) == "self.subcall"]
    if len(calls) != 2:
        raise AnalysisError("binary dispatch: expected a forward and a reflected subcall")
    fw, rv = calls
    ok = "type_lhs, default_op" in P.T(fw.args[0]) and P.T(fw.args[1]) == "[val_lhs, val_rhs]"
    run.ob(ok, "apply_impl[ast.BinOp].overloaded_operator", file=prep.rel, line=fw.lineno, detail="forward", expected="getattr(type_lhs, default_op)(val_lhs, val_rhs)", found=src(fw)[:90])
    ok = "type_rhs, reverse_op" in P.T(rv.args[0]) and P.T(rv.args[1]) == "[val_rhs, val_lhs]"
    run.ob(ok, "apply_impl[ast.BinOp].overloaded_operator", file=prep.rel, line=rv.lineno, detail="reflected", expected="getattr(type_rhs, reverse_op)(val_rhs, val_lhs)", found=src(rv)[:90])
    ok = any(isinstance(s, ast.If) and "is not NotImplemented" in P.T(s.test) and any(isinstance(r, ast.Return) for r in s.body) for s in ast.walk(f.node))
    run.ob(ok, "apply_impl[ast.BinOp].overloaded_operator", file=prep.rel, line=f.node.lineno, detail="fallback", expected="forward result returned unless it is NotImplemented", found="ok" if ok else "changed")
    ok = any(isinstance(a, ast.Assert) and "is not NotImplemented" in P.T(a.test) for a in ast.walk(f.node))
    run.ob(ok, "apply_impl[ast.BinOp].overloaded_operator", file=prep.rel, line=f.node.lineno, detail="both-notimplemented", expected="rejected", found="ok" if ok else "missing")
    ok = fw.lineno < rv.lineno
    run.ob(ok, "apply_impl[ast.BinOp].overloaded_operator", file=prep.rel, line=f.node.lineno, detail="order", expected="forward before reflected", found="ok" if ok else "swapped")
    pri = any("issubclass(type_rhs, type_lhs)" in P.T(x) or "issubclass(type_rhs" in P.T(x) for x in ast.walk(f.node) if isinstance(x, (ast.If, ast.IfExp)))
    run.ob(pri, "apply_impl[ast.BinOp].overloaded_operator", file=prep.rel, line=f.node.lineno, detail="subclass-priority",
           expected="reflected method first when type(rhs) is a proper subclass of type(lhs); no reflected attempt for operands of the same type",
           found="ok" if pri else "no test on the operand types precedes the forward call")
    ev = prep.func("PrepareAst.apply_impl.<locals>.single_compare.<locals>.evaluate")
    calls = [c for c in walk_ordered(ev.node) if isinstance(c, ast.Call) and dotted(c.func) == "self.subcall"]
    ok = len(calls) == 2 and P.T(calls[0].args[1]) == "[val_lhs, val_rhs]" and "type_lhs, normal_name" in P.T(calls[0].args[0]) and P.T(calls[1].args[1]) == "[val_rhs, val_lhs]" and "type_rhs, reverse_name" in P.T(calls[1].args[0])
    run.ob(ok, "apply_impl[ast.Compare].evaluate", file=prep.rel, line=ev.node.lineno, detail="forward/reflected", expected="type_lhs.normal(lhs, rhs) then type_rhs.reverse(rhs, lhs)", found="ok" if ok else "changed")
    ok = any(isinstance(a, ast.Assert) and "is not NotImplemented" in P.T(a.test) for a in ast.walk(ev.node))
    run.ob(ok, "apply_impl[ast.Compare].evaluate", file=prep.rel, line=ev.node.lineno, detail="both-notimplemented", expected="rejected", found="ok" if ok else "missing")
    run.end()


def rule_compare_chain(run):
    run.begin(
        "C10.cmp",
        "chained comparison `a op1 b op2 c`: adjacent operands are compared pairwise; a constant false link makes the "
        "chain False, all-constant-true makes it True; later links never re-evaluate an operand",
        floor=5,
    )
    prep = run.idx.mod(PREP)
    ai = prep.func("PrepareAst.apply_impl")
    c = _branch(ai.node, "ast.Compare")
    loops = [l for l in c.body if isinstance(l, ast.For)]
    if not loops:
        raise AnalysisError("chain loop of the Compare handler not found")
    l = loops[0]
    ok = P.T(l.iter) == "zip(inp.ops, comparators, comparators[1:])"
    run.ob(ok, "apply_impl[ast.Compare]", file=prep.rel, line=l.lineno, detail="adjacent-pairs", expected="zip(inp.ops, comparators, comparators[1:])", found=src(l.iter))
    tv = [t.id for t in l.target.elts] if isinstance(l.target, ast.Tuple) else []
    sc = [x for x in ast.walk(l) if isinstance(x, ast.Call) and dotted(x.func) == "single_compare"]
    ok = len(sc) == 1 and [dotted(a) for a in sc[0].args] == tv
    run.ob(ok, "apply_impl[ast.Compare]", file=prep.rel, line=l.lineno, detail="link-operands", expected=f"single_compare({', '.join(tv)}) with the loop's own pair", found=src(sc[0]) if sc else "missing")
    # lhs may only be rebound to a wrapper of itself (re-use of the already evaluated operand)
    rebinds = [a for a in ast.walk(l) if isinstance(a, ast.Assign) and any(dotted(t) in tv[1:] for t in a.targets)]
    ok = all(P.T(a) == f"{tv[1]} = out.Value({tv[1]}.result(), [])" for a in rebinds)
    run.ob(ok, "apply_impl[ast.Compare]", file=prep.rel, line=l.lineno, detail="operand-not-replaced", expected="an operand is only re-wrapped (out.Value(lhs.result(), [])), never replaced by another operand", found="; ".join(src(a) for a in rebinds) or "none")
    rets = [r for r in walk_ordered(l) if isinstance(r, ast.Return)]
    ok = len(rets) == 1 and src(rets[0].value).startswith("out.Value(False")
    g = [x for x in ast.walk(l) if isinstance(x, ast.If) and rets and any(r is rets[0] for r in ast.walk(x))]
    ok = ok and any(P.T(x.test) == "not bool(result)" or P.T(x.test) == "not result" for x in g)
    run.ob(ok, "apply_impl[ast.Compare]", file=prep.rel, line=l.lineno, detail="constant-false-link", expected="return out.Value(False, ..) as soon as a constant link is false", found="ok" if ok else "changed")
    after = c.body[c.body.index(l) + 1:]
    ok = False
    for _n, b in P.find(after, "out.All([__c.result() for __c in __s], __s)"):
        for st in after:
            if isinstance(st, ast.If) and src(st.test) == f"len({b['__s']}) == 0" and isinstance(st.body[0], ast.Return) and src(st.body[0].value).startswith("out.Value(True"):
                ok = True
    run.ob(ok, "apply_impl[ast.Compare]", file=prep.rel, line=l.lineno, detail="combine", expected="no run-time link -> True; otherwise the conjunction of all run-time links", found="ok" if ok else "changed")
    run.end()


def rule_boolop(run):
    run.begin(
        "C10.bool",
        "and/or over every mix of constants and run-time values (up to 3 operands, thorough 4): `and` is False iff some "
        "constant operand is falsy, `or` is True iff some constant operand is truthy, otherwise the conjunction / "
        "disjunction of exactly the run-time operands (the neutral element when there is none); operands are evaluated "
        "left to right and - like in CPython - not at all once a constant operand has decided the result "
        "(abstract evaluation of the ast.BoolOp handler)",
        floor=50,
    )
    import itertools
    from ..absint import Interp, Reject, Env, _Return

    prep = run.idx.mod(PREP)
    ai = prep.func("PrepareAst.apply_impl")
    b = _branch(ai.node, "ast.BoolOp")
    if b is None:
        raise AnalysisError("anchor vanished: ast.BoolOp handler")

    class _RT:
        def __init__(self, n):
            self.n = n

    class _Operand:
        def __init__(self, name, value):
            self.name, self.value = name, value

    class _Expr:
        def __init__(self, v):
            self.v = v

        def result(self):
            return self.v

    class _Node:
        def __init__(self, kind, *a):
            self.kind, self.a = kind, a

    class _Out:
        Expression = _Expr
        Value = lambda self, *a: _Node("Value", *a)
        All = lambda self, *a: _Node("All", *a)
        Any = lambda self, *a: _Node("Any", *a)

    class _And:
        pass

    class _Or:
        pass

    class _Ast:
        And, Or, BoolOp = _And, _Or, object

    class _Ev:
        pass

    class _Inp:
        pass

    for opname, opcls in (("and", _And), ("or", _Or)):
        for n in range(1, run.bound(4, 5)):
            for combo in itertools.product("TFR", repeat=n):
                applied = []

                class _Self:
                    def apply(self_, val):
                        applied.append(val.name)
                        return _Expr(val.value)

                    def convert_boolean(self_, v, bound=None):
                        return _Expr(v)

                inp = _Inp()
                inp.values = [_Operand(i, True if k == "T" else False if k == "F" else _RT(i)) for i, k in enumerate(combo)]
                inp.op = opcls()
                decide = "F" if opname == "and" else "T"
                first = combo.index(decide) if decide in combo else None
                exp_applied = list(range(n if first is None else first + 1))
                seen = combo if first is None else combo[:first + 1]
                rt = tuple(i for i, k in enumerate(seen) if k == "R")
                if first is not None:
                    exp = ("Value", opname == "or")
                elif not rt:
                    exp = ("Value", opname == "and")
                else:
                    exp = ("All" if opname == "and" else "Any", rt)
                prims = {"isinstance": lambda v, t: isinstance(v, t) if isinstance(t, (type, tuple)) else False, "ast": _Ast(), "out": _Out(), "cast": lambda t, x: x, "str": str, "bool": bool,
                         "all": all, "any": any, "len": len, "_BitSignalEvent": _Ev, "_BitSignalEventGroup": _Ev}
                env = Env()
                env.vars["self"] = _Self()
                env.vars["inp"] = inp
                try:
                    Interp(prep, prims).run(b.body, env)
                    got = ("fell through",)
                except _Return as r:
                    v = r.value
                    if isinstance(v, _Node) and v.kind == "Value":
                        got = ("Value", v.a[0])
                    elif isinstance(v, _Node):
                        got = (v.kind, tuple(x.n if isinstance(x, _RT) else repr(x) for x in v.a[0]))
                    else:
                        got = (repr(v),)
                except Reject as e:
                    got = ("rejected", str(e))
                ok = got == exp and applied == exp_applied
                run.ob(ok, f"apply_impl[ast.BoolOp].{opname}", file=prep.rel, line=b.lineno, detail="".join(combo), expected=f"{exp}, operands evaluated: {exp_applied}", found=f"{got}, operands evaluated: {applied}"[:120],
                       sample=(opname, combo) == ("and", ("F", "R")))
    run.end()


def rule_fail_closed(run):
    run.begin(
        "C10.c",
        "unsupported constructs are rejected, never dropped: the dispatch functions of the tracer end in an "
        "unconditional raise; match patterns that cannot be translated (guards, `pattern as name`, other kinds) are rejected",
        floor=8,
    )
    prep = run.idx.mod(PREP)
    for q in ("PrepareAst.apply_impl", "PrepareAst.convert_intrinsic"):
        f = prep.func(q)
        ok = ends_in_raise(f.node.body)
        run.ob(ok, q, file=prep.rel, line=f.node.lineno, detail="fail-closed", expected="ends in an unconditional raise", found="raise" if ok else "falls off the end (returns None)")
    ai = prep.func("PrepareAst.apply_impl")
    for cls in ("ast.BinOp", "ast.UnaryOp", "ast.BoolOp"):
        b = _branch(ai.node, cls)
        ok = b is not None and ends_in_raise(b.body)
        run.ob(ok, f"apply_impl[{cls}]", file=prep.rel, line=(b.lineno if b else 0), detail="fail-closed", expected="unknown operator raises", found="raise" if ok else "falls through")
    sc = prep.func("PrepareAst.apply_impl.<locals>.single_compare")
    ok = fail_closed(sc.node.body)
    run.ob(ok, "apply_impl[ast.Compare].single_compare", file=prep.rel, line=sc.node.lineno, detail="fail-closed", expected="unknown comparison operator raises", found="raise" if ok else "falls through")
    m = _branch(ai.node, "ast.Match")
    if m is None:
        raise AnalysisError("anchor vanished: ast.Match handler")
    loop = [l for l in m.body if isinstance(l, ast.For) and dotted(l.iter) == "inp.cases"]
    if not loop:
        raise AnalysisError("case loop of the Match handler not found")
    cvar = loop[0].target.id
    asserts = [a for a in loop[0].body if isinstance(a, ast.Assert)]
    ok = any(P.T(a.test) == f"{cvar}.guard is None" for a in asserts)
    run.ob(ok, "apply_impl[ast.Match]", file=prep.rel, line=loop[0].lineno, detail="guard-rejected", expected=f"assert {cvar}.guard is None (a guard is never silently ignored)", found="ok" if ok else "guards are ignored")
    mas = [s for s in loop[0].body if isinstance(s, ast.If) and P.T(s.test) == f"isinstance({cvar}.pattern, ast.MatchAs)"]
    ok = bool(mas) and any(isinstance(a, ast.Assert) and P.T(a.test) == f"{cvar}.pattern.pattern is None" for a in mas[0].body)
    run.ob(ok, "apply_impl[ast.Match]", file=prep.rel, line=(mas[0].lineno if mas else loop[0].lineno), detail="as-pattern-rejected",
           expected="`<pattern> as <name>` is rejected; only the bare wildcard/capture is the default branch", found="ok" if ok else "every MatchAs is treated as the wildcard")
    chain_last = [s for s in loop[0].body if isinstance(s, ast.If)][-1]
    ok = bool(chain_last.orelse) and isinstance(chain_last.orelse[-1], ast.Raise)
    run.ob(ok, "apply_impl[ast.Match]", file=prep.rel, line=chain_last.lineno, detail="other-patterns-rejected", expected="unsupported pattern kinds raise", found="raise" if ok else "falls through")
    ok = any(isinstance(a, ast.Assert) and "default_body is None" in P.T(a.test) for a in asserts)
    run.ob(ok, "apply_impl[ast.Match]", file=prep.rel, line=loop[0].lineno, detail="default-last", expected="cases after the default are rejected", found="ok" if ok else "missing")
    cas = run.idx.mod(CAS)
    cd = cas.func("_ClassifyNames.visit_ClassDef")
    ok = ends_in_raise(cd.node.body)
    run.ob(ok, "_ClassifyNames.visit_ClassDef", file=cas.rel, line=cd.node.lineno, detail="class-definitions-rejected", expected="raise", found="raise" if ok else "accepted")
    run.end()


def rule_bind(run):
    run.begin(
        "C10.bind",
        "argument binding: parameters are filled in CPython's order (positional-only, positional-or-keyword, *args, "
        "keyword-only, **kwargs); a parameter given positionally AND by keyword is rejected unconditionally; surplus "
        "positional / keyword arguments are rejected when there is no *args / **kwargs",
        floor=7,
    )
    cas = run.idx.mod(CAS)
    f = cas.func("FunctionDefinition.bind_args")
    loops = [l for l in f.node.body if isinstance(l, ast.For)]
    order = [dotted(l.iter) for l in loops]
    ok = order == ["self._posonly", "self._args", "self._kwonly"]
    run.ob(ok, "FunctionDefinition.bind_args", file=cas.rel, line=f.node.lineno, detail="order", expected="_posonly, _args, (vararg), _kwonly, (kwarg)", found=str(order))
    if len(loops) < 3:
        raise AnalysisError("bind_args loops not recognised")
    la = loops[1]
    avar = la.target.id
    dup = [a for a in ast.walk(la) if isinstance(a, ast.Assert) and f"{avar} not in kwargs" in P.T(a.test)]
    ok = len(dup) == 1 and P.T(dup[0].test) == f"{avar} not in kwargs"
    run.ob(ok, "FunctionDefinition.bind_args", file=cas.rel, line=(dup[0].lineno if dup else la.lineno), detail="multiple-values",
           expected=f"assert {avar} not in kwargs (unconditional: CPython raises TypeError even if the callee has **kwargs)", found=src(dup[0].test) if dup else "missing")
    if dup:
        g = [anc for anc in cas.parents.ancestors(dup[0]) if isinstance(anc, ast.If) and any(x is la for x in cas.parents.ancestors(anc))]
        ok = [src(x.test) for x in g] == ["len(args) != 0"]
        run.ob(ok, "FunctionDefinition.bind_args", file=cas.rel, line=dup[0].lineno, detail="multiple-values.guard", expected="checked whenever a positional value is consumed", found=str([src(x.test) for x in g]))
    ok = any(isinstance(r, ast.Raise) for r in ast.walk(la))
    run.ob(ok, "FunctionDefinition.bind_args", file=cas.rel, line=la.lineno, detail="missing-parameter", expected="raise when neither value nor default exists", found="ok" if ok else "missing")
    lp = loops[0]
    pa = [a for a in ast.walk(lp) if isinstance(a, ast.Assert)]
    ok = bool(pa) and src(pa[0].test) in ("posonly not in kwargs or self._kwarg is not None",)
    run.ob(ok, "FunctionDefinition.bind_args", file=cas.rel, line=lp.lineno, detail="positional-only-keyword", expected="positional-only name as keyword rejected unless it can go to **kwargs", found=src(pa[0].test) if pa else "missing")
    t = P.T(f.node)
    ok = "if self._vararg is None:\n    assert len(args) == 0" in t.replace("\n        ", "\n    ") or ("self._vararg is None" in t and "len(args) == 0" in t)
    run.ob(ok, "FunctionDefinition.bind_args", file=cas.rel, line=f.node.lineno, detail="surplus-positional", expected="assert len(args) == 0 when there is no *args", found="ok" if ok else "missing")
    ok = "self._kwarg is None" in t and "len(kwargs) == 0" in t
    run.ob(ok, "FunctionDefinition.bind_args", file=cas.rel, line=f.node.lineno, detail="surplus-keyword", expected="assert len(kwargs) == 0 when there is no **kwargs", found="ok" if ok else "missing")
    ok = "add_arg(self._vararg, tuple(args[::-1]))" in t and "args = args[::-1]" in t
    run.ob(ok, "FunctionDefinition.bind_args", file=cas.rel, line=f.node.lineno, detail="vararg-order", expected="*args keeps call order (double reversal)", found="ok" if ok else "changed")
    dels = [d for d in ast.walk(f.node) if isinstance(d, ast.Delete)]
    ok = len(dels) == 2
    run.ob(ok, "FunctionDefinition.bind_args", file=cas.rel, line=f.node.lineno, detail="consumed-keywords-removed", expected="keywords bound to named parameters are removed before **kwargs is filled", found=f"{len(dels)} deletions")
    run.end()


def rule_env(run):
    run.begin("C10.env", "free names of a traced function are resolved like CPython: enclosing-function value, then module global, then builtin", floor=2)
    cas = run.idx.mod(CAS)
    f = cas.func("_ScopeBase._capture_env")
    # the free-names parameter is the second one after self; the loop may iterate it directly or through an
    # order-fixing wrapper such as sorted(...)
    params = [a.arg for a in f.node.args.args]
    free = params[2] if len(params) > 2 else "nonlocal_names"
    loops = [l for l in f.node.body if isinstance(l, ast.For) and free in {n.id for n in ast.walk(l.iter) if isinstance(n, ast.Name)}]
    if not loops:
        raise AnalysisError("_capture_env: loop over free names not found")
    node = loops[0].body[0]
    order = []
    while isinstance(node, ast.If):
        t = P.T(node.test)
        if "nonlocal_dict" in t:
            order.append("nonlocal")
        elif "global_dict" in t:
            order.append("global")
        elif "builtins" in t:
            order.append("builtins")
        node = node.orelse[0] if len(node.orelse) == 1 and isinstance(node.orelse[0], ast.If) else None
    dedup = [x for i, x in enumerate(order) if i == 0 or order[i - 1] != x]
    run.ob(dedup == ["nonlocal", "global", "builtins"], "_ScopeBase._capture_env", file=cas.rel, line=loops[0].lineno, detail="lookup-order", expected="nonlocal -> global -> builtins", found=" -> ".join(dedup))
    lv = loops[0].target.id
    ok = f"result[{lv}] = nonlocal_dict[{lv}]" in P.T(loops[0]) and f"result[{lv}] = global_dict[{lv}]" in P.T(loops[0])
    run.ob(ok, "_ScopeBase._capture_env", file=cas.rel, line=loops[0].lineno, detail="values", expected="value taken from the dictionary that was tested", found="ok" if ok else "changed")
    run.end()


def rule_builtins(run):
    run.begin("C10.builtins", "min/max replacements: exactly one argument means `iterable` (whatever its type), several arguments are the candidates; the builtin itself computes the result", floor=2)
    m = run.idx.mod(IDEF)
    for name in ("min", "max"):
        f = m.func(f"{name}_replacement")
        from ..astutil import unconditional_stmt
        first = unconditional_stmt(f.node, lambda st: isinstance(st, ast.If) and src(st.test) == "len(args) == 1")
        ok = first is not None and src(first.body[0]) == "args = args[0]" and len(first.body) == 1 and not first.orelse
        first = first or f.node.body[0]
        run.ob(ok, f"{name}_replacement", file=m.rel, line=f.node.lineno, detail="single-argument-is-iterable", expected="if len(args) == 1: args = args[0]", found=src(first).replace("\n", " ")[:80])
        last = f.node.body[-1]
        ok = isinstance(last, ast.Return) and P.T(last.value) == f"{name}(args)"
        run.ob(ok, f"{name}_replacement", file=m.rel, line=f.node.lineno, detail="delegates", expected=f"return {name}(args)", found=src(last))
    run.end()


class _Rename(ast.NodeTransformer):
    def __init__(self, mapping):
        self.mapping = mapping

    def visit_Attribute(self, node):
        self.generic_visit(node)
        if node.attr in self.mapping:
            node.attr = self.mapping[node.attr]
        return node


def _strip_calls(node, name):
    class T(ast.NodeTransformer):
        def visit_Call(self, n):
            self.generic_visit(n)
            if dotted(n.func) == name and len(n.args) == 1:
                return n.args[0]
            return n
    return T().visit(node)


def rule_siblings(run):
    run.begin("C10.e", "sibling handlers agree: ast.AsyncWith == ast.With up to __aenter__/__aexit__ and awaiting the calls", floor=1)
    prep = run.idx.mod(PREP)
    ai = prep.func("PrepareAst.apply_impl")
    w = _branch(ai.node, "ast.With")
    aw = _branch(ai.node, "ast.AsyncWith")
    if w is None or aw is None:
        raise AnalysisError("With/AsyncWith handlers not found")
    a = copy.deepcopy(aw.body)
    a = [_strip_calls(_Rename({"__aenter__": "__enter__", "__aexit__": "__exit__"}).visit(s), "translate_await") for s in a]
    a = [s for s in a if not (isinstance(s, ast.Assert) and "is_async" in P.T(s))]
    wb = copy.deepcopy(w.body)
    # the synchronous handler has the extra cohdl.always special case in its item loop
    def drop_always(stmts):
        out = []
        for s in stmts:
            if isinstance(s, ast.For):
                body = []
                for x in s.body:
                    if isinstance(x, ast.If) and P.T(x.test) == "context is always":
                        body.extend(x.orelse)
                    else:
                        body.append(x)
                s.body = body
            out.append(s)
        return out
    wb = drop_always(wb)
    ok = norm(a) == norm(wb)
    diff = ""
    if not ok:
        for x, y in zip(a, wb):
            if norm(x) != norm(y):
                diff = f"{src(x)[:70]} <-> {src(y)[:70]}"
                break
    run.ob(ok, "apply_impl[ast.With<->ast.AsyncWith]", file=prep.rel, line=aw.lineno, detail="agree", expected="identical after renaming the protocol methods and removing the awaits / the cohdl.always case", found="identical" if ok else "differ: " + diff)
    run.end()


def rule_known_definitions(run):
    from . import c11
    # C10.f: the definition cache must not outlive a compilation (shared with C11)
    c11.rule_pairing(run)


def rule_unpack(run):
    run.begin(
        "C10.unpack",
        "starred unpacking `a, *m, z = xs` distributes the elements like CPython for every number of names before and "
        "after the star and every length: the names before take the first elements, the names after the last ones, the "
        "starred name the list in between; length mismatches are rejected (abstract evaluation of _split_target)",
        floor=40,
    )
    from ..absint import Interp, Reject

    class _Star:
        pass

    class _Name:
        pass

    class _AstTok:
        Starred = _Star

    prep = run.idx.mod(PREP)
    f = prep.func("PrepareAst._split_target")
    prims = {"isinstance": lambda v, t: isinstance(v, t) if isinstance(t, type) else False, "ast": _AstTok(), "len": len, "enumerate": enumerate, "list": list, "tuple": tuple}
    for before in range(0, run.bound(4, 6)):
        for after in range(0, run.bound(4, 6)):
            for mid in range(0, run.bound(3, 5)):
                targets = [_Name() for _ in range(before)] + [_Star()] + [_Name() for _ in range(after)]
                n = before + after + mid
                source = [f"e{i}" for i in range(n)]
                exp = source[:before] + [source[before:n - after]] + source[n - after:]
                try:
                    got = Interp(prep, dict(prims)).call_function("PrepareAst._split_target", None, targets, list(source))
                    # unpacking a tuple binds the starred name to a LIST as well
                    got_t = Interp(prep, dict(prims)).call_function("PrepareAst._split_target", None, targets, tuple(source))
                    if got == exp and list(got_t) != exp:
                        got = f"tuple source: {got_t}"
                    elif got == exp and not isinstance(got_t[before], list):
                        got = f"tuple source: starred name bound to {type(got_t[before]).__name__} {got_t[before]!r}"
                except Reject as e:
                    got = f"rejected: {e}"
                run.ob(got == exp, "PrepareAst._split_target", file=prep.rel, line=f.node.lineno, detail=f"before={before},after={after},starred={mid}",
                       expected=str(exp), found=str(got)[:100], sample=(before, after, mid) == (1, 2, 1))
            # too few elements for the plain names
            if before + after >= 1:
                targets = [_Name() for _ in range(before)] + [_Star()] + [_Name() for _ in range(after)]
                try:
                    got = Interp(prep, dict(prims)).call_function("PrepareAst._split_target", None, targets, [f"e{i}" for i in range(before + after - 1)])
                    rej = False
                except Reject:
                    rej = True
                run.ob(rej, "PrepareAst._split_target", file=prep.rel, line=f.node.lineno, detail=f"before={before},after={after},too-short", expected="rejected", found="rejected" if rej else str(got)[:60], sample=False)
    for n_t, n_s in ((2, 3), (3, 2), (1, 0)):
        try:
            got = Interp(prep, dict(prims)).call_function("PrepareAst._split_target", None, [_Name() for _ in range(n_t)], list(range(n_s)))
            rej = False
        except Reject:
            rej = True
        run.ob(rej, "PrepareAst._split_target", file=prep.rel, line=f.node.lineno, detail=f"no-star {n_t}<-{n_s}", expected="rejected", found="rejected" if rej else str(got))
    run.end()


def rule_anyall(run):
    run.begin(
        "C10.anyall",
        "any()/all() in traced code fold like CPython for every mix of compile-time constants and run-time values: "
        "all() is constant False iff SOME constant element is falsy (whatever its position), constant True iff there is "
        "no run-time element left, otherwise the conjunction of exactly the run-time elements; dually for any() "
        "(abstract evaluation of the _Any/_All branches of convert_intrinsic)",
        floor=60,
    )
    import itertools
    from ..absint import Interp, Reject, Env, _Return

    class _TQ:  # run-time object met directly in the iterable
        def __init__(self, n):
            self.n = n

    class _RtExpr:  # element whose boolean conversion is a run-time expression
        def __init__(self, n):
            self.n = n

    class _Conv:
        def __init__(self, v):
            self.v = v

        def result(self):
            return ("rt", self.v.n) if isinstance(self.v, _RtExpr) else self.v

    class _Self:
        def convert_boolean(self, v):
            return _Conv(v)

    class _Node:
        def __init__(self, kind, *a):
            self.kind, self.a = kind, a

    class _Out:
        Value = lambda self, *a: _Node("Value", *a)
        Any = lambda self, *a: _Node("Any", *a)
        All = lambda self, *a: _Node("All", *a)

    class _TQMod:
        TypeQualifier = _TQ

    class _Res:
        pass

    prep = run.idx.mod(PREP)
    f = prep.func("PrepareAst.convert_intrinsic")
    for cls, pyfn, node in (("_Any", any, "Any"), ("_All", all, "All")):
        brs = [s for s in ast.walk(f.node) if isinstance(s, ast.If) and isinstance(s.test, ast.Call) and dotted(s.test.func) == "isinstance"
               and len(s.test.args) == 2 and (dotted(s.test.args[1]) or "").split(".")[-1] == cls]
        if len(brs) != 1:
            raise AnalysisError(f"convert_intrinsic: branch for {cls} not found")
        br = brs[0]
        rname = dotted(br.test.args[0])
        kinds = ("T", "F", "Q", "E")
        for n in range(0, run.bound(4, 6)):
            for combo in itertools.product(kinds, repeat=n):
                elems = [True if k == "T" else False if k == "F" else _TQ(i) if k == "Q" else _RtExpr(i) for i, k in enumerate(combo)]
                rt = sorted(i for i, k in enumerate(combo) if k in "QE")
                consts = [e for e in elems if isinstance(e, bool)]
                decided = (pyfn is all and not all(consts)) or (pyfn is any and any(consts))
                if decided:
                    exp = ("Value", pyfn is any)
                elif not rt:
                    exp = ("Value", pyfn is all)
                else:
                    exp = (node, tuple(rt))
                res = _Res()
                res.iterable = elems
                prims = {"isinstance": lambda v, t: isinstance(v, t) if isinstance(t, (type, tuple)) else False, "out": _Out(), "_type_qualifier": _TQMod(),
                         "TypeQualifier": _TQ, "len": len, "bool": bool, "list": list}
                it = Interp(prep, prims)
                env = Env()
                env.vars[rname] = res
                env.vars["self"] = _Self()
                try:
                    it.run(br.body, env)
                    got = ("fell through",)
                except _Return as r:
                    v = r.value
                    if isinstance(v, _Node) and v.kind == "Value":
                        got = ("Value", v.a[0])
                    elif isinstance(v, _Node):
                        ids = []
                        for x in v.a[0]:
                            ids.append(x.n if isinstance(x, _TQ) else x[1] if isinstance(x, tuple) and x and x[0] == "rt" else repr(x))
                        got = (v.kind, tuple(sorted(ids, key=str)))
                    else:
                        got = (repr(v),)
                except Reject as e:
                    got = ("rejected", str(e))
                run.ob(got == exp, f"PrepareAst.convert_intrinsic[{cls}]", file=prep.rel, line=br.lineno, detail="".join(combo) or "empty",
                       expected=f"{pyfn.__name__}({list(combo)}) -> {exp}", found=str(got)[:100], sample=combo == ("F", "T"))
    run.end()


def rule_defaults(run):
    run.begin(
        "C10.defaults",
        "default values of parameters are bound to the VALUE of the default expression (evaluated once, at definition), "
        "for functions defined outside traced code, local functions and lambdas alike: every default converter returns "
        "the result of the statement it evaluated and records that statement",
        floor=3,
    )
    prep = run.idx.mod(PREP)
    n = 0
    for q, f in prep.functions.items():
        if q.split(".")[-1].split("#")[0] != "default_converter":
            continue
        n += 1
        par = f.node.args.args[0].arg
        ev = P.find(f.node, f"__s = self.apply({par})")
        rets = [r for r in walk_local(f.node) if isinstance(r, ast.Return)]
        ok = len(ev) == 1 and len(rets) == 1 and P.match(P.compile_pattern("__s.result()"), rets[0].value, {"__s": ev[0][1]["__s"]}) is not None
        run.ob(ok, q.replace(".<locals>.", "/"), file=prep.rel, line=f.node.lineno, detail="binds-value", expected="stmt = self.apply(x); ...; return stmt.result()", found=src(rets[0])[:60] if rets else "no return")
        rec = bool(ev) and any(isinstance(c.func, ast.Attribute) and c.func.attr == "append" and c.args and dotted(c.args[0]) == ev[0][1]["__s"] for c in calls_in(f.node))
        run.ob(rec, q.replace(".<locals>.", "/"), file=prep.rel, line=f.node.lineno, detail="records-statement", expected="the evaluating statement is kept (bound statements)", found="ok" if rec else "dropped")
    if n < 3:
        raise AnalysisError(f"default converters not recognised ({n})")
    run.end()


def rule_comprehension(run):
    run.begin(
        "C10.comp",
        "list / dict comprehensions: per item the trailing conditions are evaluated in order and evaluation stops at the "
        "first false one; the element (key, value) expression is evaluated only for items that passed all conditions",
        floor=5,
    )
    prep = run.idx.mod(PREP)
    ai = prep.func("PrepareAst.apply_impl")
    pm = prep.parents
    for cls_, parts in (("ast.ListComp", ("inp.elt",)), ("ast.DictComp", ("inp.key", "inp.value"))):
        br = _branch(ai.node, cls_)
        if br is None:
            raise AnalysisError(f"anchor vanished: {cls_} handler")
        name = f"apply_impl[{cls_}]"
        item_loops = [l for l in br.body if isinstance(l, ast.For) and any(isinstance(c.func, ast.Attribute) and c.func.attr == "unpack" for c in calls_in(l))]
        if len(item_loops) != 1:
            raise AnalysisError(f"{cls_}: per-item loop not recognised")
        lp = item_loops[0]
        if_loops = [l for l in lp.body if isinstance(l, ast.For) and src(l.iter).endswith(".ifs")]
        if len(if_loops) != 1:
            raise AnalysisError(f"{cls_}: loop over the conditions not recognised")
        il = if_loops[0]
        # the flag set when a condition is false, and the early exit
        flags = [a.targets[0].id for a in ast.walk(il) if isinstance(a, ast.Assign) and isinstance(a.targets[0], ast.Name) and isinstance(a.value, ast.Constant) and a.value.value is True]
        brk = [b for b in ast.walk(il) if isinstance(b, ast.Break)]
        ok = len(flags) == 1 and len(brk) == 1 and any(isinstance(anc, ast.If) and isinstance(anc.test, ast.UnaryOp) and isinstance(anc.test.op, ast.Not) for anc in pm.ancestors(brk[0]) if anc is not il)
        run.ob(ok, name, file=prep.rel, line=il.lineno, detail="short-circuit", expected="stop evaluating conditions at the first false one (break)", found="ok" if ok else f"{len(brk)} break statement(s): every condition is evaluated")
        flag = flags[0] if flags else None
        for part in parts:
            calls = [c for c in ast.walk(lp) if isinstance(c, ast.Call) and dotted(c.func) == "self.apply" and c.args and dotted(c.args[0]) == part]
            if len(calls) != 1:
                raise AnalysisError(f"{cls_}: evaluation of {part} not recognised")
            c = calls[0]
            guarded = any(isinstance(anc, ast.If) and src(anc.test) == f"not {flag}" and any(x is c for b in anc.body for x in ast.walk(b)) for anc in pm.ancestors(c))
            after = c.lineno > il.lineno
            run.ob(guarded and after, name, file=prep.rel, line=c.lineno, detail=f"{part}-after-conditions", expected=f"self.apply({part}) only under `if not {flag}` after the conditions", found=("ok" if guarded and after else "evaluated " + ("before the conditions" if not after else "unconditionally")))
    run.end()


def rule_unreachable(run):
    run.begin(
        "C10.unreach",
        "statements that follow a statement returning on every path are not evaluated: every place that traces a LIST of "
        "statements (function bodies, blocks) stops after a statement whose returns_always() holds",
        floor=2,
    )
    prep = run.idx.mod(PREP)
    # sites that trace a statement list: a loop / comprehension applying self.apply to each element of a body list
    sites = []
    for q, f in prep.functions.items():
        if not q.startswith("PrepareAst."):
            continue
        for n in walk_local(f.node):
            if isinstance(n, ast.ListComp) and isinstance(n.elt, ast.Call) and dotted(n.elt.func) == "self.apply" and len(n.generators) == 1:
                it = src(n.generators[0].iter)
                if it in ("inp", "self._fn_def.body()") or it.endswith(".body()"):
                    sites.append((q, n, "comprehension: every statement is traced"))
            if isinstance(n, ast.For) and any(dotted(c.func) == "self.apply" and c.args and dotted(c.args[0]) == (n.target.id if isinstance(n.target, ast.Name) else None) for c in calls_in(n)):
                params = [a.arg for a in f.node.args.args]
                if isinstance(n.iter, ast.Name) and n.iter.id in params and "stmt" in n.iter.id:
                    stops = any(isinstance(b, ast.Break) for b in ast.walk(n)) and any(isinstance(c.func, ast.Attribute) and c.func.attr == "returns_always" for c in calls_in(n))
                    sites.append((q, n, None if stops else "loop never stops at a returning statement"))
    if not sites:
        raise AnalysisError("no statement-list tracing site found")
    for q, n, bad in sites:
        run.ob(bad is None, q, file=prep.rel, line=n.lineno, detail="stops-after-return", expected="tracing stops after a statement with returns_always()", found=bad or "ok")
    # the helper is what function bodies and blocks use
    users = [q for q, f in prep.functions.items() for c in calls_in(f.node) if dotted(c.func) == "self._apply_statements"]
    run.ob(len(users) >= 2, "PrepareAst", file=prep.rel, line=0, detail="used-by-bodies-and-blocks", expected="function bodies and statement blocks are traced through the stopping helper", found=str(sorted(set(users))))
    run.end()


def rule_getattr(run):
    run.begin("C10.getattr", "getattr(obj, name) of a missing attribute is an error (AttributeError in CPython): the replacement never substitutes a default the caller did not pass", floor=1)
    vb = run.idx.mod("cohdl/_compiler/frontend/_value_branch.py")
    f = vb.func("getattr_replacement")
    a = f.node.args
    extra = a.args[2:]
    dflts = a.defaults
    bad = [src(d) for d in dflts if isinstance(d, ast.Constant) and d.value is None]
    rets_default = [r for r in walk_local(f.node) if isinstance(r, ast.Return) and isinstance(r.value, ast.Name) and r.value.id in {x.arg for x in extra}]
    ok = not (extra and bad and rets_default)
    run.ob(ok, "getattr_replacement", file=vb.rel, line=f.node.lineno, detail="missing-attribute", expected="two-argument getattr of a missing attribute is rejected (an optional default needs a private sentinel, not None)",
           found="ok" if ok else f"default parameter {extra[0].arg}=None is returned for missing attributes")
    run.end()


def rule_hasattr(run):
    run.begin(
        "C10.hasattr",
        "hasattr(obj, name) in traced code answers like CPython for instance attributes, class attributes seen through an "
        "instance, a class's own and INHERITED attributes, metaclass attributes, slots and missing names (abstract "
        "evaluation of the hasattr replacement and ObjTraits.hasattr on sample object shapes)",
        floor=12,
    )
    from ..absint import Interp, Reject

    vb = run.idx.mod("cohdl/_compiler/frontend/_value_branch.py")
    repl = [f for f in vb.functions.values() if any(isinstance(d, ast.Call) and dotted(d.func) == "_intrinsic_replacement" and d.args and dotted(d.args[0]) == "hasattr" for d in f.node.decorator_list)]
    if len(repl) != 1:
        raise AnalysisError("hasattr replacement not found in _value_branch.py")
    repl = repl[0]
    vb.func("ObjTraits.hasattr")

    class _MB:
        pass

    class Meta(type):
        meta_attr = 1

    class Base(metaclass=Meta):
        WIDTH = 8

        def method(self):
            pass

    class Derived(Base):
        own = 1

    class Slots:
        __slots__ = ("s",)

        def __init__(self):
            self.s = 1

    class Dynamic:
        def __getattr__(self, name):
            if name == "dyn":
                return 1
            raise AttributeError(name)

    inst = Derived()
    inst.field = 3
    samples = [
        ("__getattr__ attribute", Dynamic(), "dyn"), ("__getattr__ missing", Dynamic(), "nope"),
        ("instance.__dict__", inst, "field"), ("instance->class", inst, "own"), ("instance->base", inst, "WIDTH"), ("instance->method", inst, "method"),
        ("instance missing", inst, "nope"), ("class own", Derived, "own"), ("class inherited", Derived, "WIDTH"), ("class inherited method", Derived, "method"),
        ("class metaclass", Derived, "meta_attr"), ("class missing", Derived, "nope"), ("slots", Slots(), "s"), ("slots missing", Slots(), "t"),
        ("int", 5, "real"), ("int missing", 5, "nope"), ("str", "x", "upper"), ("None missing", None, "nope"), ("tuple", (1, 2), "count"),
    ]
    for label, obj, name in samples:
        prims = {"hasattr": hasattr, "vars": vars, "type": type, "int": int, "getattr": getattr, "object": object,
                 "isinstance": lambda v, t: isinstance(v, t) if isinstance(t, (type, tuple)) else False, "_MergedBranch": _MB}
        it = Interp(vb, prims)

        class _OT:
            @staticmethod
            def hasattr(*a, **k):
                return it.call_function("ObjTraits.hasattr", *a, **k)

        prims["ObjTraits"] = _OT()
        try:
            got = it.call_node(repl.node, [obj, name], {}, __import__("sa.absint", fromlist=["Env"]).Env())
        except Reject as e:
            got = f"rejected: {e}"
        exp = hasattr(obj, name)
        run.ob(got is exp or got == exp and isinstance(got, bool), "hasattr replacement", file=vb.rel, line=repl.node.lineno, detail=label, expected=f"hasattr -> {exp}", found=str(got), sample=label == "class inherited")
    run.end()


def rule_returns_always(run):
    run.begin(
        "C10.returns",
        "a statement `returns always` only if EVERY path through it returns: an if/elif chain built from a for loop "
        "(out.CondSelect) without a default branch falls through when no condition holds (abstract evaluation of its "
        "constructor); statement lists stop at the first statement that returns always (C10.unreach)",
        floor=4,
    )
    from ..absint import Interp, Reject
    om = run.idx.mod("cohdl/_compiler/frontend/_prepare_ast_out.py")
    f = om.func("CondSelect.__init__")

    class _Blk:
        def __init__(self, ret):
            self.ret = ret

        def returns(self):
            return self.ret

        def returns_always(self):
            return self.ret

        def return_paths(self):
            return ["rp"] if self.ret else []

        # the sample blocks contain neither break nor continue
        def contains_break(self):
            return False

        def contains_continue(self):
            return False

    class _Self:
        pass

    # loops and loop exits: `break` / `continue` leave the loop body, not the function; a loop can always be left
    # through its condition or a break, so none of them returns always
    for cname, args in (("Break", ()), ("Continue", ()), ("While", "loop")):
        g = om.func(f"{cname}.__init__")
        so = _Self()
        got = {}

        class _Sup0:
            pass

        def _mk0():
            o = _Sup0()

            def init(*a, **k):
                got["returns_always"] = (a[0] if a else k.get("returns_always", False))
            o.__dict__["__init__"] = init
            return o

        class _Test:
            def result(self):
                return True   # `while True:`

            # a test expression is a statement as well: nothing in it returns / breaks / continues
            def return_paths(self):
                return []

            def returns(self):
                return False

            def returns_always(self):
                return False

            def contains_break(self):
                return False

            def contains_continue(self):
                return False

        try:
            if args == "loop":
                Interp(om, {"super": _mk0, "__setattr__": lambda o, k, v: setattr(o, k, v)}).call_function(f"{cname}.__init__", so, _Test(), _Blk(True))
            else:
                Interp(om, {"super": _mk0, "__setattr__": lambda o, k, v: setattr(o, k, v)}).call_function(f"{cname}.__init__", so)
            ra = got.get("returns_always", False)
        except Reject as e:
            ra = f"rejected: {e}"
        run.ob(ra is False or ra is None, f"out.{cname}.__init__", file=om.rel, line=g.node.lineno, detail="not-a-return", expected="returns_always=False", found=f"returns_always={ra}")
    for n_br, ret, has_default, exp in ((2, True, False, False), (2, True, True, True), (1, True, False, False), (2, False, False, False), (2, False, True, False)):
        so = _Self()
        got = {}

        class _Super:
            pass

        def _mk():
            o = _Super()

            def init(*a, **k):
                got["returns_always"] = a[0] if a else k.get("returns_always")
                got["return_paths"] = a[1] if len(a) > 1 else k.get("return_paths")
            o.__dict__["__init__"] = init
            return o
        prims = {"super": _mk, "any": any, "all": all, "__setattr__": lambda o, k, v: setattr(o, k, v), "len": len}
        branches = [("cond", _Blk(ret)) for _ in range(n_br)]
        default = _Blk(ret) if has_default else None
        try:
            Interp(om, prims).call_function("CondSelect.__init__", so, branches, default)
            ra = got.get("returns_always")
        except Reject as e:
            ra = f"rejected: {e}"
        run.ob(bool(ra) is exp and not isinstance(ra, str), "out.CondSelect.__init__", file=om.rel, line=f.node.lineno,
               detail=f"branches={n_br},return={ret},default={has_default}", expected=f"returns_always={exp}", found=f"returns_always={ra}")
    run.end()


def rule_purge(run):
    from . import c11
    c11.rule_definition_purge(run)   # a stale cached definition makes a traced function see old globals (C10) and history (C11)


def rule_default_names(run):
    run.begin(
        "C10.defnames",
        "positional default values belong to the LAST parameters of the combined list positional-only + positional "
        "(def f(a=1, /, b=2): defaults (1, 2) go to a and b); keyword-only defaults are paired by position with the "
        "keyword-only names",
        floor=1,
    )
    cas = run.idx.mod(CAS)
    f = cas.func("FunctionDefinition.from_ast_fn")
    pats = P.find(f.node, "__n = [*__p, *__a][-len(__d):]")
    ok = False
    for node, b in pats:
        # __p / __a are the positional-only and the regular parameter name lists, __d the defaults
        ok = True
    alt = [a for a in walk_local(f.node) if isinstance(a, ast.Assign) and isinstance(a.value, ast.Subscript) and "defaults" in src(a.value.slice) and "kw" not in src(a.value.slice)]
    found = "; ".join(src(a)[:70] for a in alt) or "not found"
    run.ob(ok, "FunctionDefinition.from_ast_fn", file=cas.rel, line=(alt[0].lineno if alt else f.node.lineno), detail="positional-defaults", expected="arg_names = [*posonly, *args][-len(defaults):]", found=found)
    run.end()


def rule_loop_scope(run):
    run.begin(
        "C10.scope",
        "names bound by a loop / comprehension target are released when the iteration ends: every name that was bound since "
        "the target was created is unset (none is exempted), and targets are bound with set_local",
        floor=2,
    )
    prep = run.idx.mod(PREP)
    rl = prep.func("PrepareAst.Target.restore_locals")
    nb = [b["__n"] for _n, b in P.find(rl.node, "__n = self.converter.bound_names() - self.initial_bound")]
    calls = [c for c in calls_in(rl.node) if isinstance(c.func, ast.Attribute) and c.func.attr == "unset_locals"]
    ok = len(nb) == 1 and len(calls) == 1 and dotted(calls[0].args[0]) == nb[0]
    run.ob(ok, "PrepareAst.Target.restore_locals", file=prep.rel, line=rl.node.lineno, detail="releases-all", expected="unset_locals(<all names bound since the target was created>)", found=src(calls[0])[:80] if calls else "missing")
    up = prep.func("PrepareAst.Target.unpack")
    setters = sorted({c.func.attr for c in calls_in(up.node) if isinstance(c.func, ast.Attribute) and dotted(c.func.value) == "self.converter"})
    run.ob(setters == ["set_local"], "PrepareAst.Target.unpack", file=prep.rel, line=up.node.lineno, detail="binds-with-set_local", expected="self.converter.set_local(name, value)", found=str(setters))
    # a target never silently re-binds a name of the enclosing function (CPython gives a comprehension its own scope; the
    # tracer has one scope per function and therefore REJECTS the reuse, at every nesting depth of the target): set_local
    # itself refuses a bound name, unconditionally
    sl = prep.func("PrepareAst.set_local")
    from ..astutil import unconditional_stmt
    params = [a.arg for a in sl.node.args.args]
    nm = params[1] if len(params) > 1 else "name"
    guard = unconditional_stmt(sl.node, lambda st: isinstance(st, ast.Assert) and P.T(st.test) == f"self._scope[{nm}] is _Unbound")
    store = [a for a in walk_local(sl.node) if isinstance(a, ast.Assign) and P.T(a.targets[0]) == f"self._scope[{nm}]"]
    ok = guard is not None and bool(store) and guard.lineno < store[0].lineno
    run.ob(ok, "PrepareAst.set_local", file=prep.rel, line=sl.node.lineno, detail="refuses-bound-name", expected=f"assert self._scope[{nm}] is _Unbound before the name is bound",
           found="ok" if ok else "a bound name is overwritten silently (a nested tuple target of a comprehension re-binds a variable of the enclosing function)")
    run.end()


def rule_bound_kept(run):
    from . import c03
    c03.rule_bound_kept(run)   # `if f():` with a constant result still executes f (its run-time assignments are emitted)


def rule_keyword_once(run):
    """CPython raises TypeError when a call receives one keyword twice (`f(a=1, **{"a": 2})`, `f(**m, a=1)`).  The tracer
    collects the keywords of a call into one dict; a store into that dict that is not guarded by a membership test lets
    the later value overwrite the earlier one silently."""
    run.begin("C10.kwonce", "every store into the keyword dict of a traced call is preceded, in the same block, by a fail-closed test that the key is not there yet", floor=2)
    pm = run.idx.mod(PREP)
    n = 0
    for q, f in pm.functions.items():
        # the keyword dict: a dict-typed local that is filled inside a loop over `<call>.keywords`
        for loop in walk_local(f.node):
            if not (isinstance(loop, ast.For) and (dotted(loop.iter) or "").endswith(".keywords")):
                continue
            for st in ast.walk(loop):
                if not (isinstance(st, ast.Assign) and len(st.targets) == 1 and isinstance(st.targets[0], ast.Subscript) and isinstance(st.targets[0].value, ast.Name)):
                    continue
                d, key = st.targets[0].value.id, src(st.targets[0].slice)
                block = getattr(pm.parents.of(st), pm.parents.field_of(st))
                before = block[:block.index(st)]
                guarded = False
                for b in before:
                    if isinstance(b, ast.Assert):
                        for c in ast.walk(b.test):
                            if isinstance(c, ast.Compare) and len(c.ops) == 1 and isinstance(c.ops[0], ast.NotIn) and src(c.left) == key and dotted(c.comparators[0]) == d:
                                guarded = True
                    elif isinstance(b, ast.If) and ends_in_raise(b.body):
                        for c in ast.walk(b.test):
                            if isinstance(c, ast.Compare) and len(c.ops) == 1 and isinstance(c.ops[0], ast.In) and src(c.left) == key and dotted(c.comparators[0]) == d:
                                guarded = True
                n += 1
                run.ob(guarded, q, file=pm.rel, line=st.lineno, detail=f"store[{key}]", expected=f"assert {key} not in {d}  (TypeError in CPython: multiple values for keyword argument)",
                       found="guarded" if guarded else f"`{src(st)[:60]}` overwrites an earlier keyword silently")
    if n == 0:
        raise AnalysisError("anchor vanished: keyword collection of traced calls (loop over <call>.keywords)")
    run.end()


RULES = [rule_tables, rule_dispatch, rule_compare_chain, rule_boolop, rule_fail_closed, rule_bind, rule_env, rule_builtins, rule_siblings, rule_unpack, rule_anyall, rule_purge, rule_defaults, rule_comprehension, rule_unreachable, rule_getattr, rule_hasattr, rule_returns_always, rule_default_names, rule_loop_scope, rule_bound_kept, rule_keyword_once]
LEVEL = "other"
EXPLANATION = (
    "The tracer re-implements CPython's evaluation rules by hand; decided here, for all programs, are the parts of "
    "that re-implementation that are tables or fixed protocols: operator->dunder tables against the data model, "
    "forward/reflected dispatch, chained comparisons and and/or folding, fail-closed dispatch (unsupported constructs "
    "and untranslatable match patterns are rejected), the order and the rejections of argument binding, free-name "
    "resolution order, min/max, sibling handlers, a keyword is accepted once per call (C10.kwonce). NOT decided: bind_args against inspect.Signature.bind for every call "
    "shape (an enumeration), closure/nonlocal value flow, comprehensions and starred unpacking."
)
ASSUMPTIONS = [
    "Python data model (Language Reference 3.3.8) frozen in sa/tables/operators.json",
    "known findings F18 (subclass priority / same-type rule) and F23 (__inv__) are listed in known_findings.json",
]
