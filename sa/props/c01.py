"""C01 - coroutine -> state machine translation is clock-accurate (structural core only).

The behaviour (equality of per-clock traces for all bodies x all input sequences) is out of reach of a
static rule.  Decided is the structural core without which the translation is wrong for every program
that exercises the construct:
  C01.a  every transition is inserted at the FRONT of its block (so later awaits override it)
  C01.b  every new state is registered with the state machine context on every path
  C01.c  loop back-edge / restart edge / lowering of transitions to state-signal assignments over all states
  C01.d  unsupported constructs are rejected (fail-closed dispatchers)
  C01.e  loop bookkeeping (break/continue lists) is saved and restored pairwise
  C01.f  the constructs that cost exactly one clock create a state: primitive awaits (incl. the replacement of an
         always-false while), the start-of-process special case keyed on an empty first state that a leading
         `while` marks as used
  C01.g  if/else merge of open blocks (mirror rule, shared with C03.f)
"""

from __future__ import annotations

import ast

from ..astutil import AnalysisError, dotted, src, walk_local, walk_ordered, calls_in, fail_closed, ends_in_raise
from .. import pattern as P
from ..rules import optable as ot
from . import c03

GEN = "cohdl/_compiler/frontend/_generate_ir.py"
IRR = "cohdl/_core/_ir/_repr.py"
PREP = "cohdl/_compiler/frontend/_prepare_ast.py"
ASM = "cohdl/_compiler/backend/vhdl/_vhdl_assembler.py"


def _contains(root, node):
    return any(n is node for n in ast.walk(root))


def rule_transitions(run):
    run.begin(
        "C01.a",
        "every ir._Transition(...) constructed by the generator is handed to CodeBlock.addfront (last assignment wins in "
        "VHDL, so a transition must precede whatever a later await appends); addfront inserts at index 0",
        floor=4,
    )
    n = 0
    for rel in (GEN, IRR):
        mod = run.idx.mod(rel)
        for q, f in mod.functions.items():
            for c in walk_local(f.node):
                if isinstance(c, ast.Call) and dotted(c.func) in ("ir._Transition", "_Transition"):
                    if q.startswith("_Transition."):
                        continue  # copy()
                    par = mod.parents.of(c)
                    ok = isinstance(par, ast.Call) and isinstance(par.func, ast.Attribute) and par.func.attr == "addfront" and par.args and par.args[0] is c
                    n += 1
                    run.ob(ok, f"{rel.split('/')[-1]}::{q}", file=rel, line=c.lineno, detail=f"transition->{src(c.args[0]) if c.args else '?'}@{n}",
                           expected="<block>.addfront(_Transition(..))", found=src(par)[:70] if isinstance(par, ast.Call) else type(par).__name__)
    irr = run.idx.mod(IRR)
    af = irr.func("CodeBlock.addfront")
    ok = any(isinstance(c.func, ast.Attribute) and c.func.attr == "insert" and P.T(c.args[0]) == "0" and dotted(c.func.value) == "self._content" for c in calls_in(af.node))
    run.ob(ok, "CodeBlock.addfront", file=irr.rel, line=af.node.lineno, detail="front", expected="self._content.insert(0, stmt)", found="ok" if ok else "changed")
    run.end()


def rule_states(run):
    run.begin("C01.b", "every ir._State created while lowering is registered with ctx.add_state before the enclosing branch ends; add_state appends", floor=3)
    gen = run.idx.mod(GEN)
    ai = gen.func("IrGenerator._apply_impl")
    n = 0
    for c in walk_local(ai.node):
        if isinstance(c, ast.Call) and dotted(c.func) == "ir._State":
            st = gen.parents.enclosing_stmt(c)
            if not (isinstance(st, ast.Assign) and isinstance(st.targets[0], ast.Name)):
                raise AnalysisError("unrecognised _State construction")
            var = st.targets[0].id
            block = getattr(gen.parents.of(st), gen.parents.field_of(st))
            later = block[block.index(st) + 1:]
            reg = [x for s in later for x in walk_local(s) if isinstance(x, ast.Call) and dotted(x.func) == "ctx.add_state" and dotted(x.args[0]) == var]
            # registration must be unconditional within the same block
            ok = any(gen.parents.enclosing_stmt(x) in later for x in reg)
            n += 1
            run.ob(ok, "IrGenerator._apply_impl", file=gen.rel, line=c.lineno, detail=f"state#{n}", expected=f"ctx.add_state({var}) unconditionally in the same block", found="registered" if ok else "not registered on every path")
    irr = run.idx.mod(IRR)
    a = irr.func("StatemachineContext.add_state")
    ok = "self._states.append(state)" in P.T(a.node)
    run.ob(ok, "StatemachineContext.add_state", file=irr.rel, line=a.node.lineno, detail="append", expected="self._states.append(state)", found="ok" if ok else "changed")
    init = irr.func("StatemachineContext.__init__")
    ok = "[self._first]" in P.T(init.node)
    run.ob(ok, "StatemachineContext.__init__", file=irr.rel, line=init.node.lineno, detail="first-registered", expected="the first state is registered at construction", found="ok" if ok else "changed")
    run.end()


def rule_edges(run):
    run.begin(
        "C01.c",
        "loop back-edge, restart edge and lowering: every open block of a while body gets a transition to the loop head; "
        "every open block of a finished multi-state machine gets a transition to the first state; every state (and only "
        "states of this machine) becomes a case branch and every transition becomes an assignment of its target's id",
        floor=7,
    )
    gen = run.idx.mod(GEN)
    ai = gen.func("IrGenerator._apply_impl")
    br = ot.find_branch(ai.node, ot.isinstance_test("inp", "out.While"))
    if br is None:
        raise AnalysisError("anchor vanished: out.While branch")
    loops = [l for l in ast.walk(br) if isinstance(l, ast.For) and "self.apply(inp._body" in P.T(l.iter)]
    ok = len(loops) == 1 and "open_blocks=[body]" in P.T(loops[0].iter) and any(isinstance(c, ast.Call) and isinstance(c.func, ast.Attribute) and c.func.attr == "addfront" and dotted(c.func.value) == loops[0].target.id and "ir._Transition(new_state)" in P.T(c) for c in ast.walk(loops[0]))
    run.ob(ok, "_apply_impl[out.While]", file=gen.rel, line=(loops[0].lineno if loops else br.lineno), detail="back-edge", expected="for open_body in self.apply(inp._body, open_blocks=[body]): open_body.addfront(_Transition(new_state))", found="ok" if ok else "changed")
    # loop entry from the blocks before the loop
    entry = [l for l in ast.walk(br) if isinstance(l, ast.For) and dotted(l.iter) == "open_blocks" and "ir._Transition(new_state)" in P.T(l)]
    run.ob(len(entry) == 1, "_apply_impl[out.While]", file=gen.rel, line=br.lineno, detail="loop-entry", expected="every open block before the loop transitions to the loop head", found=f"{len(entry)} entry loop(s)")
    t = P.T(br)
    ok = "open_block.append(ir.If(inp._test.result(), body, orelse))" in t and "return [orelse, *ret_blocks]" in t and "ret_blocks.extend(break_result)" in t
    run.ob(ok, "_apply_impl[out.While]", file=gen.rel, line=br.lineno, detail="exit-blocks", expected="loop exits: the else of the condition and every break block", found="ok" if ok else "changed")
    ok = "continue_block.append(body)" in t and "block.append(ir.If(inp._test.result(), body, break_block))" in t
    run.ob(ok, "_apply_impl[out.While]", file=gen.rel, line=br.lineno, detail="continue", expected="continue re-enters the body (re-checking a run-time condition)", found="ok" if ok else "changed")
    irr = run.idx.mod(IRR)
    fin = irr.func("StatemachineContext.finish")
    loops = [l for l in fin.node.body if isinstance(l, ast.For) and dotted(l.iter) == "open_blocks"]
    ok = len(loops) == 1 and f"{loops[0].target.id}.addfront(_Transition(ctx.first_state()))" in P.T(loops[0])
    run.ob(ok, "StatemachineContext.finish", file=irr.rel, line=fin.node.lineno, detail="restart-edge", expected="for open_block in open_blocks: open_block.addfront(_Transition(ctx.first_state()))", found="ok" if ok else "changed")
    if loops:
        ret = fin.node.body[-1]
        ok = isinstance(ret, ast.Return) and P.T(ret.value) == "Statemachine(ctx)" and fin.node.body.index(loops[0]) < len(fin.node.body) - 1
        run.ob(ok, "StatemachineContext.finish", file=irr.rel, line=fin.node.lineno, detail="restart-before-build", expected="restart transitions are added before Statemachine(ctx) is built", found="ok" if ok else "changed")
    acw = irr.func("Statemachine.as_case_when")
    t = P.T(acw.node)
    ok = "SignalAssignment(self._current_state, self._state_id[stmt._next_state]" in t and "for state in self._ctx._states:\n        state.visit(replace_transition)" in t.replace("            ", "        ")
    ok = ok or ("self._state_id[stmt._next_state]" in t and "state.visit(replace_transition)" in t)
    run.ob(ok, "Statemachine.as_case_when", file=irr.rel, line=acw.node.lineno, detail="transition-lowering", expected="_Transition(s) -> state signal <= id(s), applied to every state", found="ok" if ok else "changed")
    ok = "[(self._state_id[state], state.code()) for state in self._ctx._states]" in t
    run.ob(ok, "Statemachine.as_case_when", file=irr.rel, line=acw.node.lineno, detail="all-states", expected="one case branch per registered state, chosen by that state's own id", found="ok" if ok else "changed")
    run.end()


def rule_fail_closed(run):
    run.begin("C01.d", "a coroutine construct nobody lowers is rejected, never dropped: the four dispatchers end in an unconditional raise", floor=4)
    for rel, q in ((PREP, "PrepareAst.apply_impl"), (PREP, "PrepareAst.convert_intrinsic"), (GEN, "IrGenerator._apply_impl"), (ASM, "_StmtAssembler.apply")):
        mod = run.idx.mod(rel)
        f = mod.func(q)
        ok = ends_in_raise(f.node.body)
        run.ob(ok, q, file=rel, line=f.node.lineno, detail="fail-closed", expected="ends in an unconditional raise", found="raise" if ok else "falls off the end")
    run.end()


def rule_loop_state(run):
    run.begin(
        "C01.e",
        "break/continue bookkeeping of nested loops: _continue_result and _break_result are saved before the body is "
        "lowered and each is restored from ITS OWN saved value in a finally",
        floor=4,
    )
    gen = run.idx.mod(GEN)
    ai = gen.func("IrGenerator._apply_impl")
    br = ot.find_branch(ai.node, ot.isinstance_test("inp", "out.While"))
    saves = {}
    for a in walk_local(br):
        if isinstance(a, ast.Assign) and isinstance(a.targets[0], ast.Name) and (dotted(a.value) or "").startswith("IrGenerator._"):
            saves[a.targets[0].id] = dotted(a.value)
    tries = [t for t in walk_local(br) if isinstance(t, ast.Try) and t.finalbody]
    if not tries:
        raise AnalysisError("try/finally of the while lowering not found")
    restores = {}
    for a in tries[0].finalbody:
        if isinstance(a, ast.Assign) and (dotted(a.targets[0]) or "").startswith("IrGenerator._"):
            restores[dotted(a.targets[0])] = dotted(a.value)
    for attr in ("IrGenerator._continue_result", "IrGenerator._break_result"):
        saved = [k for k, v in saves.items() if v == attr]
        ok = bool(saved) and restores.get(attr) in saved
        run.ob(ok, "_apply_impl[out.While]", file=gen.rel, line=tries[0].lineno, detail=attr.split(".")[1] + ".restore",
               expected=f"{attr} = <value saved from {attr}>", found=f"{attr} = {restores.get(attr)} (saved from {saves.get(restores.get(attr), '?')})")
    installs = {}
    for a in walk_local(br):
        if isinstance(a, ast.Assign) and (dotted(a.targets[0]) or "").startswith("IrGenerator._") and a.lineno < tries[0].lineno:
            installs[dotted(a.targets[0])] = dotted(a.value)
    ok = installs.get("IrGenerator._continue_result") == "continue_result" and installs.get("IrGenerator._break_result") == "break_result"
    run.ob(ok, "_apply_impl[out.While]", file=gen.rel, line=br.lineno, detail="fresh-lists", expected="fresh continue/break lists installed for the loop body", found=str(installs))
    t = P.T(br)
    ok = "for continue_block in continue_result" in t and "ret_blocks.extend(break_result)" in t
    run.ob(ok, "_apply_impl[out.While]", file=gen.rel, line=br.lineno, detail="own-lists-consumed", expected="the loop consumes its own lists", found="ok" if ok else "changed")
    for cls, attr in (("out.Continue", "_continue_result"), ("out.Break", "_break_result")):
        b = ot.find_branch(ai.node, ot.isinstance_test("inp", cls))
        ok = b is not None and f"IrGenerator.{attr}.extend(open_blocks)" in P.T(b) and P.T(b.body[-1]) == "return []"
        run.ob(ok, f"_apply_impl[{cls}]", file=gen.rel, line=(b.lineno if b else 0), detail="records", expected=f"IrGenerator.{attr}.extend(open_blocks); return []", found="ok" if ok else "changed")
    run.end()


def rule_clock_costs(run):
    run.begin(
        "C01.f",
        "constructs that cost one clock create a state: a primitive await creates (or, at the very start, reuses the "
        "empty first) state; an always-false while is replaced by a PRIMITIVE await of true; the start-of-process "
        "test is `first state is empty` where only comments count as empty and a leading while marks the state as used",
        floor=7,
    )
    prep = run.idx.mod(PREP)
    ai = prep.func("PrepareAst.apply_impl")
    wb = ot.find_branch(ai.node, lambda t: isinstance(t, ast.Call) and dotted(t.func) == "isinstance" and dotted(t.args[0]) == "inp" and dotted(t.args[1]) == "ast.While")
    if wb is None:
        raise AnalysisError("anchor vanished: ast.While handler")
    fb = [s for s in wb.body if isinstance(s, ast.If) and P.T(s.test) == "test.result() is False"]
    if not fb:
        raise AnalysisError("always-false while special case not found")
    ret = [r for r in fb[0].body if isinstance(r, ast.Return)]
    c = ret[0].value if ret else None
    prim = None
    if isinstance(c, ast.Call) and dotted(c.func) == "out.Await":
        prim = c.args[1] if len(c.args) > 1 else next((k.value for k in c.keywords if k.arg == "primitive"), None)
    ok = isinstance(prim, ast.Constant) and prim.value is True and "cohdl_true" in P.T(c.args[0])
    run.ob(ok, "apply_impl[ast.While]", file=prep.rel, line=fb[0].lineno, detail="false-while-delay", expected="out.Await(out.Value(cohdl_true, []), primitive=True, ..): one clock delay", found=src(c)[:90] if c is not None else "missing")
    ta = prep.func("PrepareAst.apply_impl.<locals>.translate_await")
    awaits = [x for x in ast.walk(ta.node) if isinstance(x, ast.Call) and dotted(x.func) == "out.Await"]
    kinds = []
    for x in awaits:
        p = next((k.value for k in x.keywords if k.arg == "primitive"), x.args[1] if len(x.args) > 1 else None)
        kinds.append((src(x.args[0])[:24], src(p)))
    prim_ok = [k for k in kinds if k[0].startswith("out.Value(result") and k[1] == "True"]
    sub_ok = [k for k in kinds if k[0] == "sub" and k[1] == "False"]
    run.ob(len(prim_ok) == 2 and len(sub_ok) == 1, "apply_impl.translate_await", file=prep.rel, line=ta.node.lineno, detail="primitive-flags", expected="awaiting a hardware value is primitive; awaiting a sub-coroutine is not", found=str(kinds))
    outm = run.idx.mod("cohdl/_compiler/frontend/_prepare_ast_out.py")
    ainit = outm.func("Await.__init__")
    ok = "self._awaitable_primitive = primitive" in P.T(ainit.node)
    run.ob(ok, "out.Await.__init__", file=outm.rel, line=ainit.node.lineno, detail="stores-flag", expected="self._awaitable_primitive = primitive", found="ok" if ok else "changed")
    gen = run.idx.mod(GEN)
    gi = gen.func("IrGenerator._apply_impl")
    ab = ot.find_branch(gi.node, ot.isinstance_test("inp", "out.Await"))
    pb = [s for s in ab.body if isinstance(s, ast.If) and P.T(s.test) == "inp._awaitable_primitive"]
    if not pb:
        raise AnalysisError("primitive await branch not found")
    sel = [s for s in pb[0].body if isinstance(s, ast.If) and P.T(s.test) == "ctx.at_start()"]
    ok = bool(sel) and "new_state = ctx.first_state()" in P.T(sel[0].body[0]) and any("ir._State(" in P.T(s) for s in sel[0].orelse)
    run.ob(ok, "_apply_impl[out.Await]", file=gen.rel, line=pb[0].lineno, detail="state-per-await", expected="at start: reuse the empty first state; otherwise a new state", found="ok" if ok else "changed")
    t = P.T(pb[0])
    ok = "self.apply(inp.bound_statements(), open_blocks=[new_state.code()])" in " ".join(t.split()) and "return [new_state._open_block]" in t
    run.ob(ok, "_apply_impl[out.Await]", file=gen.rel, line=pb[0].lineno, detail="continues-in-new-state", expected="the condition is evaluated in, and execution continues from, the new state", found="ok" if ok else "changed")
    ok = "ir.If(" in t and "new_state.set_open_block(if_body)" in t
    run.ob(ok, "_apply_impl[out.Await]", file=gen.rel, line=pb[0].lineno, detail="poll", expected="new_state.append(ir.If(cond, if_body, <empty>)); continue in if_body (polls once per clock)", found="ok" if ok else "changed")
    irr = run.idx.mod(IRR)
    st = irr.func("StatemachineContext.at_start")
    ok = P.T(st.node.body[-1]) == "return self._first.empty()"
    run.ob(ok, "StatemachineContext.at_start", file=irr.rel, line=st.node.lineno, detail="at-start", expected="return self._first.empty()", found=src(st.node.body[-1]))
    em = irr.func("CodeBlock.empty")
    kinds = sorted({dotted(c.args[1]) for c in ast.walk(em.node) if isinstance(c, ast.Call) and dotted(c.func) == "isinstance"})
    run.ob(kinds == ["Comment"], "CodeBlock.empty", file=irr.rel, line=em.node.lineno, detail="what-counts-as-empty", expected="only Comment statements are ignored (a Nop marks a state as used)", found=str(kinds))
    wb2 = ot.find_branch(gi.node, ot.isinstance_test("inp", "out.While"))
    sel = [s for s in wb2.body if isinstance(s, ast.If) and P.T(s.test) == "ctx.at_start()"]
    ok = bool(sel) and "new_state.code().append(ir.Nop())" in P.T(sel[0])
    run.ob(ok, "_apply_impl[out.While]", file=gen.rel, line=(sel[0].lineno if sel else wb2.lineno), detail="marks-first-state-used", expected="a while at the start appends ir.Nop() to the first state", found="ok" if ok else "missing")
    run.end()


def rule_straight_line(run):
    run.begin(
        "C01.h",
        "case-when lowering of a match is only used for straight-line branches: a branch body is lowered into a fresh "
        "block and the lowering must have ended in exactly that block (one open block, identical to the fresh one); any "
        "branch containing a state transition falls back to the if/else lowering, which threads the open blocks",
        floor=2,
    )
    gen = run.idx.mod(GEN)
    f = gen.func("IrGenerator._apply_impl.<locals>.gen_case_when.<locals>.gen_bodies")
    found = P.find(f.node, "__c = self.apply(__code, open_blocks=[__b])")
    if len(found) != 1:
        raise AnalysisError("gen_bodies: lowering of a branch body into a fresh block not recognised")
    b = found[0][1]
    guard = [g for g in ast.walk(f.node) if isinstance(g, ast.If) and g.body and isinstance(g.body[-1], ast.Return) and isinstance(g.body[-1].value, ast.Constant) and g.body[-1].value.value is None]
    ok_len = any(P.has(g.test, "len(__c) != 1", {"__c": b["__c"]}) for g in guard)
    ok_id = any(P.has(g.test, "__c[0] is not __b", {"__c": b["__c"], "__b": b["__b"]}) for g in guard)
    both_or = any(isinstance(g.test, ast.BoolOp) and isinstance(g.test.op, ast.Or) for g in guard if P.has(g.test, "len(__c) != 1", {"__c": b["__c"]})) or (ok_len and ok_id and len(guard) >= 2)
    run.ob(ok_len, "gen_case_when.gen_bodies", file=gen.rel, line=f.node.lineno, detail="single-open-block", expected="fall back (return None) unless exactly one open block remains", found="ok" if ok_len else "missing")
    run.ob(ok_id and both_or, "gen_case_when.gen_bodies", file=gen.rel, line=f.node.lineno, detail="same-block", expected="fall back (return None) unless the remaining open block IS the fresh branch block (no transition inside the branch)",
           found="ok" if ok_id and both_or else "; ".join(src(g.test) for g in guard) or "no guard")
    # the caller propagates the fall-back
    gcw = gen.func("IrGenerator._apply_impl.<locals>.gen_case_when")
    calls = [c for c in calls_in(gcw.node) if dotted(c.func) == "gen_bodies"]
    n_checked = 0
    for c in calls:
        st = gen.parents.enclosing_stmt(c)
        if isinstance(st, ast.Assign) and isinstance(st.targets[0], ast.Name):
            v = st.targets[0].id
            blk = getattr(gen.parents.of(st), gen.parents.field_of(st))
            nxt = blk[blk.index(st) + 1] if blk.index(st) + 1 < len(blk) else None
            ok = isinstance(nxt, ast.If) and src(nxt.test) == f"{v} is None" and isinstance(nxt.body[-1], ast.Return)
            n_checked += 1
            run.ob(ok, "gen_case_when", file=gen.rel, line=c.lineno, detail=f"fallback-propagated#{n_checked}", expected="if ir_bodies is None: return None", found="ok" if ok else "result used unchecked")
    if n_checked < 2:
        raise AnalysisError("gen_case_when: calls of gen_bodies not recognised")
    run.end()


def rule_with_exit(run):
    c03.rule_with_exit(run)


def rule_return_paths(run):
    run.begin(
        "C01.i",
        "compound statements of the traced program hand the return paths of ALL their sub-blocks upwards (a `return` "
        "inside a loop / branch of an awaited coroutine must reach the enclosing call, which wires its continuation)",
        floor=3,
    )
    OUT = "cohdl/_compiler/frontend/_prepare_ast_out.py"
    om = run.idx.mod(OUT)
    n = 0
    for cname in om.classes:
        if "." in cname:
            continue
        init = om.functions.get(f"{cname}.__init__")
        if init is None:
            continue
        blocks = [a.arg for a in init.node.args.args if a.annotation is not None and "CodeBlock" in src(a.annotation) and "list" not in src(a.annotation) and "tuple" not in src(a.annotation)]
        bases = [dotted(b) for b in om.classes[cname].bases]
        if not blocks or not any(b in ("Statement", "Expression") for b in bases):
            continue
        sup = [c for c in calls_in(init.node) if isinstance(c.func, ast.Attribute) and c.func.attr == "__init__" and isinstance(c.func.value, ast.Call) and dotted(c.func.value.func) == "super"]
        if len(sup) != 1:
            continue
        c = sup[0]
        rp = None
        for k in c.keywords:
            if k.arg == "return_paths":
                rp = k.value
        if rp is None and len(c.args) >= 2:
            rp = c.args[1]
        if rp is None:
            continue
        text = src(rp)
        # resolve a local name through its assignments in __init__
        if isinstance(rp, ast.Name):
            text = " ; ".join(src(a.value) for a in walk_local(init.node) if isinstance(a, (ast.Assign, ast.AugAssign)) and dotted(a.targets[0] if isinstance(a, ast.Assign) else a.target) == rp.id)
            text += " ; " + " ; ".join(src(x) for x in walk_local(init.node) if isinstance(x, ast.Call) and isinstance(x.func, ast.Attribute) and dotted(x.func.value) == rp.id)
        def aliases(b):
            """locals (and loop variables) whose value derives from parameter b"""
            al = {b, f"self._{b}"}
            for _ in range(4):
                for a in walk_local(init.node):
                    if isinstance(a, ast.Assign) and isinstance(a.targets[0], ast.Name) and any((dotted(x) or "") in al for x in ast.walk(a.value)):
                        al.add(a.targets[0].id)
                    if isinstance(a, (ast.For, ast.comprehension)) and any((dotted(x) or "") in al for x in ast.walk(a.iter)):
                        for t in ast.walk(a.target):
                            if isinstance(t, ast.Name):
                                al.add(t.id)
            return al
        for b in blocks:
            ok = any(f"{x}.return_paths()" in text for x in aliases(b))
            n += 1
            run.ob(ok, f"out.{cname}.__init__", file=om.rel, line=c.lineno, detail=f"forwards-{b}", expected=f"return paths of `{b}` are part of the statement's return paths", found=text[:90])
    if n < 3:
        raise AnalysisError(f"compound out.* statements not recognised ({n})")
    run.end()


def rule_empty_block(run):
    run.begin(
        "C01.j",
        "CodeBlock.empty(): a block counts as empty iff it holds nothing but comments (abstract evaluation) - the "
        "await-at-start special case is keyed on it, so a block with real statements next to a comment is NOT empty",
        floor=4,
    )
    from ..absint import Interp, Reject
    irr = run.idx.mod(IRR)
    f = irr.func("CodeBlock.empty")

    class Comment:
        pass

    class Stmt:
        pass

    class Nop:
        pass

    class _Blk:
        def __init__(self, c):
            self._content = c

    prims = {"isinstance": lambda v, t: isinstance(v, t if isinstance(t, (type, tuple)) else ()), "Comment": Comment, "Nop": Nop, "len": len, "all": all, "any": any}
    for content, exp, name in (([], True, "[]"), ([Comment()], True, "[comment]"), ([Comment(), Comment()], True, "[comment, comment]"), ([Stmt()], False, "[stmt]"),
                               ([Comment(), Stmt()], False, "[comment, stmt]"), ([Stmt(), Comment()], False, "[stmt, comment]"), ([Nop()], False, "[nop]"), ([Comment(), Nop()], False, "[comment, nop]")):
        try:
            got = Interp(irr, dict(prims)).call_function("CodeBlock.empty", _Blk(content))
        except Reject as e:
            got = f"rejected: {e}"
        run.ob(got is exp, "CodeBlock.empty", file=irr.rel, line=f.node.lineno, detail=name, expected=str(exp), found=str(got))
    run.end()


def rule_call_and_await(run):
    run.begin(
        "C01.k",
        "a called (awaited) function continues in exactly the blocks that are open at its end plus the blocks that ended "
        "in a return - never in a common ancestor block (which would re-run the continuation in every state of a loop); "
        "the statements evaluated before an await are not bound to the wait state (they would be repeated every clock)",
        floor=3,
    )
    gen = run.idx.mod(GEN)
    ai = gen.func("IrGenerator._apply_impl")
    br = ot.find_branch(ai.node, ot.isinstance_test("inp", "out.Call"))
    if br is None:
        raise AnalysisError("anchor vanished: out.Call branch")
    res = [b["__r"] for _n, b in P.find(br.body, "__r = self.apply(inp._code, open_blocks=open_blocks)")]
    if len(res) != 1:
        raise AnalysisError("out.Call: lowering of the function body not recognised")
    r = res[0]
    ext = P.has(br.body, "__r.extend(own_returned_blocks)", {"__r": r}) or any(P.has(br.body, f"{r}.extend(__o)") for _ in (0,))
    run.ob(ext, "_apply_impl[out.Call]", file=gen.rel, line=br.lineno, detail="returned-blocks-added", expected="result.extend(<blocks that ended in return>)", found="ok" if ext else "missing")
    # the first statement-level return reached on every path
    first_ret = None
    for st in br.body:
        if isinstance(st, ast.Return):
            first_ret = st
            break
        if any(isinstance(x, ast.Return) for x in ast.walk(st)):
            first_ret = st
            break
    ok = isinstance(first_ret, ast.Return) and dotted(first_ret.value) == r
    run.ob(ok, "_apply_impl[out.Call]", file=gen.rel, line=(first_ret.lineno if first_ret is not None else br.lineno), detail="continues-in-own-blocks", expected=f"return {r} (unconditionally)", found=src(first_ret)[:80] if first_ret is not None else "no return")
    om = run.idx.mod("cohdl/_compiler/frontend/_prepare_ast_out.py")
    aw = om.func("Await.__init__")
    sup = [c for c in calls_in(aw.node) if isinstance(c.func, ast.Attribute) and c.func.attr == "__init__"]
    bs = None
    for c in sup:
        for k in c.keywords:
            if k.arg == "bound_statements":
                bs = k.value
    p0 = aw.node.args.args[1].arg
    ok = isinstance(bs, ast.List) and len(bs.elts) == 1 and dotted(bs.elts[0]) == p0
    run.ob(ok, "out.Await.__init__", file=om.rel, line=aw.node.lineno, detail="bound-statements", expected=f"bound_statements=[{p0}] (only the awaited expression itself)", found=src(bs)[:70] if bs is not None else "?")
    run.end()


def rule_state_root(run):
    from . import c08
    c08.rule_state_root(run)      # at_start() asks whether the WHOLE first state is empty


def rule_not_a_return(run):
    from . import c10
    c10.rule_returns_always(run)  # break / continue / loops do not end the coroutine: code after them must be lowered


def rule_at_start(run):
    run.begin(
        "C01.l",
        "the start-of-process special case (an await/while that finds the first state EMPTY claims it) is reachable only "
        "for the first statement of the coroutine: every handler that lowers a NESTED body into a fresh child block "
        "(`ir.CodeBlock([], parent=<block>)` + `self.apply(body, open_blocks=[child])`) has, on every path to that call, "
        "already appended something to the enclosing code (its own statement, or the Nop marker under "
        "`ctx.at_start()`), or knows `at_start()` is false - also when the lowering is a speculative attempt that is "
        "given up afterwards (local helper functions are placed at their call sites)",
        floor=5,
    )
    gen = run.idx.mod(GEN)
    ai = gen.func("IrGenerator._apply_impl")
    par = gen.parents
    FUN = (ast.FunctionDef, ast.AsyncFunctionDef, ast.Lambda)

    def scope_of(n, root):
        """innermost local function of the handler that contains n (None = the handler's own body)"""
        for a in par.ancestors(n):
            if a is root:
                return None
            if isinstance(a, FUN):
                return a
        return None

    def arm_path(n, root):
        """[(compound statement, arm)] from the scope root down to n"""
        out, child = [], n
        for a in par.ancestors(n):
            if a is root:
                break
            if isinstance(a, (ast.If, ast.For, ast.While, ast.Try, ast.With)):
                arm = next((fld for fld in ("body", "orelse", "finalbody", "handlers") if any(_contains(x, child) for x in getattr(a, fld, []) or [])), "test")
                out.append((a, arm))
            child = a
        return out[::-1]

    def is_at_start_if(node):
        return isinstance(node, ast.If) and any(isinstance(c, ast.Call) and isinstance(c.func, ast.Attribute) and c.func.attr == "at_start" for c in ast.walk(node.test))

    n_ev = 0
    for br in ai.node.body:
        if not (isinstance(br, ast.If) and isinstance(br.test, ast.Call) and dotted(br.test.func) == "isinstance"):
            continue
        hname = dotted(br.test.args[1]) or src(br.test.args[1])
        # a handler that may CLAIM the first state (ctx.first_state() under ctx.at_start()) does so only when the statement
        # is reachable: with no open block left (everything before it ended in `await false`) it returns first
        claims = [c for c in ast.walk(br) if isinstance(c, ast.Call) and isinstance(c.func, ast.Attribute) and c.func.attr == "first_state"
                  and any(is_at_start_if(a) for a in par.ancestors(c))]
        for c in claims:
            guard = None
            for st in br.body:
                if st.lineno >= c.lineno:
                    break
                if isinstance(st, ast.If) and not st.orelse and "len(open_blocks) == 0" in src(st.test).replace("not open_blocks", "len(open_blocks) == 0") and any(isinstance(x, ast.Return) for x in st.body):
                    guard = st
            # ... and whoever claims the first state marks it as used in the same branch (an `await true` adds nothing
            # else to it: the NEXT await / while would find the state empty and take itself for the first statement too)
            arm = next((a for a in par.ancestors(c) if is_at_start_if(a)), None)
            marked = arm is not None and any(isinstance(m, ast.Call) and isinstance(m.func, ast.Attribute) and m.func.attr == "append" and m.args and isinstance(m.args[0], ast.Call)
                                             and (dotted(m.args[0].func) or "").startswith("ir.") for st in arm.body for m in ast.walk(st))
            run.ob(marked, f"_apply_impl[{hname}]", file=gen.rel, line=c.lineno, detail="claim-marks-first-state-used", expected="<first state>.code().append(ir.Nop()) in the at_start() branch",
                   found="ok" if marked else "the claimed first state can stay empty (await true): the following await/while is treated as the first statement again and a clock is lost")
            run.ob(guard is not None, f"_apply_impl[{hname}]", file=gen.rel, line=c.lineno, detail="claims-first-state-only-if-reachable",
                   expected="`if len(open_blocks) == 0: return ...` before the first state is claimed",
                   found="ok" if guard is not None else "no such guard: after `await false` (no open block) the statement still claims the empty first state and its code runs from clock 0")
        local_fns = {f.name: f for f in ast.walk(br) if isinstance(f, (ast.FunctionDef, ast.AsyncFunctionDef))}
        # child blocks: name = ir.CodeBlock([], parent=<not None>)
        children = {}
        for a in ast.walk(br):
            if isinstance(a, ast.Assign) and isinstance(a.targets[0], ast.Name) and isinstance(a.value, ast.Call) and (dotted(a.value.func) or "").endswith("CodeBlock"):
                pk = [k.value for k in a.value.keywords if k.arg == "parent"] + a.value.args[1:2]
                if pk and not (isinstance(pk[0], ast.Constant) and pk[0].value is None):
                    children[a.targets[0].id] = a
        applies = []
        for c in ast.walk(br):
            if isinstance(c, ast.Call) and dotted(c.func) == "self.apply":
                ob = [k.value for k in c.keywords if k.arg == "open_blocks"] + c.args[1:2]
                if ob and isinstance(ob[0], ast.List) and len(ob[0].elts) == 1 and isinstance(ob[0].elts[0], ast.Name) and ob[0].elts[0].id in children:
                    applies.append((c, ob[0].elts[0].id))
        if not applies:
            continue
        marks = []
        for c in ast.walk(br):
            if isinstance(c, ast.Call) and isinstance(c.func, ast.Attribute) and c.func.attr in ("append", "addfront") and c.args and isinstance(c.args[0], ast.Call) \
                    and (dotted(c.args[0].func) or "").startswith("ir.") and not (isinstance(c.func.value, ast.Name) and c.func.value.id in children):
                marks.append(c)

        def call_sites(fn):
            return [c for c in ast.walk(br) if isinstance(c, ast.Call) and isinstance(c.func, ast.Name) and c.func.id == fn.name]

        def anchors(node, depth=0):
            """positions in the handler's OWN body at which `node` is executed"""
            sc = scope_of(node, br)
            if sc is None:
                return [node]
            if depth > 6 or isinstance(sc, ast.Lambda):
                return []
            out = []
            for cs in call_sites(sc):
                out += anchors(cs, depth + 1)
            return out

        for c, child in applies:
            n_ev += 1
            ok_all, why = True, ""
            sites = [(c, scope_of(c, br))]
            anc = anchors(c)
            if scope_of(c, br) is not None:
                if not anc:
                    ok_all, why = False, "helper is never called from the handler body"
                sites += [(a, None) for a in anc]
            # satisfied if at ANY level (inside the helper or at its call site in the body) a mark dominates
            def dominated(node, sc):
                root = sc or br
                ap = arm_path(node, root)
                if any(is_at_start_if(a) and arm == "orelse" for a, arm in ap):
                    return True
                for m in marks:
                    if scope_of(m, br) is not sc or m.lineno >= node.lineno:
                        continue
                    mp = arm_path(m, root)
                    while mp and is_at_start_if(mp[-1][0]) and mp[-1][1] == "body":
                        mp = mp[:-1]
                    if len(mp) <= len(ap) and all(x[0] is y[0] and x[1] == y[1] for x, y in zip(mp, ap)):
                        return True
                return False
            if ok_all:
                inner = dominated(c, scope_of(c, br))
                outer = bool(anc) and all(dominated(a, None) for a in anc) if scope_of(c, br) is not None else False
                ok_all = inner or outer
                if not ok_all:
                    why = "nothing is appended to the enclosing code before the nested body is lowered"
            run.ob(ok_all, f"_apply_impl[{hname}]", file=gen.rel, line=c.lineno, detail=f"nested-body->{child}",
                   expected="enclosing state marked as used (statement appended first / Nop under ctx.at_start()) before self.apply(<nested body>)",
                   found="ok" if ok_all else f"`{src(c)[:60]}`: {why}; an await/while in the nested body takes the empty first state (its code then runs unconditionally in state 0)",
                   sample=n_ev == 1)
    run.end()


def rule_sequencing(run):
    run.begin(
        "C01.m",
        "statements lowered one after the other continue where the previous one stopped: every loop of the IR generator "
        "that lowers the elements of a statement list (`for s in <statements>: X = self.apply(s, open_blocks=Y)`) feeds the "
        "blocks left open by one element into the next (X and Y are the same variable) - otherwise an element that ends "
        "in another state (an awaited call argument) is overtaken by the elements after it",
        floor=2,
    )
    gen = run.idx.mod(GEN)
    n = 0
    for q, f in gen.functions.items():
        if not q.startswith("IrGenerator."):
            continue
        for loop in ast.walk(f.node):
            if not isinstance(loop, ast.For) or not isinstance(loop.target, ast.Name):
                continue
            for st in loop.body:
                if isinstance(st, ast.Assign) and len(st.targets) == 1 and isinstance(st.targets[0], ast.Name) and isinstance(st.value, ast.Call) and dotted(st.value.func) == "self.apply" and st.value.args \
                        and dotted(st.value.args[0]) == loop.target.id:
                    ob = [k.value for k in st.value.keywords if k.arg == "open_blocks"] + st.value.args[1:2]
                    if not ob or not isinstance(ob[0], ast.Name):
                        continue
                    n += 1
                    ok = ob[0].id == st.targets[0].id
                    run.ob(ok, q, file=gen.rel, line=st.lineno, detail=f"fold-over-{src(loop.iter)[:30]}", expected=f"{ob[0].id} = self.apply({loop.target.id}, open_blocks={ob[0].id})",
                           found=src(st)[:80], sample=n == 1)
    run.end()


def rule_if_merge(run):
    c03.rule_if_merge(run)


def rule_reset_after_lowering(run):
    """The state signal of a coroutine comes into existence when the Statemachine is lowered to case/when; the set of
    signals a reset_context marker resets is collected by _pushed_resettable_signals() from the statements of the
    context.  Collected before the lowering, the state signal is not in the set: a reset leaves the coroutine mid-body."""
    run.begin("C01.n", "Sequential.__init__ collects the resettable signals after the state machines are lowered (the state signal is one of them)", floor=1)
    rp = run.idx.mod("cohdl/_core/_ir/_repr.py")
    init = rp.func("Sequential.__init__")
    lower = None
    for q, f in rp.functions.items():
        if q.startswith("Sequential.__init__.<locals>.") and any(isinstance(c.func, ast.Attribute) and c.func.attr == "as_case_when" for c in calls_in(f.node)):
            lower = f.node.name
    if lower is None:
        raise AnalysisError("anchor vanished: lowering of Statemachine in Sequential.__init__")
    order = []
    for c in walk_ordered(init.node):
        if isinstance(c, ast.Call) and isinstance(c.func, ast.Attribute):
            if c.func.attr == "visit" and c.args and dotted(c.args[0]) == lower:
                order.append(("lower", c.lineno))
            elif c.func.attr == "_pushed_resettable_signals":
                order.append(("collect", c.lineno))
    kinds = [k for k, _ in order]
    if "lower" not in kinds or "collect" not in kinds:
        raise AnalysisError("anchor vanished: lowering visit / _pushed_resettable_signals() in Sequential.__init__")
    ok = kinds.index("lower") < kinds.index("collect")
    run.ob(ok, "Sequential.__init__", file=rp.rel, line=dict(order)["collect"], detail="collect-after-lowering",
           expected=f"code.visit({lower}) precedes self._pushed_resettable_signals()", found="ok" if ok else "resettable signals are collected before the state signal exists: reset does not restart the coroutine")
    run.end()


RULES = [rule_transitions, rule_states, rule_edges, rule_fail_closed, rule_loop_state, rule_clock_costs, rule_if_merge, rule_straight_line, rule_with_exit, rule_return_paths, rule_empty_block, rule_call_and_await, rule_state_root, rule_not_a_return, rule_at_start, rule_sequencing, rule_reset_after_lowering]
LEVEL = "other"
EXPLANATION = (
    "Only the structural core of the coroutine->state-machine translation is decided: transitions are front-inserted "
    "(4+ construction sites), every created state is registered, back-edge/loop-entry/restart transitions exist for "
    "all open blocks and are lowered over all states, dispatchers are fail-closed, loop bookkeeping is restored "
    "pairwise, every one-clock construct creates a state with the documented start-of-process exception, and the "
    "if/else merge keeps all open blocks. NOT decided (no static argument in reach): clock counts on arbitrary paths, "
    "equality of per-clock traces with the Python coroutine, anything about values."
)
ASSUMPTIONS = [
    "VHDL: the last signal assignment executed in a process activation wins",
    "the lowering discipline stated in the generator's comments (transition first, so that a later await can override it)",
]
