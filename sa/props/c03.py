"""C03 - sequential and concurrent contexts obey hardware assignment semantics.

Decided (structure of the assignment pipeline, for all programs at once):
  C03.a   the 9-stage assignment chain `<<= / ^= / @=` -> dunder -> property -> replacement ->
          AssignMode -> out.Assign -> ir.* -> vhdl.* -> `<=` / `:=` agrees at every stage
  C03.b   reset_pushed dominates the step in every std.sequential wrapper and expands over exactly
          the roots accessed with PUSH
  C03.d   same-activation alias of locally constructed signals: keyed by root, READ only
  C03.e   run-time element access captures the index in a temporary that the reference uses
  C03.f   if/else lowering: the two asymmetric merge cases are mirror images (no branch's open
          blocks are dropped)
"""

from __future__ import annotations

import ast
import copy

from ..astutil import AnalysisError, dotted, src, walk_local, walk_ordered, calls_in, norm
from .. import pattern as P
from ..rules import optable as ot

TQ = "cohdl/_core/_type_qualifier.py"
PREP = "cohdl/_compiler/frontend/_prepare_ast.py"
GEN = "cohdl/_compiler/frontend/_generate_ir.py"
IRR = "cohdl/_core/_ir/_repr.py"
ASM = "cohdl/_compiler/backend/vhdl/_vhdl_assembler.py"
VH = "cohdl/_compiler/backend/vhdl/_vhdl_repr.py"
STDCTX = "cohdl/std/_context.py"

# documented table: operator -> (dunder, python property, AssignMode, ir class, vhdl class, token)
DOC = {
    "LShift": ("__ilshift__", "next", "NEXT", "SignalAssignment", "SignalAssignment", "<="),
    "BitXor": ("__ixor__", "push", "PUSH", "SignalPush", "SignalAssignment", "<="),
    "MatMult": ("__imatmul__", "value", "VALUE", "VariableAssignment", "VariableAssignment", ":="),
}
OWNER = {"__ilshift__": "Signal", "__ixor__": "Signal", "__imatmul__": "Variable"}


def _if_chain(node):
    out = []
    while isinstance(node, ast.If):
        out.append(node)
        if len(node.orelse) == 1 and isinstance(node.orelse[0], ast.If):
            node = node.orelse[0]
        else:
            out.append(node.orelse)
            break
    return out


def rule_chain(run):
    run.begin(
        "C03.a",
        "assignment pipeline: `<<=`/`^=`/`@=` -> __ilshift__/__ixor__/__imatmul__ -> .next/.push/.value -> setter "
        "replacement -> AssignMode NEXT/PUSH/VALUE -> out.Assign -> ir.SignalAssignment/SignalPush/VariableAssignment "
        "-> vhdl.SignalAssignment/VariableAssignment -> `<=`/`:=` ; every stage agrees with the documented table",
        floor=40,
    )
    idx = run.idx
    prep = idx.mod(PREP)
    # stage 1: _do_aug_assign
    f = prep.func("PrepareAst._do_aug_assign")
    first = [s for s in f.node.body if isinstance(s, ast.If)]
    if not first:
        raise AnalysisError("anchor vanished: operator chain of _do_aug_assign")
    chain = _if_chain(first[0])
    seen = {}
    for br in chain:
        if isinstance(br, list):
            ok = bool(br) and isinstance(br[-1], ast.Raise)
            run.ob(ok, "PrepareAst._do_aug_assign", file=prep.rel, line=f.node.lineno, detail="fail-closed",
                   expected="unknown assignment operator raises", found="raise" if ok else "falls through")
            continue
        t = br.test
        if not (isinstance(t, ast.Call) and dotted(t.func) == "isinstance" and dotted(t.args[0]) == "op"):
            raise AnalysisError(f"unrecognised test in _do_aug_assign: {src(t)}")
        opname = dotted(t.args[1]).split(".")[-1]
        calls = [c for c in calls_in(br.body) if dotted(c.func) == "self.subcall"]
        dunder = dotted(calls[0].args[0]).split(".")[-1] if calls else None
        seen[opname] = dunder
        exp = DOC.get(opname, (None,))[0]
        run.ob(dunder == exp, "PrepareAst._do_aug_assign", file=prep.rel, line=br.lineno, detail=opname,
               expected=f"{opname} -> target.{exp}", found=f"{opname} -> {dunder}")
        if calls:
            ok = dotted(calls[0].args[0]).split(".")[0] == "target" and P.T(calls[0].args[1]) == "[src]"
            run.ob(ok, "PrepareAst._do_aug_assign", file=prep.rel, line=br.lineno, detail=opname + ".args",
                   expected="subcall(target.<dunder>, [src], {})", found=src(calls[0])[:70])
    for opname in DOC:
        if opname not in seen:
            run.ob(False, "PrepareAst._do_aug_assign", file=prep.rel, line=f.node.lineno, detail=opname, expected="handled", found="missing")

    tq = idx.mod(TQ)
    for opname, (dunder, prop, mode, ircls, vcls, token) in DOC.items():
        owner = OWNER[dunder]
        # stage 2: python-side dunder sets its own property and returns self
        d = tq.func(f"{owner}.{dunder}")
        sets = [n for n in walk_local(d.node) if isinstance(n, ast.Assign) and isinstance(n.targets[0], ast.Attribute) and dotted(n.targets[0].value) == "self"]
        got = sets[0].targets[0].attr if sets else None
        run.ob(got == prop and len(sets) == 1, f"{owner}.{dunder}", file=tq.rel, line=d.node.lineno, detail="python-side",
               expected=f"self.{prop} = value", found=src(sets[0]) if sets else "no assignment")
        rets = [r for r in walk_local(d.node) if isinstance(r, ast.Return)]
        run.ob(bool(rets) and dotted(rets[-1].value) == "self", f"{owner}.{dunder}", file=tq.rel, line=d.node.lineno, detail="returns-self",
               expected="return self", found=src(rets[-1]) if rets else "none")
        # property setter performs the trial assignment
        setters = [g for g in tq.funcs_named(f"{owner}.{prop}") if any(dotted(x) == f"{prop}.setter" for x in g.node.decorator_list)]
        if not setters:
            raise AnalysisError(f"anchor vanished: setter of {owner}.{prop}")
        st = setters[0]
        ok = any(isinstance(c.func, ast.Attribute) and c.func.attr == "_assign" and dotted(c.func.value) == "self._value" for c in calls_in(st.node))
        run.ob(ok, f"{owner}.{prop}.setter", file=tq.rel, line=st.node.lineno, detail="trial-assign", expected="self._value._assign(_decay(value))", found="ok" if ok else "missing")
        # stage 3: registry: both the dunder and the property setter map to the same replacement
        repl_name = f"_{prop}_setter_replacement"
        repl = tq.func(f"{owner}.{repl_name}")
        deco_ok = any(isinstance(x, ast.Call) and dotted(x.func) == "_intrinsic_replacement" and dotted(x.args[0]) == f"{prop}.fset"
                      and any(k.arg == "assignment_spec" and P.T(k.value) == "(0, 1)" for k in x.keywords) for x in repl.node.decorator_list)
        run.ob(deco_ok, f"{owner}.{repl_name}", file=tq.rel, line=repl.node.lineno, detail="registered-for-setter",
               expected=f"@_intrinsic_replacement({prop}.fset, assignment_spec=(0, 1))", found="ok" if deco_ok else "changed")
        cls = tq.cls(owner)
        reg = None
        for s in cls.body:
            if isinstance(s, ast.Expr) and isinstance(s.value, ast.Call) and isinstance(s.value.func, ast.Call) and dotted(s.value.func.func) == "_intrinsic_replacement":
                inner = s.value.func
                if dotted(inner.args[0]) == dunder:
                    reg = (dotted(s.value.args[0]), any(k.arg == "assignment_spec" and P.T(k.value) == "(0, 1)" for k in inner.keywords), s.lineno)
        run.ob(reg is not None and reg[0] == repl_name and reg[1], f"{owner}.{dunder}", file=tq.rel, line=(reg[2] if reg else cls.lineno), detail="registered-for-dunder",
               expected=f"_intrinsic_replacement({dunder}, assignment_spec=(0, 1))({repl_name})", found=str(reg))
        # stage 4: the replacement returns _IntrinsicAssignment(self, ..., AssignMode.X) after the trial assignment
        rets = [r for r in walk_ordered(repl.node) if isinstance(r, ast.Return) and isinstance(r.value, ast.Call) and (dotted(r.value.func) or "").endswith("_IntrinsicAssignment")]
        if not rets:
            raise AnalysisError(f"{repl_name}: no _IntrinsicAssignment returned")
        for r in rets:
            a = r.value.args
            ok = dotted(a[0]) == "self" and dotted(a[2]) == f"AssignMode.{mode}"
            run.ob(ok, f"{owner}.{repl_name}", file=tq.rel, line=r.lineno, detail=f"mode@{src(a[1])[:20]}",
                   expected=f"_IntrinsicAssignment(self, <value>, AssignMode.{mode})", found=src(r.value)[:80])
        trial = [c for c in walk_ordered(repl.node) if isinstance(c, ast.Call) and isinstance(c.func, ast.Attribute) and c.func.attr == "_assign" and dotted(c.func.value) == "self._value"]
        ok = bool(trial) and all(trial[0].lineno < r.lineno for r in rets)
        run.ob(ok, f"{owner}.{repl_name}", file=tq.rel, line=repl.node.lineno, detail="trial-before-node",
               expected="self._value._assign(inp_value) precedes the returned assignment node", found="ok" if ok else "missing/late")

    # stage 5: convert_intrinsic mode -> out.Assign mode (1:1)
    ci = prep.func("PrepareAst.convert_intrinsic")
    br = ot.find_branch(ci.node, ot.isinstance_test("result", "intr_op._IntrinsicAssignment"))
    if br is None:
        raise AnalysisError("anchor vanished: _IntrinsicAssignment branch of convert_intrinsic")
    n = 0
    rv = dotted(br.test.args[0])  # the dispatch variable (the intrinsic's result), whatever it is called
    for sub in br.body:
        if isinstance(sub, ast.If) and isinstance(sub.test, ast.Compare) and dotted(sub.test.left) == f"{rv}.mode":
            m_in = dotted(sub.test.comparators[0]).split(".")[-1]
            calls = ot.ctor_calls_in(sub.body, "out.Assign")
            if not calls:
                raise AnalysisError("out.Assign not constructed in mode branch")
            c = calls[0]
            m_out = dotted(c.args[2]).split(".")[-1]
            ok = m_in == m_out and dotted(c.args[0]) == f"{rv}.target" and dotted(c.args[1]) == f"{rv}.source"
            run.ob(ok, "convert_intrinsic[_IntrinsicAssignment]", file=prep.rel, line=sub.lineno, detail=m_in,
                   expected=f"out.Assign(result.target, result.source, AssignMode.{m_in}, [])", found=src(c)[:80])
            n += 1
    if n < 3:
        raise AnalysisError("mode dispatch of convert_intrinsic not recognised")
    ok = isinstance(br.body[-1], ast.Raise)
    run.ob(ok, "convert_intrinsic[_IntrinsicAssignment]", file=prep.rel, line=br.lineno, detail="fail-closed", expected="unknown mode raises", found="raise" if ok else "falls through")

    # stage 6: _apply_impl
    gen = idx.mod(GEN)
    ai = gen.func("IrGenerator._apply_impl")
    br = ot.find_branch(ai.node, ot.isinstance_test("inp", "out.Assign"))
    if br is None:
        raise AnalysisError("anchor vanished: out.Assign branch of _apply_impl")
    auto = None
    disp = None
    for s in br.body:
        if isinstance(s, ast.If) and isinstance(s.test, ast.Compare) and dotted(s.test.left) == "mode":
            if dotted(s.test.comparators[0]) == "AssignMode.AUTO":
                auto = s
            else:
                disp = s
    if auto is None or disp is None:
        raise AnalysisError("mode dispatch of _apply_impl not recognised")
    auto_map = {}
    for b in _if_chain(auto.body[0]):
        if isinstance(b, list):
            run.ob(bool(b) and isinstance(b[-1], ast.Raise), "_apply_impl[out.Assign].AUTO", file=gen.rel, line=auto.lineno, detail="fail-closed", expected="raise", found="raise" if b and isinstance(b[-1], ast.Raise) else "falls through")
            continue
        kind = dotted(b.test.args[1])
        m = [dotted(a.value).split(".")[-1] for a in b.body if isinstance(a, ast.Assign)]
        auto_map[kind] = m[0] if m else None
    exp_auto = {"Signal": "NEXT", "Temporary": "_TEMP", "Variable": "VALUE"}
    for k, v in exp_auto.items():
        run.ob(auto_map.get(k) == v, "_apply_impl[out.Assign].AUTO", file=gen.rel, line=auto.lineno, detail=k, expected=f"{k} -> {v}", found=f"{k} -> {auto_map.get(k)}")
    # order: Signal must be tested before Temporary/Variable is irrelevant (disjoint classes) -> not constrained
    mode_map = {}
    for b in _if_chain(disp):
        if isinstance(b, list):
            run.ob(bool(b) and isinstance(b[-1], ast.Raise), "_apply_impl[out.Assign]", file=gen.rel, line=disp.lineno, detail="fail-closed", expected="raise", found="raise" if b and isinstance(b[-1], ast.Raise) else "falls through")
            continue
        m = dotted(b.test.comparators[0]).split(".")[-1]
        if m == "_TEMP":
            inner = _if_chain(b.body[0])
            seq = [dotted(c.func).split(".")[-1] for c in calls_in(inner[0].body) if (dotted(c.func) or "").startswith("ir.")]
            conc = [dotted(c.func).split(".")[-1] for c in calls_in(inner[1]) if (dotted(c.func) or "").startswith("ir.")]
            is_seq = "SEQUENTIAL" in P.T(inner[0].test)
            mode_map["_TEMP"] = (seq, conc) if is_seq else (conc, seq)
        else:
            cs = [c for c in calls_in(b.body) if (dotted(c.func) or "").startswith("ir.")]
            mode_map[m] = [dotted(c.func).split(".")[-1] for c in cs]
            for c in cs:
                ok = [dotted(a) for a in c.args] == ["target", "value"]
                run.ob(ok, "_apply_impl[out.Assign]", file=gen.rel, line=c.lineno, detail=m + ".args", expected="(target, value)", found=src(c)[:60])
    for opname, (dunder, prop, mode, ircls, vcls, token) in DOC.items():
        run.ob(mode_map.get(mode) == [ircls], "_apply_impl[out.Assign]", file=gen.rel, line=disp.lineno, detail=mode,
               expected=f"{mode} -> ir.{ircls}", found=f"{mode} -> {mode_map.get(mode)}")
    run.ob(mode_map.get("_TEMP") == (["VariableAssignment"], ["SignalAssignment"]), "_apply_impl[out.Assign]", file=gen.rel, line=disp.lineno, detail="_TEMP",
           expected="sequential: VariableAssignment, concurrent: SignalAssignment", found=str(mode_map.get("_TEMP")))
    # every open block receives the assignment
    loops = [n for n in walk_local(disp) if isinstance(n, ast.For)]
    ok = bool(loops) and all(dotted(l.iter) == "open_blocks" for l in loops)
    run.ob(ok, "_apply_impl[out.Assign]", file=gen.rel, line=disp.lineno, detail="all-open-blocks", expected="appended to every open block", found="ok" if ok else "changed")

    # stage 7: assembler
    asm = idx.mod(ASM)
    ap = asm.func("_StmtAssembler.apply")
    br = ot.find_branch(ap.node, lambda t: isinstance(t, ast.Call) and dotted(t.func) == "isinstance" and "ir.SignalAssignment" in P.T(t))
    if br is None:
        raise AnalysisError("anchor vanished: assignment branch of the assembler")
    kind_map = {}
    for b in _if_chain([s for s in br.body if isinstance(s, ast.If)][0]):
        if isinstance(b, list):
            continue
        cls = dotted(b.test.args[1]).split(".")[-1]
        vals = [a.value.value for a in b.body if isinstance(a, ast.Assign) and dotted(a.targets[0]) == "is_signal_assign" and isinstance(a.value, ast.Constant)]
        kind_map[cls] = vals[0] if vals else None
    exp = {"SignalAssignment": True, "SignalPush": True, "VariableAssignment": False}
    for k, v in exp.items():
        run.ob(kind_map.get(k) is v, "_StmtAssembler.apply[assign]", file=asm.rel, line=br.lineno, detail=k,
               expected=f"ir.{k} -> {'vhdl.SignalAssignment' if v else 'vhdl.VariableAssignment'}", found=str(kind_map.get(k)))
    fin = [s for s in br.body if isinstance(s, ast.If) and dotted(s.test) == "is_signal_assign"]
    if not fin:
        raise AnalysisError("final dispatch on is_signal_assign not found")
    t_calls = ot.ctor_calls_in(fin[0].body, "vhdl.SignalAssignment")
    f_calls = ot.ctor_calls_in(fin[0].orelse, "vhdl.VariableAssignment")
    ok = len(t_calls) == 1 and len(f_calls) == 1
    run.ob(ok, "_StmtAssembler.apply[assign]", file=asm.rel, line=fin[0].lineno, detail="constructors", expected="True: vhdl.SignalAssignment, False: vhdl.VariableAssignment", found="ok" if ok else "changed")
    for c in t_calls + f_calls:
        ok = P.T(c.args[0]) == "vhdl.Target(inp._target)" and P.T(c.args[1]) == "vhdl.Value(inp._source)"
        run.ob(ok, "_StmtAssembler.apply[assign]", file=asm.rel, line=c.lineno, detail=dotted(c.func) + ".args", expected="(vhdl.Target(inp._target), vhdl.Value(inp._source))", found=src(c)[:80])
    # assign_temporary: concurrent -> signal assignment, else variable assignment
    at = asm.func("assign_temporary")
    iff = [s for s in at.node.body if isinstance(s, ast.If)]
    ok = bool(iff) and "Context.CONCURRENT" in P.T(iff[0].test) and ot.ctor_calls_in(iff[0].body, "vhdl.SignalAssignment") and ot.ctor_calls_in(iff[0].orelse, "vhdl.VariableAssignment")
    run.ob(bool(ok), "assign_temporary", file=asm.rel, line=at.node.lineno, detail="by-context", expected="concurrent: signal assignment, sequential: variable assignment", found="ok" if ok else "changed")

    # stage 8: writers
    vh = idx.mod(VH)
    for cls, token in (("SignalAssignment", "<="), ("VariableAssignment", ":=")):
        w = vh.func(f"{cls}.write")
        rets = [r for r in walk_local(w.node) if isinstance(r, ast.Return) and isinstance(r.value, ast.JoinedStr)]
        if not rets:
            raise AnalysisError(f"{cls}.write: template not found")
        for r in rets:
            consts = [v.value for v in r.value.values if isinstance(v, ast.Constant)]
            names = [src(v.value) for v in r.value.values if isinstance(v, ast.FormattedValue)]
            ok = consts[:1] == [f" {token} "] and names[0] == "target" and consts[-1] == ";"
            run.ob(ok, f"vhdl.{cls}.write", file=vh.rel, line=r.lineno, detail="template", expected=f"<target> {token} <source>;", found=src(r.value)[:70])

    # stage 9: _assign_replacement dispatch
    ar = tq.func("TypeQualifier._assign_replacement")
    t = P.T(ar.node)
    pairs = {"NEXT": "_next_setter_replacement", "PUSH": "_push_setter_replacement", "VALUE": "_value_setter_replacement"}
    for s in walk_local(ar.node):
        if isinstance(s, ast.If) and isinstance(s.test, ast.Compare) and dotted(s.test.left) == "assign_mode":
            m = dotted(s.test.comparators[0]).split(".")[-1]
            if m in pairs:
                rets = [r for r in s.body if isinstance(r, ast.Return)]
                got = dotted(rets[0].value.func).split(".")[-1] if rets and isinstance(rets[0].value, ast.Call) else None
                run.ob(got == pairs[m], "TypeQualifier._assign_replacement", file=tq.rel, line=s.lineno, detail=m, expected=pairs[m], found=str(got))
    run.end()


def rule_pushed(run):
    run.begin(
        "C03.b",
        "push semantics: every std.sequential wrapper issues cohdl.reset_pushed() before the step; reset_pushed "
        "expands to default assignments of exactly the roots accessed with PUSH (not conditional on noreset/default "
        "of the reset set); pushing requires a default",
        floor=8,
    )
    idx = run.idx
    sc = idx.mod(STDCTX)
    wrappers = [f for q, f in sc.functions.items() if q.startswith("_sequential_impl.") and q.split(".")[-1].split("#")[0] == "wrapper"
                and any((dotted(c.func) or "") in ("cohdl.coroutine_step", "fn") for c in calls_in(f.node))]
    if len(wrappers) < 4:
        raise AnalysisError(f"expected 4 step wrappers in _sequential_impl, found {len(wrappers)}")
    for w in wrappers:
        order = [(dotted(c.func), c.lineno) for c in walk_ordered(w.node) if isinstance(c, ast.Call) and dotted(c.func) in ("cohdl.reset_pushed", "cohdl.coroutine_step", "fn")]
        names = [o[0] for o in order]
        ok = "cohdl.reset_pushed" in names and names.index("cohdl.reset_pushed") == 0 and names.count("cohdl.reset_pushed") == 1
        # same block nesting: reset_pushed must be in a block that encloses (or equals) the step's block
        rp = [c for c in walk_ordered(w.node) if isinstance(c, ast.Call) and dotted(c.func) == "cohdl.reset_pushed"]
        steps = [c for c in walk_ordered(w.node) if isinstance(c, ast.Call) and dotted(c.func) in ("cohdl.coroutine_step", "fn")]
        dom = False
        if rp:
            pm = sc.parents
            rp_stmt = pm.enclosing_stmt(rp[0])
            block = getattr(pm.of(rp_stmt), pm.field_of(rp_stmt))
            after = block[block.index(rp_stmt) + 1:]
            dom = all(any(any(x is s for x in ast.walk(a)) for a in after) for s in steps)
        run.ob(ok and dom, f"_sequential_impl.{w.qualname.split('.<locals>.')[-2] if '.<locals>.' in w.qualname else ''}.wrapper@{w.node.lineno - sc.func('_sequential_impl').node.lineno}",
               file=sc.rel, line=w.node.lineno, detail="reset_pushed-dominates-step",
               expected="cohdl.reset_pushed() is executed on every path to coroutine_step / fn()", found=str(names))
    rp = idx.mod(IRR)
    f = rp.func("Sequential._pushed_resettable_signals")
    v = rp.func("Sequential._pushed_resettable_signals.<locals>.visit_objects")
    ifs = [s for s in v.node.body if isinstance(s, ast.If)]
    push_if = [s for s in ifs if src(s.test) in ("access & AccessFlags.PUSH", "AccessFlags.PUSH & access", "access is AccessFlags.PUSH")]
    # the set the _ResetPushed expansion iterates (whatever it is called)
    vs = rp.func("Sequential._pushed_resettable_signals.<locals>.visit_statements")
    brp = [s for s in walk_local(vs.node) if isinstance(s, ast.If) and "_ResetPushed" in src(s.test)]
    pushed_set = None
    if brp:
        for c in ast.walk(brp[0]):
            if isinstance(c, ast.ListComp) and isinstance(c.generators[0].iter, ast.Name):
                pushed_set = c.generators[0].iter.id
    if pushed_set is None:
        raise AnalysisError("anchor vanished: set iterated by the _ResetPushed expansion")
    ok = bool(push_if) and any(isinstance(c.func, ast.Attribute) and dotted(c.func) == f"{pushed_set}.add" and src(c.args[0]) == "obj._root" for c in calls_in(push_if[0].body))
    run.ob(ok, "Sequential._pushed_resettable_signals", file=rp.rel, line=v.node.lineno, detail="pushed-collection",
           expected="top-level `if access & AccessFlags.PUSH: pushed.add(obj._root)` (unconditional on default/noreset)",
           found="ok" if ok else "changed: " + "; ".join(src(s.test) for s in ifs))
    vs = rp.func("Sequential._pushed_resettable_signals.<locals>.visit_statements")
    brp = [s for s in walk_local(vs.node) if isinstance(s, ast.If) and "_ResetPushed" in P.T(s.test)]
    ok = False
    if brp:
        comp = [c for c in ast.walk(brp[0]) if isinstance(c, ast.ListComp)]
        ok = bool(comp) and dotted(comp[0].generators[0].iter) == pushed_set and "SignalAssignment(sig, sig.default()" in P.T(comp[0].elt).replace(comp[0].generators[0].target.id, "sig") and not comp[0].generators[0].ifs
    run.ob(ok, "Sequential._pushed_resettable_signals", file=rp.rel, line=(brp[0].lineno if brp else vs.node.lineno), detail="reset_pushed-expansion",
           expected="[SignalAssignment(sig, sig.default(), ...) for sig in pushed]", found="ok" if ok else "changed")
    applied = any(isinstance(c.func, ast.Attribute) and c.func.attr == "visit_objects" and dotted(c.args[0]) == "visit_objects" for c in calls_in(f.node)) and \
        any(isinstance(c.func, ast.Attribute) and c.func.attr == "visit" and dotted(c.args[0]) == "visit_statements" for c in calls_in(f.node))
    run.ob(applied, "Sequential._pushed_resettable_signals", file=rp.rel, line=f.node.lineno, detail="applied", expected="collect over all objects, then rewrite statements", found="ok" if applied else "changed")
    tq = idx.mod(TQ)
    r = tq.func("Signal._push_setter_replacement")
    ok = any(isinstance(a, ast.Assert) and "self._default is not None" in P.T(a.test) for a in walk_local(r.node))
    run.ob(ok, "Signal._push_setter_replacement", file=tq.rel, line=r.node.lineno, detail="requires-default", expected="assert self._default is not None", found="ok" if ok else "missing")
    run.end()


def rule_alias(run):
    run.begin(
        "C03.d",
        "same-activation alias of a locally constructed signal: emitted only for Signal in a SEQUENTIAL context "
        "without delayed_init; reads (only reads) of any view of the signal are redirected, keyed by the root",
        floor=6,
    )
    idx = run.idx
    rp = idx.mod(IRR)
    ap = rp.func("CodeBlock._fix_alias.<locals>.apply_alias")
    # the alias map, whatever it is called: the dict collect_alias fills with signal -> replacement
    ca0 = rp.func("CodeBlock._fix_alias.<locals>.collect_alias")
    found = P.find(ca0.node, "__m[node.signal] = node.replacement")
    if not found:
        raise AnalysisError("anchor vanished: alias map filled by collect_alias")
    amap = found[0][1]["__m"]
    conds = [s for s in walk_local(ap.node) if isinstance(s, ast.If)]
    t = [src(c.test) for c in conds]
    read_only = any("access is AccessFlags.READ" in x for x in t)
    run.ob(read_only, "CodeBlock._fix_alias.apply_alias", file=rp.rel, line=ap.node.lineno, detail="read-only", expected="only READ accesses are redirected", found="; ".join(t)[:100])
    keyed = any(x.strip() == f"obj._root in {amap}" for x in t)
    run.ob(keyed, "CodeBlock._fix_alias.apply_alias", file=rp.rel, line=ap.node.lineno, detail="keyed-by-root", expected="`obj._root in alias_map` (slices and elements of the signal are redirected too)", found="; ".join(t)[:100])
    rets = [r for r in walk_local(ap.node) if isinstance(r, ast.Return) and isinstance(r.value, ast.Call)]
    ok = False
    for r in rets:
        kws = {k.arg: src(k.value) for k in r.value.keywords}
        if kws.get("_root") == f"{amap}[obj._root]" and kws.get("_ref_spec") == "obj._ref_spec" and P.T(r.value.func) == "Temporary[obj.type]" and P.T(r.value.args[0]) == "obj._value":
            ok = True
    run.ob(ok, "CodeBlock._fix_alias.apply_alias", file=rp.rel, line=ap.node.lineno, detail="view-preserved",
           expected="Temporary[obj.type](obj._value, _root=alias_map[obj._root], _ref_spec=obj._ref_spec)", found="ok" if ok else "; ".join(src(r.value)[:80] for r in rets))
    ca = rp.func("CodeBlock._fix_alias.<locals>.collect_alias")
    ok = "alias_map[node.signal] = node.replacement" in P.T(ca.node)
    run.ob(ok, "CodeBlock._fix_alias.collect_alias", file=rp.rel, line=ca.node.lineno, detail="map", expected="alias_map[node.signal] = node.replacement", found="ok" if ok else "changed")
    fa = rp.func("CodeBlock._fix_alias")
    order = [dotted(c.args[0]) for c in walk_ordered(fa.node) if isinstance(c, ast.Call) and isinstance(c.func, ast.Attribute) and c.func.attr in ("visit", "visit_objects") and c.args]
    run.ob(order == ["collect_alias", "apply_alias"], "CodeBlock._fix_alias", file=rp.rel, line=fa.node.lineno, detail="collect-then-apply", expected="visit(collect_alias) then visit_objects(apply_alias)", found=str(order))
    prep = idx.mod(PREP)
    ci = prep.func("PrepareAst.convert_intrinsic")
    sa = [c for c in ast.walk(ci.node) if isinstance(c, ast.Call) and dotted(c.func) == "out.SignalAlias"]
    if len(sa) != 1:
        raise AnalysisError("out.SignalAlias construction not found")
    guard = None
    for anc in prep.parents.ancestors(sa[0]):
        if isinstance(anc, ast.If) and "delayed_init" in P.T(anc.test):
            guard = anc
            break
    gt = P.T(guard.test) if guard else ""
    ok = guard is not None and "not result.delayed_init" in gt and "isinstance(result.new_obj, Signal)" in gt and "ContextType.SEQUENTIAL" in gt
    run.ob(ok, "convert_intrinsic[_IntrinsicDeclaration]", file=prep.rel, line=sa[0].lineno, detail="alias-guard",
           expected="not delayed_init and Signal and SEQUENTIAL", found=gt[:100])
    # out.SignalAlias(<declared object>, <fresh alias built for it>, ..): the alias is a local constructed in this branch
    ok = len(sa[0].args) >= 2 and P.T(sa[0].args[0]) == "result.new_obj" and isinstance(sa[0].args[1], ast.Name) and \
        any(isinstance(a, ast.Assign) and dotted(a.targets[0]) == sa[0].args[1].id for a in ast.walk(guard or ci.node))
    run.ob(ok, "convert_intrinsic[_IntrinsicDeclaration]", file=prep.rel, line=sa[0].lineno, detail="alias-args", expected="out.SignalAlias(result.new_obj, signal_alias, [])", found=src(sa[0])[:70])
    run.end()


def rule_index_capture(run):
    run.begin(
        "C03.e",
        "run-time element access captures the index at access time: the element reference is built from a fresh "
        "temporary, and that temporary is assigned the index when the access is evaluated",
        floor=4,
    )
    idx = run.idx
    tq = idx.mod(TQ)
    f = tq.func("TypeQualifier.__getitem_replacement")
    rets = [r for r in ast.walk(f.node) if isinstance(r, ast.Return) and isinstance(r.value, ast.Call) and (dotted(r.value.func) or "").endswith("_IntrinsicElemAccess")]
    if len(rets) != 1:
        raise AnalysisError("_IntrinsicElemAccess construction not found")
    r = rets[0]
    block = getattr(tq.parents.of(r), tq.parents.field_of(r))
    assigns = {a.targets[0].id: a.value for a in block if isinstance(a, ast.Assign) and isinstance(a.targets[0], ast.Name)}
    obj_n, index_n, temp_n = [dotted(a) for a in r.value.args]
    temp_v = assigns.get(temp_n)
    # no arguments at all: in particular not maybe_uninitialized=True, which exempts the temporary from the
    # definite-assignment pass (a stored reference v[idx] used in another branch / state would read a stale index)
    ok = isinstance(temp_v, ast.Call) and src(temp_v.func).startswith("Temporary[") and not temp_v.args and not temp_v.keywords
    run.ob(ok, "TypeQualifier.__getitem_replacement", file=tq.rel, line=r.lineno, detail="fresh-temporary", expected="index_temp = Temporary[index.type]()", found=src(temp_v) if temp_v else "?")
    # every way out of the run-time-index branch is that access: a named Signal/Variable used as the index
    # directly (no capture) would make a stored reference follow later writes of the index
    for other in ast.walk(f.node):
        if not isinstance(other, ast.Return) or other is r:
            continue
        child, under = other, False
        for anc in tq.parents.ancestors(other):
            if isinstance(anc, ast.If) and child in anc.body and "TypeQualifier" in src(anc.test) and "isinstance" in src(anc.test):
                under = True
            child = anc
            if anc is f.node:
                break
        if under:
            run.ob(False, "TypeQualifier.__getitem_replacement", file=tq.rel, line=other.lineno, detail="uncaptured-index",
                   expected="a run-time index is always captured in a fresh temporary (_IntrinsicElemAccess)", found=src(other)[:90])
    obj_v = assigns.get(obj_n)
    ok = isinstance(obj_v, ast.Call) and dotted(obj_v.func) == "self.__getitem__" and dotted(obj_v.args[0]) == temp_n
    run.ob(ok, "TypeQualifier.__getitem_replacement", file=tq.rel, line=r.lineno, detail="reference-uses-temporary",
           expected=f"result = self.__getitem__({temp_n})", found=src(obj_v) if obj_v else "?")
    idx_v = assigns.get(index_n)
    ok = idx_v is not None and dotted(idx_v) == "arg"
    run.ob(ok, "TypeQualifier.__getitem_replacement", file=tq.rel, line=r.lineno, detail="index-is-argument", expected="index = arg", found=src(idx_v) if idx_v else "?")
    params = ot.intrinsic_ctor_params(idx, "_IntrinsicElemAccess")
    run.ob(params == ["obj", "index", "index_temp"], "_IntrinsicElemAccess.__init__", file=ot.INTR, line=0, detail="params", expected="(obj, index, index_temp)", found=str(params))
    prep = idx.mod(PREP)
    ci = prep.func("PrepareAst.convert_intrinsic")
    br = ot.find_branch(ci.node, ot.isinstance_test("result", "intr_op._IntrinsicElemAccess"))
    if br is None:
        raise AnalysisError("anchor vanished: _IntrinsicElemAccess branch")
    rv = dotted(br.test.args[0])  # the dispatch variable, whatever it is called
    calls = ot.ctor_calls_in(br.body, "out.Assign")
    ok = len(calls) == 1 and [src(a) for a in calls[0].args[:2]] == [f"{rv}.index_temp", f"{rv}.index"]
    run.ob(ok, "convert_intrinsic[_IntrinsicElemAccess]", file=prep.rel, line=br.lineno, detail="capture-assignment",
           expected="out.Assign(result.index_temp, result.index, AUTO) bound to the access", found=src(calls[0])[:80] if calls else "missing")
    run.end()


class _Swap(ast.NodeTransformer):
    def __init__(self, a, b):
        self.a, self.b = a, b

    def visit_Name(self, node):
        i = node.id
        if self.a in i:
            i = i.replace(self.a, "\0")
        if self.b in i:
            i = i.replace(self.b, self.a)
        i = i.replace("\0", self.b)
        return ast.copy_location(ast.Name(id=i, ctx=node.ctx), node)


def rule_if_merge(run):
    run.begin(
        "C03.f",
        "if/else lowering merges the open blocks of both branches: the two asymmetric cases (transition only in the "
        "else part / only in the body) are mirror images under body<->orelse, and the symmetric cases take all open blocks",
        floor=3,
    )
    gen = run.idx.mod(GEN)
    ai = gen.func("IrGenerator._apply_impl")
    br = ot.find_branch(ai.node, ot.isinstance_test("inp", "out.If"))
    if br is None:
        raise AnalysisError("anchor vanished: out.If branch of _apply_impl")
    from ..astutil import chain_arms
    # the asymmetric pair: the arms `not any_body` and `not any_orelse` of one chain (however the chain spells its tail)
    pair = None
    for cand in walk_local(br):
        if isinstance(cand, ast.If):
            arms = dict(chain_arms(cand))
            if "not any_body" in arms and "not any_orelse" in arms and len(arms) == 3:
                class _Arm:
                    pass
                a, b = _Arm(), _Arm()
                a.body, b.body = arms["not any_body"], arms["not any_orelse"]
                a.lineno = b.lineno = cand.lineno
                pair = (a, b)
    if pair is None:
        raise AnalysisError("asymmetric merge cases of the If lowering not recognised (unknown idiom)")
    a, b = pair
    swapped = [_Swap("body", "orelse").visit(copy.deepcopy(s)) for s in b.body]
    ok = norm(a.body) == norm(swapped)
    run.ob(ok, "_apply_impl[out.If]", file=gen.rel, line=a.lineno, detail="mirror",
           expected="case `not any_body` == case `not any_orelse` with body<->orelse swapped",
           found="mirror images" if ok else "NOT mirror images: " + " | ".join(src(s)[:50] for s in a.body) + "  <->  " + " | ".join(src(s)[:50] for s in b.body))
    # in the first case: continue in code_body and in every open block of the else part
    loops = [l for l in a.body if isinstance(l, ast.For)]
    ok = len(loops) == 1 and dotted(loops[0].iter) == "open_orelse" and any("ret_blocks[code_body] = code_body" in P.T(s) for s in a.body)
    run.ob(ok, "_apply_impl[out.If]", file=gen.rel, line=a.lineno, detail="no-transition-in-body",
           expected="ret = {code_body} ∪ open_orelse", found=" | ".join(src(s)[:60] for s in a.body))
    # symmetric cases take everything
    alls = [l for l in walk_local(br) if isinstance(l, ast.For) and src(l.iter).replace(" ", "") == "[*open_body,*open_orelse]"]
    run.ob(len(alls) == 2, "_apply_impl[out.If]", file=gen.rel, line=br.lineno, detail="all-open-blocks",
           expected="both remaining cases continue in [*open_body, *open_orelse]", found=f"{len(alls)} such loops")
    # branch bodies are lowered into their own blocks
    t = P.T(br)
    ok = "open_body = self.apply(body, open_blocks=[code_body])" in t and "open_orelse = self.apply(orelse, open_blocks=[code_orelse])" in t
    run.ob(ok, "_apply_impl[out.If]", file=gen.rel, line=br.lineno, detail="branch-blocks", expected="body -> code_body, orelse -> code_orelse", found="ok" if ok else "changed")
    c = ot.ctor_calls_in(br.body, "ir.If")
    ok = len(c) == 1 and [src(x) for x in c[0].args] == ["test.result()", "code_body", "code_orelse"]
    run.ob(ok, "_apply_impl[out.If]", file=gen.rel, line=br.lineno, detail="ir.If-args", expected="ir.If(test.result(), code_body, code_orelse)", found=src(c[0])[:70] if c else "missing")
    run.end()


def rule_with_exit(run):
    """shared by C01 (async with), C03 (with) and C10 (context-manager protocol)"""
    run.begin(
        "C03.with",
        "with / async with: __exit__/__aexit__ runs on every path out of the block exactly once: it is bound to every "
        "return path of the body, and appended after the body unless the body returns on EVERY path (returns_always); "
        "exits run in reverse order of entry",
        floor=8,
    )
    prep = run.idx.mod(PREP)
    ai = prep.func("PrepareAst.apply_impl")
    for cls_, enter, exit_ in (("ast.With", "__enter__", "__exit__"), ("ast.AsyncWith", "__aenter__", "__aexit__")):
        br = ot.find_branch(ai.node, ot.isinstance_test("inp", cls_))
        if br is None:
            raise AnalysisError(f"anchor vanished: {cls_} handler")
        name = f"apply_impl[{cls_}]"
        loops = [l for l in ast.walk(br) if isinstance(l, ast.For) and src(l.iter).endswith("[::-1]")]
        ok = len(loops) == 1
        run.ob(ok, name, file=prep.rel, line=br.lineno, detail="reverse-order", expected="exits processed in reverse order of entry (exit_list[::-1])", found=f"{len(loops)} reversed loop(s)")
        if not loops:
            continue
        lp = loops[0]
        # the list the loop reverses is filled with (context, type(context).<exit>) for every item
        lst = dotted(lp.iter.value) if isinstance(lp.iter, ast.Subscript) else None
        ok = lst is not None and any(P.has(br, f"__l.append((__c, type(__c).{exit_}))", {"__l": lst}) for _ in (0,))
        run.ob(ok, name, file=prep.rel, line=lp.lineno, detail="exit-recorded", expected=f"every entered context is recorded with its {exit_}", found="ok" if ok else "changed")
        guard = [g for g in lp.body if isinstance(g, ast.If) and isinstance(g.test, ast.UnaryOp) and isinstance(g.test.op, ast.Not) and isinstance(g.test.operand, ast.Name)]
        if len(guard) != 1:
            raise AnalysisError(f"{cls_}: `if not <returns-always flag>:` guarding the trailing exit not recognised")
        flag = guard[0].test.operand.id
        sets = [a for a in ast.walk(lp) if isinstance(a, ast.Assign) and dotted(a.targets[0]) == flag]
        bad = []
        for a in sets:
            v = a.value
            if isinstance(v, ast.Constant) and not v.value:
                continue
            if P.match(P.compile_pattern("__f or __s.returns_always()"), v, {"__f": flag}) is not None:
                continue
            bad.append(src(a))
        run.ob(not bad and len(sets) >= 2, name, file=prep.rel, line=guard[0].lineno, detail="trailing-exit-condition",
               expected="the trailing exit is skipped only if some statement returns on every path (.returns_always())", found="; ".join(bad) or "ok")
        tail = [c for c in calls_in(guard[0]) if isinstance(c.func, ast.Attribute) and c.func.attr == "append"]
        ok = len(tail) == 1 and "subcall(fn" in src(tail[0]).replace(" ", "") .replace("self.", "") or (len(tail) == 1 and "fn" in {n.id for n in ast.walk(tail[0]) if isinstance(n, ast.Name)})
        run.ob(ok, name, file=prep.rel, line=guard[0].lineno, detail="trailing-exit", expected="exit call appended after the body", found="ok" if ok else "changed")
        rp = P.find(lp, "__rp._final_bound_statements.append(___)")
        ok = False
        for node, b in rp:
            for anc in prep.parents.ancestors(node):
                if isinstance(anc, ast.For) and isinstance(anc.target, ast.Name) and anc.target.id == b["__rp"] and src(anc.iter).endswith("._return_paths"):
                    ok = True
        run.ob(ok, name, file=prep.rel, line=lp.lineno, detail="exit-on-return-paths", expected="for return_path in stmt._return_paths: return_path._final_bound_statements.append(<exit call>)", found="ok" if ok else "missing")
    run.end()


def rule_std_assignable(run):
    run.begin(
        "C03.std",
        "std.AssignableType (Record, Array, Fixed, Enum, BitField ...): `<<=` / `.next` is NEXT, `@=` / `.value` is VALUE, "
        "`^=` / `.push` is PUSH - operator methods forward the documented AssignMode, property setters use the matching operator",
        floor=6,
    )
    at = run.idx.mod("cohdl/std/_assignable_type.py")
    ops = {"__ilshift__": "NEXT", "__imatmul__": "VALUE", "__ixor__": "PUSH"}
    for meth, mode in ops.items():
        f = at.func(f"AssignableType.{meth}")
        param = f.node.args.args[1].arg
        ok = P.has(f.node, f"self._assign_({param}, cohdl.AssignMode.{mode})") and isinstance(f.node.body[-1], ast.Return) and dotted(f.node.body[-1].value) == "self"
        modes = sorted({dotted(c.args[1]) for c in calls_in(f.node) if isinstance(c.func, ast.Attribute) and c.func.attr == "_assign_" and len(c.args) > 1})
        run.ob(ok, f"AssignableType.{meth}", file=at.rel, line=f.node.lineno, detail="mode", expected=f"self._assign_(source, AssignMode.{mode}); return self", found=str(modes))
    setters = {"next": ast.LShift, "value": ast.MatMult, "push": ast.BitXor}
    for prop, op in setters.items():
        fs = [g for g in at.funcs_named(f"AssignableType.{prop}") if any((dotted(d) or "").endswith(".setter") for d in g.node.decorator_list)]
        if len(fs) != 1:
            raise AnalysisError(f"anchor vanished: setter of AssignableType.{prop}")
        g = fs[0]
        param = g.node.args.args[1].arg
        augs = [a for a in walk_local(g.node) if isinstance(a, ast.AugAssign)]
        ok = len(augs) == 1 and isinstance(augs[0].op, op) and dotted(augs[0].target) == "self" and dotted(augs[0].value) == param
        run.ob(ok, f"AssignableType.{prop}.setter", file=at.rel, line=g.node.lineno, detail="operator", expected=f"self {'<<=' if op is ast.LShift else '@=' if op is ast.MatMult else '^='} value", found="; ".join(src(a) for a in augs) or "no augmented assignment")
    run.end()


def rule_writeback(run):
    from ..rules import roles as _roles
    _roles.run_writeback_rule(run, "F-WRITEBACK")


def rule_refspec(run):
    from . import c08
    c08.rule_refspec_reads(run)   # the index of an assignment target is READ at the access; flagged otherwise its capture is removed


def rule_all_open_blocks(run):
    run.begin(
        "C03.blocks",
        "a statement is lowered into EVERY open block (every control-flow path that reaches it): the loops "
        "`for block in open_blocks: block.append(..)` of the generator skip no block - no continue/break, no condition that "
        "depends on the block",
        floor=15,
    )
    gen = run.idx.mod(GEN)
    f = gen.func("IrGenerator._apply_impl")
    n = 0
    for l in ast.walk(f.node):
        if isinstance(l, ast.For) and dotted(l.iter) == "open_blocks" and isinstance(l.target, ast.Name):
            b = l.target.id
            apps = [c for c in ast.walk(l) if isinstance(c, ast.Call) and isinstance(c.func, ast.Attribute) and c.func.attr in ("append", "addfront") and dotted(c.func.value) == b]
            if not apps:
                continue
            n += 1
            derived = {b}
            for a in ast.walk(l):
                if isinstance(a, ast.Assign) and isinstance(a.targets[0], ast.Name) and any(isinstance(x, ast.Name) and x.id in derived for x in ast.walk(a.value)):
                    derived.add(a.targets[0].id)
            skips = [x for x in ast.walk(l) if isinstance(x, (ast.Continue, ast.Break))]
            dep = []
            for c in apps:
                for anc in gen.parents.ancestors(c):
                    if anc is l:
                        break
                    if isinstance(anc, ast.If) and any(isinstance(x, ast.Name) and x.id in derived for x in ast.walk(anc.test)):
                        dep.append(src(anc.test)[:50])
            ok = not skips and not dep
            what = (dotted(apps[0].args[0].func) if apps[0].args and isinstance(apps[0].args[0], ast.Call) else src(apps[0])[:30]) or "?"
            run.ob(ok, "_apply_impl", file=gen.rel, line=l.lineno, detail=f"{what}@{l.lineno - f.node.lineno}", expected="appended to every open block", found="ok" if ok else ("skips blocks: " + ("continue/break" if skips else f"if {dep}")), sample=False)
    if n < 15:
        raise AnalysisError(f"lowering loops over open_blocks not recognised ({n})")
    run.end()


def rule_select_default(run):
    run.begin(
        "C03.select",
        "a selected assignment with several targets takes, for target nr, branch nr of every alternative AND of the "
        "default (the default is converted per target: a Full/Null default has the width of ITS target)",
        floor=2,
    )
    gen = run.idx.mod(GEN)
    f = gen.func("IrGenerator._apply_impl")
    br = ot.find_branch(f.node, ot.isinstance_test("inp", "out.SelectWith"))
    if br is None:
        raise AnalysisError("anchor vanished: out.SelectWith branch")
    loops = [l for l in ast.walk(br) if isinstance(l, ast.For) and isinstance(l.iter, ast.Call) and dotted(l.iter.func) == "enumerate" and ".redirects" in src(l.iter)]
    if len(loops) != 1 or not isinstance(loops[0].target, ast.Tuple):
        raise AnalysisError("out.SelectWith: loop over the redirects not recognised")
    nr = loops[0].target.elts[0].id
    subs = [x for x in ast.walk(br) if isinstance(x, ast.Subscript) and src(x.value).endswith(".redirects")]
    if len(subs) < 2:
        raise AnalysisError("out.SelectWith: redirect selections not recognised")
    for k, x in enumerate(subs):
        inside = any(y is x for y in ast.walk(loops[0]))
        ok = inside and dotted(x.slice) == nr
        run.ob(ok, "_apply_impl[out.SelectWith]", file=gen.rel, line=x.lineno, detail=f"{src(x.value)[:40]}#{k}", expected=f"{src(x.value)}[{nr}] inside the per-target loop", found=src(x)[:60] + ("" if inside else " (outside the loop)"))
    run.end()


def rule_redirect_shortcut(run):
    run.begin(
        "C03.redirect",
        "an assignment whose source is a set of not yet merged alternatives is lowered through a fresh temporary and a real "
        "assignment statement (which carries the mode: <<=, ^=, @=); only when the TARGET itself is a Temporary may the "
        "alternatives be redirected straight into it - a Signal target would lose the push/next distinction (no default reset)",
        floor=1,
    )
    prep = run.idx.mod("cohdl/_compiler/frontend/_prepare_ast.py")
    f = prep.func("PrepareAst.convert_intrinsic")
    n = 0
    for c in ast.walk(f.node):
        if isinstance(c, ast.Call) and isinstance(c.func, ast.Attribute) and c.func.attr == "_redirect_values" and c.args and isinstance(c.args[0], ast.Name):
            tgt = c.args[0].id
            # is the argument the assignment's own target (not a temporary created for it)?
            fresh = any(isinstance(a, ast.Assign) and dotted(a.targets[0]) == tgt and isinstance(a.value, ast.Call) and "Temporary[" in src(a.value.func) for a in ast.walk(f.node))
            if fresh:
                continue
            n += 1
            guards = [g for g in prep.parents.ancestors(c) if isinstance(g, ast.If) and any(x is c for b in g.body for x in ast.walk(b)) and tgt in src(g.test) and "isinstance" in src(g.test)]
            ok = False
            found = "unguarded"
            if guards:
                t = guards[0].test
                found = src(t)[:80]
                ok = isinstance(t, ast.Call) and dotted(t.func) == "isinstance" and dotted(t.args[0]) == tgt and (dotted(t.args[1]) or "").split(".")[-1] == "Temporary"
            run.ob(ok, "PrepareAst.convert_intrinsic", file=prep.rel, line=c.lineno, detail=f"direct-redirect-into-{tgt}", expected=f"only under isinstance({tgt}, Temporary)", found=found)
    if n < 1:
        raise AnalysisError("convert_intrinsic: direct redirect of merged alternatives not found")
    run.end()


def rule_bound_kept(run):
    run.begin(
        "C03.bound",
        "statements bound to a statement are lowered with it - also when a nested statement list is flattened into its "
        "parent: wherever out.CodeBlock takes over the statements of a nested block, it takes over that block's bound "
        "statements first (the test of an `if` with a compile-time-constant result is bound to the taken branch: the "
        "run-time assignments made by a function called in the test belong to the program)",
        floor=1,
    )
    om = run.idx.mod("cohdl/_compiler/frontend/_prepare_ast_out.py")
    f = om.func("CodeBlock.__init__")
    n = 0
    for c in walk_local(f.node):
        if isinstance(c, ast.Call) and isinstance(c.func, ast.Attribute) and c.func.attr in ("extend", "append") and c.args and isinstance(c.args[0], ast.Call) \
                and isinstance(c.args[0].func, ast.Attribute) and c.args[0].func.attr == "statements":
            nested = dotted(c.args[0].func.value)
            n += 1
            blk = getattr(om.parents.of(om.parents.of(c)), om.parents.field_of(om.parents.of(c)))
            before = [x for x in blk if x.lineno < c.lineno]
            ok = any(isinstance(y, ast.Call) and isinstance(y.func, ast.Attribute) and y.func.attr in ("extend", "append") and y.args and isinstance(y.args[0], ast.Call)
                     and isinstance(y.args[0].func, ast.Attribute) and y.args[0].func.attr == "bound_statements" and dotted(y.args[0].func.value) == nested for x in before for y in ast.walk(x))
            run.ob(ok, "out.CodeBlock.__init__", file=om.rel, line=c.lineno, detail=f"flatten-{nested}", expected=f"{nested}.bound_statements() taken over before {nested}.statements()",
                   found="ok" if ok else f"only `{src(c)}`: what is bound to the nested block (a constant if's test and the assignments made while evaluating it) is dropped")
    if n < 1:
        raise AnalysisError("out.CodeBlock.__init__: flattening of nested blocks not found")
    run.end()


def rule_views(run):
    from ..rules import views
    views.run_rule(run, "F-VIEW")     # an assignment target that is a (nested) slice / element addresses exactly those bits, every time it is written


def rule_returns_always(run):
    from . import c10
    c10.rule_returns_always(run)      # statements (assignments) after a compound statement are dropped iff it returns on EVERY path


RULES = [rule_chain, rule_pushed, rule_alias, rule_index_capture, rule_if_merge, rule_writeback, rule_with_exit, rule_std_assignable, rule_refspec, rule_all_open_blocks, rule_select_default, rule_views, rule_returns_always, rule_redirect_shortcut, rule_bound_kept]
LEVEL = "other"
EXPLANATION = (
    "Table/shape analysis of the assignment pipeline for all programs at once: the nine hand-written stages that carry "
    "`<<=`, `^=`, `@=` (and .next/.push/.value) down to VHDL `<=` / `:=` agree with the documented table; push semantics "
    "(reset_pushed dominates the step in all four std.sequential wrappers and expands over exactly the pushed roots); "
    "the same-activation alias of locally constructed signals is root-keyed and read-only; run-time element access "
    "captures its index; the if/else lowering does not drop a branch's open blocks (mirror check). NOT decided: "
    "program-order semantics of emitted processes, first-branch-wins of CondSelect, function inlining with returns."
)
ASSUMPTIONS = [
    "documented assignment table (property statement C03)",
    "VHDL signal assignment `<=` takes effect after the process suspends, `:=` immediately (IEEE 1076)",
    "IR access flags are right (checked under C07)",
]
