"""C12 - instantiating an entity is equivalent to inlining it (structural part).

Decided: (a) the emitted interface lists the declared ports in declared order with the right mode;
(b) every formal of a port map is associated with the actual stored under the same name; (c) one
template per class per compile at all three stages (lookup before creation, stored under the looked-up
key, discarded at compile exit); (d) sub-entities are emitted before their users (post-order over an
insertion-ordered set); (e) defaults are removed from instance-driven actuals (not from the declaration);
(f) port/actual compatibility trial (C05.c); (g) only OUTPUT ports are buffered (C06.h); (h) template
info is discarded at compile exit, also after a failure (C11.b).
"""

from __future__ import annotations

import ast

from ..astutil import AnalysisError, dotted, src, walk_local, walk_ordered, calls_in, fail_closed
from .. import pattern as P
from ..rules import optable as ot

VH = "cohdl/_compiler/backend/vhdl/_vhdl_repr.py"
ASM = "cohdl/_compiler/backend/vhdl/_vhdl_assembler.py"
CTX = "cohdl/_core/_context.py"
PREP = "cohdl/_compiler/frontend/_prepare_ast.py"
GEN = "cohdl/_compiler/frontend/_generate_ir.py"
TQ = "cohdl/_core/_type_qualifier.py"


def rule_interface(run):
    run.begin(
        "C12.a",
        "entity interface: one declaration per declared port, in declaration order (dict order of the port table), with "
        "the VHDL mode of the port's direction; direction predicates and factories are consistent",
        floor=10,
    )
    vh = run.idx.mod(VH)
    f = vh.func("Entity._port_declarations")
    loops = [l for l in f.node.body if isinstance(l, ast.For)]
    ok = bool(loops) and P.T(loops[0].iter) == "self._ports.items()"
    run.ob(ok, "vhdl.Entity._port_declarations", file=vh.rel, line=f.node.lineno, detail="declared-order", expected="for name, port in self._ports.items()", found=src(loops[0].iter) if loops else "missing")
    if not loops:
        raise AnalysisError("port declaration loop not found")
    chain = [s for s in loops[0].body if isinstance(s, ast.If)]
    # roles of the loop's locals, whatever they are called
    lt = loops[0].target
    name_v, port_v = (lt.elts[0].id, lt.elts[1].id) if isinstance(lt, ast.Tuple) and len(lt.elts) == 2 else ("name", "port")
    dv = [b["__d"] for _n, b in P.find(loops[0], f"__d = {port_v}.direction()")]
    dir_v = dv[0] if dv else "direction"
    rets = [r for r in f.node.body if isinstance(r, ast.Return) and isinstance(r.value, ast.Name)]
    ret_v = rets[-1].value.id if rets else "ret"
    table = {}
    node = chain[0] if chain else None
    last = None
    while isinstance(node, ast.If):
        t = src(node.test).replace(dir_v + ".", "direction.")
        v = [a.value.value for a in node.body if isinstance(a, ast.Assign) and isinstance(a.value, ast.Constant)]
        mode_vars = [a.targets[0].id for a in node.body if isinstance(a, ast.Assign) and isinstance(a.value, ast.Constant) and isinstance(a.targets[0], ast.Name)]
        table[t] = v[0] if v else None
        last = node
        node = node.orelse[0] if len(node.orelse) == 1 and isinstance(node.orelse[0], ast.If) else None
    exp = {"direction.is_input()": "in", "direction.is_output()": "out", "direction.is_inout()": "inout"}
    for k, v in exp.items():
        run.ob(table.get(k) == v, "vhdl.Entity._port_declarations", file=vh.rel, line=f.node.lineno, detail=k, expected=f"{k} -> {v}", found=str(table.get(k)))
    ok = last is not None and bool(last.orelse) and isinstance(last.orelse[-1], ast.Raise)
    run.ob(ok, "vhdl.Entity._port_declarations", file=vh.rel, line=f.node.lineno, detail="fail-closed", expected="unknown direction raises", found="raise" if ok else "falls through")
    app = [c for c in calls_in(loops[0]) if dotted(c.func) == f"{ret_v}.append"]
    ok = len(app) == 1 and isinstance(app[0].args[0], ast.JoinedStr) and [src(v.value) for v in app[0].args[0].values if isinstance(v, ast.FormattedValue)][:2] == [name_v, (mode_vars[0] if mode_vars else "dir_str")]
    run.ob(ok, "vhdl.Entity._port_declarations", file=vh.rel, line=f.node.lineno, detail="template", expected="`{name} : {dir_str} <type>;` for every port", found=src(app[0].args[0])[:70] if app else "missing")
    # the name in the port list is the identifier the architecture body uses for the port (the scope's allocated name);
    # a raw attribute name that the allocator had to change (reserved word, case-insensitive collision) must not be
    # emitted unchanged - or such names must be rejected
    uses_alloc = any(isinstance(c.func, ast.Attribute) and c.func.attr in ("lookup_name", "format_target", "format_name") for v in (app[0].args[0].values[:1] if app and isinstance(app[0].args[0], ast.JoinedStr) else []) if isinstance(v, ast.FormattedValue) for c in ast.walk(v.value) if isinstance(c, ast.Call))
    validated = any(isinstance(a, ast.Assert) and name_v in src(a.test) for a in walk_local(f.node))
    run.ob(uses_alloc or validated, "vhdl.Entity._port_declarations", file=vh.rel, line=f.node.lineno, detail="declared-name-is-allocated-name",
           expected="the declared port name is the scope's name for the port object (or raw names the allocator changes are rejected)",
           found="ok" if uses_alloc or validated else "the raw attribute name is emitted: a port called `out` is declared `out : out std_logic` while the body drives `out1`")
    init = vh.func("Entity.__init__")
    ok = "self._ports = info.ports" in P.T(init.node)
    run.ob(ok, "vhdl.Entity.__init__", file=vh.rel, line=init.node.lineno, detail="declared-ports", expected="self._ports = info.ports", found="ok" if ok else "changed")
    tq = run.idx.mod(TQ)
    for pred, member in (("is_input", "INPUT"), ("is_output", "OUTPUT"), ("is_inout", "INOUT")):
        d = tq.func(f"Port.Direction.{pred}")
        ok = P.T(d.node.body[-1]) == f"return self is Port.Direction.{member}"
        run.ob(ok, f"Port.Direction.{pred}", file=tq.rel, line=d.node.lineno, detail="predicate", expected=f"self is Port.Direction.{member}", found=src(d.node.body[-1]))
        c = [g for g in tq.funcs_named(f"Port.{pred}")]
        ok = bool(c) and P.T(c[0].node.body[-1]) == f"return cls._direction is Port.Direction.{member}"
        run.ob(ok, f"Port.{pred}", file=tq.rel, line=(c[0].node.lineno if c else 0), detail="predicate", expected=f"cls._direction is Port.Direction.{member}", found=src(c[0].node.body[-1]) if c else "missing")
    for fac, member in (("input", "INPUT"), ("output", "OUTPUT"), ("inout", "INOUT")):
        g = tq.func(f"Port.{fac}")
        ok = f"Port[Wrapped, Port.Direction.{member}]" in P.T(g.node)
        run.ob(ok, f"Port.{fac}", file=tq.rel, line=g.node.lineno, detail="factory", expected=f"Port[Wrapped, Port.Direction.{member}]", found="ok" if ok else "changed")
    run.end()


def rule_port_map(run):
    run.begin("C12.b", "port map: for every formal of the instantiated entity, `formal => actual` where the actual is the one stored under the formal's own name", floor=3)
    vh = run.idx.mod(VH)
    f = vh.func("EntityInst._port_map")
    loops = [l for l in f.node.body if isinstance(l, ast.For)]
    if not loops:
        raise AnalysisError("port map loop not found")
    l = loops[0]
    ok = P.T(l.iter) == "self._entity.ports()"
    run.ob(ok, "EntityInst._port_map", file=vh.rel, line=l.lineno, detail="all-formals", expected="for port_name in self._entity.ports()", found=src(l.iter))
    v = l.target.id
    app = [c for c in calls_in(l) if isinstance(c.func, ast.Attribute) and c.func.attr == "append"]
    ok = len(app) == 1 and isinstance(app[0].args[0], ast.Tuple) and dotted(app[0].args[0].elts[0]) == v and P.T(app[0].args[0].elts[1]) == f"self._scope.format_target(self._ports[{v}])"
    run.ob(ok, "EntityInst._port_map", file=vh.rel, line=l.lineno, detail="same-key", expected=f"({v}, format_target(self._ports[{v}]))", found=src(app[0].args[0])[:80] if app else "missing")
    tmpl = [j for j in ast.walk(f.node) if isinstance(j, ast.JoinedStr) and "=>" in P.T(j)]
    comp = [c for c in ast.walk(f.node) if isinstance(c, ast.ListComp) and tmpl and any(x is tmpl[0] for x in ast.walk(c))]
    # the comprehension unpacks (formal, actual) pairs of the collected list: `for (formal, actual), sep in zip(<pairs>, ..)`
    pair = None
    if comp and isinstance(comp[0].generators[0].target, ast.Tuple) and isinstance(comp[0].generators[0].target.elts[0], ast.Tuple):
        pair = [dotted(e) for e in comp[0].generators[0].target.elts[0].elts]
    ok = len(tmpl) == 1 and pair is not None and [src(x.value) for x in tmpl[0].values if isinstance(x, ast.FormattedValue)][:2] == pair
    run.ob(ok, "EntityInst._port_map", file=vh.rel, line=f.node.lineno, detail="template", expected="{port_name} => {local}", found=src(tmpl[0]) if tmpl else "missing")
    pairs_v = dotted(app[0].func.value) if app else None
    it = comp[0].generators[0].iter if comp else None
    ok = bool(comp) and isinstance(it, ast.Call) and dotted(it.func) == "zip" and bool(it.args) and dotted(it.args[0]) == pairs_v
    run.ob(ok, "EntityInst._port_map", file=vh.rel, line=f.node.lineno, detail="all-associations", expected="every collected pair is emitted", found="ok" if ok else "changed")
    a = run.idx.mod(ASM)
    ap = a.func("VhdlAssembler.apply")
    c = [x for x in ast.walk(ap.node) if isinstance(x, ast.Call) and dotted(x.func) == "vhdl.EntityInst"]
    ok = len(c) == 1 and [src(x) for x in c[0].args] == ["scope", "entity", "inp.get_ports()", "inp.get_generics()"]
    run.ob(ok, "VhdlAssembler.apply[ir.Entity]", file=a.rel, line=(c[0].lineno if c else ap.node.lineno), detail="actuals", expected="vhdl.EntityInst(scope, entity, inp.get_ports(), inp.get_generics())", found=src(c[0])[:90] if c else "missing")
    gen = run.idx.mod(GEN)
    ca = gen.func("ConvertInstance.apply")
    c = [x for x in ast.walk(ca.node) if isinstance(x, ast.Call) and dotted(x.func) == "ir.Entity"]
    ok = len(c) == 1 and [src(x) for x in c[0].args][2:] == ["inp.port_definitions()", "inp.generic_definitions()"]
    run.ob(ok, "ConvertInstance.apply[out.Entity]", file=gen.rel, line=(c[0].lineno if c else 0), detail="actuals", expected="ir.Entity(template, name, inp.port_definitions(), inp.generic_definitions())", found=src(c[0])[:100] if c else "missing")
    run.end()


def rule_templates(run):
    run.begin(
        "C12.c",
        "one template per entity class per compilation at every stage: lookup precedes creation, the created template is "
        "stored under the looked-up key, and is returned for later instances",
        floor=6,
    )
    prep = run.idx.mod(PREP)
    ap = prep.func("ConvertPythonInstance.apply")
    br = [s for s in ap.node.body if isinstance(s, ast.If) and P.T(s.test) == "isinstance(inp, type)"]
    if not br:
        raise AnalysisError("template branch of ConvertPythonInstance.apply not found")
    b = br[0]
    guard = [s for s in b.body if isinstance(s, ast.If) and P.T(s.test) == "inp._cohdl_info.instantiated_template is None"]
    run.ob(bool(guard), "ConvertPythonInstance.apply[type]", file=prep.rel, line=b.lineno, detail="lookup-before-create", expected="if inp._cohdl_info.instantiated_template is None:", found="ok" if guard else "missing")
    ret = b.body[-1]
    ok = isinstance(ret, ast.Return) and P.T(ret.value) == "inp._cohdl_info.instantiated_template"
    run.ob(ok, "ConvertPythonInstance.apply[type]", file=prep.rel, line=b.lineno, detail="returns-cached", expected="return inp._cohdl_info.instantiated_template", found=src(ret)[:70])
    if guard:
        stores = [a for a in ast.walk(guard[0]) if isinstance(a, ast.Assign) and P.T(a.targets[0]) == "inp._cohdl_info.instantiated_template"]
        ok = len(stores) == 2 and all("out.EntityTemplate(" in P.T(a.value) and "inp._cohdl_info.copy()" in P.T(a.value) for a in stores)
        run.ob(ok, "ConvertPythonInstance.apply[type]", file=prep.rel, line=guard[0].lineno, detail="stored", expected="template built from a copy of the info and stored on the class's info", found=f"{len(stores)} stores")
    gen = run.idx.mod(GEN)
    lk = gen.func("ConvertInstance.lookup_template")
    ok = "if source in self._entity_templates:\n    return self._entity_templates[source]" in P.T(lk.node).replace("        ", "    ") or ("source in self._entity_templates" in P.T(lk.node) and "return self._entity_templates[source]" in P.T(lk.node))
    run.ob(ok, "ConvertInstance.lookup_template", file=gen.rel, line=lk.node.lineno, detail="lookup", expected="keyed by the source template (identity map)", found="ok" if ok else "changed")
    ca = gen.func("ConvertInstance.apply")
    br = ot.find_branch(ca.node, ot.isinstance_test("inp", "out.EntityTemplate"))
    t = P.T(br) if br is not None else ""
    ok = "ir_template = self.lookup_template(inp)" in t and "if ir_template is None:" in t and "self.add_template(inp, ir_template)" in t and t.strip().endswith("return ir_template")
    run.ob(ok, "ConvertInstance.apply[out.EntityTemplate]", file=gen.rel, line=(br.lineno if br else 0), detail="get-or-create", expected="lookup, create only if missing, add under the same key, return", found="ok" if ok else "changed")
    a = run.idx.mod(ASM)
    ap2 = a.func("VhdlAssembler.apply")
    br = ot.find_branch(ap2.node, ot.isinstance_test("inp", "ir.EntityTemplate"))
    t = P.T(br) if br is not None else ""
    first = br.body[0] if br is not None else None
    ok = isinstance(first, ast.If) and P.T(first.test) == "inp in self._get_known_templates()" and "return self._get_known_templates()[inp]" in P.T(first)
    run.ob(ok, "VhdlAssembler.apply[ir.EntityTemplate]", file=a.rel, line=(br.lineno if br else 0), detail="lookup-first", expected="known template returned before anything is created", found="ok" if ok else "changed")
    ok = "self._add_template(inp, ret)" in t and t.strip().endswith("return ret")
    run.ob(ok, "VhdlAssembler.apply[ir.EntityTemplate]", file=a.rel, line=(br.lineno if br else 0), detail="stored", expected="self._add_template(inp, ret); return ret", found="ok" if ok else "changed")
    at = a.func("VhdlAssembler._add_template")
    ok = "self._known_templates[inp] = ret" in P.T(at.node)
    run.ob(ok, "VhdlAssembler._add_template", file=a.rel, line=at.node.lineno, detail="same-key", expected="self._known_templates[inp] = ret", found="ok" if ok else "changed")
    # a fresh ModuleScope per template
    ok = "module_scope = vhdl.ModuleScope(" in t and "module_scope.complete_setup()" in t
    run.ob(ok, "VhdlAssembler.apply[ir.EntityTemplate]", file=a.rel, line=(br.lineno if br else 0), detail="own-scope", expected="every template gets its own module scope and completes it", found="ok" if ok else "changed")
    run.end()


def rule_library_order(run):
    run.begin("C12.d", "library: sub-entities are emitted before the entities that instantiate them (post-order over an insertion-ordered identity set), each entity once", floor=3)
    vh = run.idx.mod(VH)
    f = vh.func("Library.from_top_entity")
    c = vh.func("Library.from_top_entity.<locals>.collect_subenties")
    loops = [l for l in c.node.body if isinstance(l, ast.For)]
    ents = [b["__e"] for _n, b in P.find(f.node.body, "__e = IdSet()")]
    if len(ents) != 1:
        raise AnalysisError("Library.from_top_entity: the collecting `x = IdSet()` not recognised")
    ents = ents[0]
    adds = [s for s in c.node.body if isinstance(s, ast.Expr) and isinstance(s.value, ast.Call) and dotted(s.value.func) == f"{ents}.add"]
    ok = len(loops) == 1 and len(adds) == 1 and c.node.body.index(loops[0]) < c.node.body.index(adds[0]) and dotted(adds[0].value.args[0]) == c.node.args.args[0].arg
    run.ob(ok, "Library.from_top_entity.collect_subenties", file=vh.rel, line=c.node.lineno, detail="post-order", expected="recurse into all sub-entities, then entities.add(parent_entity)", found="ok" if ok else "order changed")
    rec = [x for x in ast.walk(loops[0]) if isinstance(x, ast.Call) and dotted(x.func) == c.node.name] if loops else []
    ok = len(rec) == 1 and "sub_entities()" in P.T(loops[0].iter)
    run.ob(ok, "Library.from_top_entity.collect_subenties", file=vh.rel, line=c.node.lineno, detail="recursion", expected="collect_subenties(entity) for every sub-entity instance", found="ok" if ok else "changed")
    t = P.T(f.node)
    ok = f"[*{ents}]" in src(f.node) and not any(isinstance(x, ast.Call) and dotted(x.func) in ("reversed", "sorted") for x in ast.walk(f.node)) and "[::-1]" not in t
    run.ob(ok, "Library.from_top_entity", file=vh.rel, line=f.node.lineno, detail="ordered-container", expected="IdSet (insertion ordered, one entry per entity), emitted in collection order", found="ok" if ok else "changed")
    w = vh.func("Library.write")
    ok = "for entity in self._entities" in P.T(w.node)
    run.ob(ok, "Library.write", file=vh.rel, line=w.node.lineno, detail="emission-order", expected="entities written in list order", found="ok" if ok else "changed")
    run.end()


def rule_defaults(run):
    run.begin("C12.e", "instance-driven actuals lose their default (so the instance output is their only driver); the sub-entity's own declaration keeps its default", floor=2)
    ctx = run.idx.mod(CTX)
    init = ctx.func("Entity.__init__")
    sets = [a for a in ast.walk(init.node) if isinstance(a, ast.Assign) and isinstance(a.targets[0], ast.Attribute) and a.targets[0].attr == "_default"]
    ok = len(sets) == 1 and isinstance(sets[0].targets[0].value, ast.Name) and isinstance(sets[0].value, ast.Constant) and sets[0].value.value is None
    actual_v = dotted(sets[0].targets[0].value) if sets else None
    run.ob(ok, "Entity.__init__", file=ctx.rel, line=(sets[0].lineno if sets else init.node.lineno), detail="actual-default-removed", expected="port_def._default = None (the connected actual)", found="; ".join(src(a) for a in sets) or "missing")
    if sets:
        defs = {}
        for a in ast.walk(init.node):
            if isinstance(a, ast.Assign) and isinstance(a.targets[0], ast.Name):
                defs[a.targets[0].id] = P.T(a.value)
        # the object that loses its default is the connected actual (self._cohdl_port_definitions[<formal name>]); it is
        # compared against the declaration (info.ports[<same name>]) -- whatever the locals are called
        g = [anc for anc in ctx.parents.ancestors(sets[0]) if isinstance(anc, ast.If)]
        loop = [anc for anc in ctx.parents.ancestors(sets[0]) if isinstance(anc, ast.For)]
        key = loop[0].target.elts[0].id if loop and isinstance(loop[0].target, ast.Tuple) else "name"
        decl_v = None
        for x in g:
            for _n, b in P.find(x.test, "__a is not __d", {"__a": actual_v}):
                decl_v = b["__d"]
        ok = defs.get(actual_v) == f"self._cohdl_port_definitions[{key}]" and decl_v is not None and defs.get(decl_v) == f"info.ports[{key}]"
        run.ob(ok, "Entity.__init__", file=ctx.rel, line=sets[0].lineno, detail="roles", expected="port_def = connected actual, port_decl = declared port", found=str({k: defs.get(k) for k in (actual_v, decl_v)}))
        tests = [src(x.test) for x in g]
        ok = decl_v is not None and any("is_output()" in t for t in tests)
        run.ob(ok, "Entity.__init__", file=ctx.rel, line=sets[0].lineno, detail="guards", expected="only for output ports whose actual is not the declaration itself", found=str(tests))
    run.end()


def rule_shared(run):
    from . import c05, c06, c11
    c05.rule_trial(run)
    c06.rule_buffers(run)
    c11.rule_entityinfo(run)


def rule_registration(run):
    run.begin(
        "C12.f",
        "an instance / context / exit handler created while a block is being elaborated is registered with the INNERMOST "
        "open block (top of the block stack), so a sub-entity lands in the architecture of the entity that created it",
        floor=4,
    )
    ctx = run.idx.mod(CTX)
    n = 0
    for q, f in ctx.functions.items():
        for c in calls_in(f.node):
            if isinstance(c.func, ast.Attribute) and c.func.attr == "append":
                d = c.func.value
                # <stack>[k]._cohdl_block_info.<list>.append(x)
                if isinstance(d, ast.Attribute) and isinstance(d.value, ast.Attribute) and d.value.attr == "_cohdl_block_info" and d.attr in ("_subblocks", "_subcontext", "_exit_handlers") and dotted(d.value.value) != "self":
                    recv = d.value.value
                    n += 1
                    ok = isinstance(recv, ast.Subscript) and dotted(recv.value) == "_block_stack" and isinstance(recv.slice, ast.UnaryOp) and isinstance(recv.slice.op, ast.USub) and isinstance(recv.slice.operand, ast.Constant) and recv.slice.operand.value == 1
                    run.ob(ok, q, file=ctx.rel, line=c.lineno, detail=f"{d.attr}", expected="_block_stack[-1] (innermost open block)", found=src(recv))
    if n < 4:
        raise AnalysisError(f"registration sites on the block stack not recognised ({n})")
    run.end()


def rule_idset(run):
    run.begin(
        "C12.idset",
        "the identity set used to collect entities (and by every ordered traversal) is insertion ordered: adding an "
        "element that is already present leaves its position unchanged (abstract evaluation of IdSet.add / __iter__)",
        floor=4,
    )
    from ..absint import Interp, Reject
    um = run.idx.mod("cohdl/utility/id_map.py")
    f = um.func("IdSet.add")

    # the content is an IdMap: its methods are interpreted from the source as well (IdSet.add may delegate to them);
    # the model keeps an ordered python dict as the underlying `dict` storage, element identity = the element token
    class _Store(dict):
        pass

    class _Super:
        def __init__(self, m):
            self.m = m

        def __setitem__(self, k, v):
            dict.__setitem__(self.m.store, k, v)

        def __getitem__(self, k):
            return dict.__getitem__(self.m.store, k)

        def __delitem__(self, k):
            dict.__delitem__(self.m.store, k)

        def __contains__(self, k):
            return dict.__contains__(self.m.store, k)

    class _DictNS:
        """the `dict` type as used for unbound calls: dict.pop(self, key, default) ..."""

        @staticmethod
        def _s(m):
            return m.store if isinstance(m, _IdMapModel) else m

        def pop(self, m, *a):
            return dict.pop(self._s(m), *a)

        def __getitem__(self, m, k=None):
            return dict.__getitem__(self._s(m), k)

        def __setitem__(self, m, k, v):
            dict.__setitem__(self._s(m), k, v)

        def keys(self, m):
            return dict.keys(self._s(m))

        def __call__(self, *a, **k):
            return dict(*a, **k)

    class _IdMapModel:
        def __init__(self):
            self.store = _Store()

        def _call(self, name, *a):
            pr = dict(prims)
            pr["super"] = lambda: _Super(self)
            return Interp(um, pr).call_function(f"IdMap.{name}", self, *a)

        def __setitem__(self, k, v):
            self._call("__setitem__", k, v)

        def __getitem__(self, k):
            return self._call("__getitem__", k)

        def __contains__(self, k):
            return self._call("__contains__", k)

        def map_self(self, obj):
            return self._call("map_self", obj)

        def pop(self, *a):
            return self.store.pop(*a)

        def values(self):
            return self.store.values()

    class _Self:
        def __init__(self):
            self._content = _IdMapModel()

    class _El:
        def __init__(self, n):
            self.n = n

    prims = {"id": lambda x: x, "__setattr__": lambda o, k, v: setattr(o, k, v), "iter": iter, "type": type, "int": int, "str": str, "dict": _DictNS()}
    for seq, exp in ((["a", "b", "a"], ["a", "b"]), (["a", "b", "c", "a", "b"], ["a", "b", "c"]), (["a", "a"], ["a"]), (["a", "b", "c"], ["a", "b", "c"])):
        so = _Self()
        toks = {}
        try:
            for e in seq:
                Interp(um, dict(prims)).call_function("IdSet.add", so, toks.setdefault(e, _El(e)))
            got = [x.n for x in so._content.store.values()]
        except Reject as ex:
            got = f"rejected: {ex}"
        run.ob(got == exp, "IdSet.add", file=um.rel, line=f.node.lineno, detail="add " + ",".join(seq), expected=str(exp), found=str(got))
    it = um.func("IdSet.__iter__")
    ok = src(it.node.body[-1]) == "return iter(self._content.values())"
    run.ob(ok, "IdSet.__iter__", file=um.rel, line=it.node.lineno, detail="iteration", expected="iterates the ordered content", found=src(it.node.body[-1]))
    run.end()


def rule_discard(run):
    from . import c11
    c11.rule_entityinfo(run)   # a stale elaboration makes a later instance differ from inlining the entity's current architecture


def rule_usage(run):
    from . import c07
    c07.rule_usage(run)        # instance outputs obey the same driver rules as the assignments they stand for


def rule_inherit_copy(run):
    run.begin(
        "C12.g",
        "an entity class derived from another entity starts from a COPY of the inherited interface: ports / generics / "
        "attributes added by the subclass never appear in the base entity's interface",
        floor=3,
    )
    ctx = run.idx.mod(CTX)
    f = ctx.func("Entity.__init_subclass__")
    from ..rules.snapshot import _is_copy_of
    n = 0
    for a in walk_local(f.node):
        if isinstance(a, ast.Assign) and isinstance(a.targets[0], ast.Name):
            refs = [dotted(x) for x in ast.walk(a.value) if isinstance(x, ast.Attribute) and (dotted(x) or "").startswith("cls._cohdl_info.")]
            refs = [r for r in refs if r.count(".") == 2]
            if not refs:
                continue
            n += 1
            v = a.value
            ok = _is_copy_of(v, refs[0]) or (isinstance(v, ast.Dict) and all(k is None or True for k in v.keys) and any(k is None for k in v.keys))
            run.ob(ok, "Entity.__init_subclass__", file=ctx.rel, line=a.lineno, detail=a.targets[0].id, expected=f"a copy of {refs[0]} (dict(..) / {{**..}})", found=src(v)[:70])
    if n < 3:
        raise AnalysisError(f"Entity.__init_subclass__: inherited interface parts not recognised ({n})")
    run.end()


def rule_names(run):
    from . import c06
    c06.rule_names(run)       # instance labels / component names are unique (case-insensitively) however many instances one template has


def rule_views(run):
    from ..rules import views
    views.run_rule(run, "F-VIEW")   # an actual that is a (nested) slice or element addresses the same bits every time it is formatted (port maps format each actual twice)


def rule_port_widths(run):
    run.begin(
        "C12.h",
        "the elements of a port map are not converted: an actual bound to a vector port has exactly the port's width - "
        "the trial assignment `port <<= actual` of Entity.__init__ alone accepts narrower vectors (assignment extends "
        "them), so the binding compares the widths itself, for inputs and outputs alike",
        floor=1,
    )
    ctx = run.idx.mod("cohdl/_core/_context.py")
    f = ctx.func("Entity.__init__")
    # the loop that binds keyword arguments to ports
    loops = [l for l in walk_local(f.node) if isinstance(l, ast.For) and "kwargs" in src(l.iter)]
    if not loops:
        raise AnalysisError("Entity.__init__: loop over the port bindings not found")
    lp = loops[0]
    br = [i for i in lp.body if isinstance(i, ast.If) and "ports" in src(i.test)]
    if not br:
        raise AnalysisError("Entity.__init__: branch `name in info.ports` not found")
    found = None
    for a in ast.walk(br[0]):
        if isinstance(a, ast.Assert):
            for c in ast.walk(a.test):
                if isinstance(c, ast.Compare) and len(c.ops) == 1 and isinstance(c.ops[0], ast.Eq) and "width" in src(c.left) and "width" in src(c.comparators[0]) and src(c.left) != src(c.comparators[0]):
                    found = a
    ok = found is not None
    guard_bad = []
    if found is not None:
        for g in ctx.parents.ancestors(found):
            if g is br[0]:
                break
            if isinstance(g, ast.If) and ("is_output" in src(g.test) or "is_input" in src(g.test) or "direction" in src(g.test).lower()):
                guard_bad.append(src(g.test)[:60])
    # ... and the declared (root) kind of the actual is the port's kind: the port map names the root object or a slice of
    # it, whose VHDL type is the root's - a typed view (.unsigned of a BitVector) or a slice of an Unsigned is not converted
    rootvars = {a.targets[0].id for a in ast.walk(br[0]) if isinstance(a, ast.Assign) and isinstance(a.targets[0], ast.Name) and "_root" in src(a.value)}
    # ... on every path: a variable that is bound to the VIEW's own type on some path (`value.type` for an un-sliced view) does not count
    for rv in sorted(rootvars):
        others = [a for a in ast.walk(br[0]) if isinstance(a, ast.Assign) and isinstance(a.targets[0], ast.Name) and a.targets[0].id == rv and "_root" not in src(a.value)
                  and rv not in {n_.id for n_ in ast.walk(a.value) if isinstance(n_, ast.Name)}]
        if others:
            rootvars.discard(rv)
    kind = None
    for a in ast.walk(br[0]):
        if isinstance(a, ast.Assert):
            subs = [c for c in ast.walk(a.test) if isinstance(c, ast.Call) and dotted(c.func) == "issubclass" and c.args]
            firsts = {dotted(c.args[0]) for c in subs}
            if len(subs) >= 2 and firsts & rootvars and len(firsts) >= 2 and any(isinstance(c, ast.Compare) for c in ast.walk(a.test)):
                kind = a
    run.ob(kind is not None, "Entity.__init__", file=ctx.rel, line=(kind.lineno if kind else br[0].lineno), detail="actual-kind-equals-port-kind",
           expected="assert issubclass(<root type of the actual>, K) == issubclass(<port type>, K) for K in Signed, Unsigned",
           found="ok" if kind is not None else "the declared type of the actual is never compared with the port type: `Sub(x=bv.unsigned)` is emitted as `x => bv` (std_logic_vector associated with an unsigned port)")
    run.ob(ok and not guard_bad, "Entity.__init__", file=ctx.rel, line=(found.lineno if found else br[0].lineno), detail="actual-width-equals-port-width",
           expected="assert <actual>.width == <port type>.width for every vector port",
           found="ok" if ok and not guard_bad else (f"only under {guard_bad}" if guard_bad else "widths are never compared: `Sub(x=u4)` for a port `x: Unsigned[8]` is emitted as `x => u4` (width mismatch in the port map)"))
    run.end()


def rule_empty_interface(run):
    run.begin(
        "C12.i",
        "an entity without ports is still legal VHDL: no empty `port ( );` clause in the declaration, and the instantiation "
        "statement - which is normally terminated by the `);` of its port map - gets its own `;` when there is no map",
        floor=2,
    )
    vh = run.idx.mod("cohdl/_compiler/backend/vhdl/_vhdl_repr.py")
    f = vh.func("Entity._entity_declaration")
    uses = [c for c in ast.walk(f.node) if isinstance(c, ast.Call) and dotted(c.func) == "self._port_map"]
    if not uses:
        raise AnalysisError("Entity._entity_declaration: port clause not found")
    for c in uses:
        cond = [a for a in vh.parents.ancestors(c) if isinstance(a, (ast.IfExp, ast.If)) and "_ports" in src(a.test)]
        run.ob(bool(cond), "vhdl.Entity._entity_declaration", file=vh.rel, line=c.lineno, detail="port-clause-only-with-ports", expected="the port clause is emitted only if the entity has ports",
               found="ok" if cond else "unconditional: an entity without ports is declared with `port ( );`")
    w = vh.func("EntityInst.write")
    term = [e for e in ast.walk(w.node) if isinstance(e, ast.IfExp) and ((isinstance(e.body, ast.Constant) and e.body.value == ";") or (isinstance(e.orelse, ast.Constant) and e.orelse.value == ";")) and "len(" in src(e.test)]
    run.ob(bool(term), "vhdl.EntityInst.write", file=vh.rel, line=w.node.lineno, detail="statement-terminated-without-maps", expected="`;` appended to the instantiation when neither generic map nor port map is emitted",
           found="ok" if term else "no terminator: `comp: entity work.X(arch_X)` without `;` for an entity without ports")
    run.end()


def rule_unit_names(run):
    run.begin(
        "C12.j",
        "design units are identified by their names: the architecture header names the entity by the very name the entity "
        "declaration uses (Entity.name(), not a name allocated in the architecture's scope, which gets a suffix when a port "
        "or signal is called like the entity), and a library never contains two different entities with one "
        "(case-insensitive) name - instances of the second would bind to the first",
        floor=2,
    )
    vh = run.idx.mod("cohdl/_compiler/backend/vhdl/_vhdl_repr.py")
    en = vh.func("Architecture.entity_name")
    rets = [r for r in walk_local(en.node) if isinstance(r, ast.Return) and r.value is not None]
    decl = vh.func("Entity._entity_declaration")
    uses_name = "self._name" in src(decl.node)
    ok = len(rets) == 1 and uses_name and src(rets[0].value) in ("self._entity.name()", "self._entity._name")
    run.ob(ok, "vhdl.Architecture.entity_name", file=vh.rel, line=en.node.lineno, detail="same-name-as-declaration", expected="self._entity.name()  (the entity declaration prints self._name)",
           found=src(rets[0].value) if rets else "?")
    lib = vh.func("Library.from_top_entity")
    # a duplicate test over the collected entities: an assert / raise reached from a membership test on lower-cased names
    dup = False
    for a in walk_local(lib.node):
        if isinstance(a, (ast.Assert, ast.If)):
            for c in ast.walk(a.test):
                if isinstance(c, ast.Compare) and any(isinstance(o, (ast.In, ast.NotIn)) for o in c.ops):
                    nm = dotted(c.left)
                    defs = [x for x in walk_local(lib.node) if isinstance(x, ast.Assign) and dotted(x.targets[0]) == nm]
                    if defs and ".name()" in src(defs[0].value) and ".lower()" in src(defs[0].value):
                        dup = True
    run.ob(dup, "vhdl.Library.from_top_entity", file=vh.rel, line=lib.node.lineno, detail="unique-unit-names", expected="assert <entity.name().lower()> not in <names seen>",
           found="ok" if dup else "no test: two entity classes with one name are both emitted as `entity <name>`")
    run.end()


def rule_dynamic_ports(run):
    from . import c11
    c11.rule_dynamic_ports(run)   # the interface of an entity is the one of THIS build: dynamic ports of an earlier build are gone


RULES = [rule_interface, rule_port_map, rule_templates, rule_library_order, rule_defaults, rule_shared, rule_registration, rule_idset, rule_usage, rule_inherit_copy, rule_names, rule_views, rule_port_widths, rule_empty_interface, rule_unit_names, rule_dynamic_ports]
LEVEL = "other"
EXPLANATION = (
    "Structural half of 'instantiating equals inlining', for all hierarchies: the emitted interface (declared ports, "
    "declared order, modes), the port-map association (formal and key of the actual are the same variable, for every "
    "formal), get-or-create template caches at all three compiler stages, post-order library emission, default removal "
    "on instance-driven actuals, the port compatibility trial, output-only buffering and the discard of template info "
    "at compile exit. NOT decided: behavioural equivalence with the flat design."
)
ASSUMPTIONS = ["Python dicts preserve insertion order (declaration order of ports)", "IdSet/IdMap are insertion ordered (dict based)"]
