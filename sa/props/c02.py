"""C02 - operators and expressions compute their documented value at run time.

Decided: the operator pipeline tables agree from the Python dunder down to the VHDL
token, for every operator replacement (C02.a), every hand-over hop keeps op/lhs/rhs/
result in their positions (C02.hops), backend tokens equal the documented VHDL
operator and the left operand is emitted on the left (C02.tokens), every producible
operator member has a backend entry or is rejected (C02.b), concat/shift operand
casts are in place (C02.d), Unsigned/Signed and forward/reflected siblings agree
(F-SIB), and the documented result widths hold per isinstance branch (C02.c).
"""

from __future__ import annotations

import ast

from ..astutil import AnalysisError, dotted, src, walk_local, walk_ordered, calls_in
from .. import pattern as P
from ..rules import optable as ot
from ..rules import sibling as sib
from ..rules import widths as wd
from ..rules import intarith


def rule_rows(run):
    run.begin(
        "C02.a",
        "each operator replacement of TypeQualifier (i) takes its result object from its own default "
        "implementation, (ii) uses the operator member documented for that dunder, (iii) passes (self, other) "
        "for forward and (other, self) for reflected dunders",
        floor=37,
    )
    idx = run.idx
    orc = ot.oracle()
    m, rows = ot.replacement_rows(idx)
    for r in rows:
        f, c, kind, default = r["fn"], r["call"], r["kind"], r["default"]
        params = ot.intrinsic_ctor_params(idx, r["ctor"])  # e.g. [op, result, lhs, rhs]
        if len(c.args) != len(params) or c.keywords:
            raise AnalysisError(f"unrecognised call shape in {f.qualname}: {src(c)}")
        by_role = dict(zip(params, c.args))
        construct = f"TypeQualifier.{f.qualname.split('.')[-1].split('#')[0]}[{default}]"
        # (ii) operator member
        member = (dotted(by_role["op"]) or "?").split(".")[-1]
        exp_member = orc[kind].get(default)
        if exp_member is None:
            run.ob(False, construct, file=m.rel, line=c.lineno, detail="operator", expected="a documented operator dunder",
                   found=f"replacement registered for undocumented method {default}")
            continue
        run.ob(member == exp_member, construct, file=m.rel, line=c.lineno, detail="operator",
               expected=f"{kind}.{exp_member}", found=f"{kind}.{member}")
        # (i) result comes from self.<default>(...)
        res = by_role["result"]
        if isinstance(res, ast.Name):
            vals = ot.resolve_local(f.node, res.id)
            res_src = vals[0] if len(vals) == 1 else res
        else:
            res_src = res
        callee = None
        for x in ast.walk(res_src):
            if isinstance(x, ast.Call) and isinstance(x.func, ast.Attribute) and dotted(x.func.value) == "self":
                callee = x
                break
        ok = callee is not None and callee.func.attr == default
        run.ob(ok, construct, file=m.rel, line=c.lineno, detail="result-from-default",
               expected=f"result computed by self.{default}(...)", found=src(res_src)[:80])
        # (iii) operands
        pnames = [a.arg for a in f.node.args.args]
        other = [p for p in pnames if p != "self"]
        if kind == "unary":
            ok = dotted(by_role["arg"]) == "self"
            run.ob(ok, construct, file=m.rel, line=c.lineno, detail="operand", expected="arg=self", found=src(by_role["arg"]))
        else:
            if len(other) != 1:
                raise AnalysisError(f"replacement {f.qualname} has unexpected parameters {pnames}")
            o = other[0]
            reflected = default in orc["reflected"]
            exp = (o, "self") if reflected else ("self", o)
            got = (dotted(by_role["lhs"]), dotted(by_role["rhs"]))
            run.ob(got == exp, construct, file=m.rel, line=c.lineno, detail="operands",
                   expected=f"lhs={exp[0]}, rhs={exp[1]} ({'reflected' if reflected else 'forward'})",
                   found=f"lhs={got[0]}, rhs={got[1]}")
            # the default implementation is called with the other operand
            if callee is not None:
                ok = len(callee.args) == 1 and dotted(callee.args[0]) == o
                run.ob(ok, construct, file=m.rel, line=c.lineno, detail="default-arg",
                       expected=f"self.{default}({o})", found=src(callee)[:60])
    # every documented operator dunder that TypeQualifier defines has a replacement
    defined = set(m.methods("TypeQualifier"))
    have = {r["default"] for r in rows}
    for kind in ("binary", "compare", "unary"):
        for dunder in orc[kind]:
            if dunder in defined:
                fdef = m.methods("TypeQualifier")[dunder]
                run.ob(dunder in have, f"TypeQualifier.{dunder}", file=m.rel, line=fdef.node.lineno, detail="has-replacement",
                       expected="a registered run-time replacement", found="present" if dunder in have else "missing: run-time operands would be folded as constants")
    run.end()


def rule_hops(run):
    run.begin(
        "C02.hops",
        "op/lhs/rhs/arg/result keep their roles at every hand-over: intrinsic object -> out.* -> ir.* -> vhdl.* "
        "(constructor parameter order vs. argument roles, and param->field identity in every constructor)",
        floor=30,
    )
    idx = run.idx
    # 1. field identity in constructors
    ctor_sites = []
    for rel, prefix in ((ot.INTR, "_Intrinsic"), (ot.OUT, ""), (ot.IRR, ""), (ot.VH, "")):
        mod = idx.mod(rel)
        for kind, cname in ot.CLASS_OF_KIND.items():
            cn = {"binary": "_IntrinsicBinOp", "unary": "_IntrinsicUnaryOp", "compare": "_IntrinsicComparison"}[kind] if prefix else cname
            init = mod.func(f"{cn}.__init__")
            params = [a.arg for a in init.node.args.args[1:]]
            fields = ot.stored_fields(init)
            for p in params:
                if p not in ot.ROLES_OF_KIND[kind]:
                    continue
                fld = fields.get(p)
                ok = fld is not None and (fld.lstrip("_") == p or fld == f"<super:{p}>")
                run.ob(ok, f"{rel.split('/')[-1]}::{cn}.__init__", file=rel, line=init.node.lineno, detail=p,
                       expected=f"parameter {p} stored in field {p}/_{p}", found=str(fld), sample=False)
            ctor_sites.append((rel, cn, params))
    ctor_params = {(rel, cn): params for rel, cn, params in ctor_sites}

    def check_call(call, fn_node, rel, callee_key, where, construct):
        params = ctor_params[callee_key]
        if len(call.args) != len(params) or call.keywords:
            raise AnalysisError(f"unrecognised constructor call {src(call)[:80]} in {where}")
        for p, a in zip(params, call.args):
            got = ot.role(a, fn_node)
            run.ob(got == p, construct, file=rel, line=call.lineno, detail=f"{callee_key[1]}.{p}",
                   expected=f"argument for `{p}` carries role {p}", found=f"{src(a)[:50]} -> role {got}")

    # 2. convert_intrinsic: intr -> out
    prep = idx.mod(ot.PREP)
    ci = prep.func("PrepareAst.convert_intrinsic")
    for kind, cname in ot.CLASS_OF_KIND.items():
        icn = {"binary": "_IntrinsicBinOp", "unary": "_IntrinsicUnaryOp", "compare": "_IntrinsicComparison"}[kind]
        br = ot.find_branch(ci.node, ot.isinstance_test("result", "intr_op." + icn))
        if br is None:
            raise AnalysisError(f"anchor vanished: branch for {icn} in convert_intrinsic")
        calls = ot.ctor_calls_in(br.body, "out." + cname)
        if len(calls) != 1:
            raise AnalysisError(f"expected one out.{cname}(...) in the {icn} branch")
        check_call(calls[0], ci.node, prep.rel, (ot.OUT, cname), "convert_intrinsic", f"convert_intrinsic[{icn}]")
        # the branch must return exactly that node
        ret_ok = any(isinstance(s, ast.Return) and s.value is calls[0] for s in br.body)
        run.ob(ret_ok, f"convert_intrinsic[{icn}]", file=prep.rel, line=br.lineno, detail="returns-node",
               expected=f"returns the out.{cname} node", found="ok" if ret_ok else "does not return it")
    # 3. IrGenerator._apply_impl: out -> ir
    gen = idx.mod(ot.GEN)
    ai = gen.func("IrGenerator._apply_impl")
    for kind, cname in ot.CLASS_OF_KIND.items():
        br = ot.find_branch(ai.node, ot.isinstance_test("inp", "out." + cname))
        if br is None:
            raise AnalysisError(f"anchor vanished: branch for out.{cname} in _apply_impl")
        calls = ot.ctor_calls_in(br.body, "ir." + cname)
        if len(calls) != 1:
            raise AnalysisError(f"expected one ir.{cname}(...) in the out.{cname} branch")
        # roles are resolved inside the branch: build a pseudo function from the branch body
        pseudo = ast.FunctionDef(name="b", args=ai.node.args, body=br.body, decorator_list=[], lineno=br.lineno)
        check_call(calls[0], pseudo, gen.rel, (ot.IRR, cname), "_apply_impl", f"_apply_impl[out.{cname}]")
        # operands are lowered before the operation is appended, lhs before rhs
        order = []
        for n in walk_ordered(ast.Module(body=br.body, type_ignores=[])):
            if isinstance(n, ast.Call) and dotted(n.func) == "self.apply" and n.args:
                order.append(ot.role(n.args[0], pseudo))
            if n is calls[0]:
                order.append("<node>")
        exp = (["lhs", "rhs", "<node>"] if kind != "unary" else ["arg", "<node>"])
        run.ob(order == exp, f"_apply_impl[out.{cname}]", file=gen.rel, line=br.lineno, detail="operand-evaluation-order",
               expected=str(exp), found=str(order))
    # 4. assembler: ir -> vhdl
    asm = idx.mod(ot.ASM)
    ap = asm.func("_StmtAssembler.apply")
    for kind, cname in ot.CLASS_OF_KIND.items():
        br = ot.find_branch(ap.node, ot.isinstance_test("inp", "ir." + cname))
        if br is None:
            raise AnalysisError(f"anchor vanished: branch for ir.{cname} in _StmtAssembler.apply")
        calls = ot.ctor_calls_in(br.body, "vhdl." + cname)
        if len(calls) != 1:
            raise AnalysisError(f"expected one vhdl.{cname}(...) in the ir.{cname} branch")
        check_call(calls[0], ap.node, asm.rel, (ot.VH, cname), "_StmtAssembler.apply", f"_StmtAssembler.apply[ir.{cname}]")
        # the expression is assigned to the node's own result
        at = [c for c in calls_in(br.body) if dotted(c.func) == "assign_temporary"]
        ok = len(at) == 1 and ot.role(at[0].args[0], ap.node) == "result" and at[0].args[1] is calls[0]
        run.ob(ok, f"_StmtAssembler.apply[ir.{cname}]", file=asm.rel, line=br.lineno, detail="assigned-to-result",
               expected="assign_temporary(inp.result(), <expr>, ...)", found="ok" if ok else "changed")
    run.end()


def rule_tokens(run):
    run.begin(
        "C02.tokens",
        "the VHDL token emitted for every operator member equals the documented one and the left operand is "
        "emitted left of the operator / as the first function argument",
        floor=20,
    )
    idx = run.idx
    orc = ot.oracle()
    toks, order = ot.backend_tokens(idx)
    for kind in ("binary", "compare", "unary"):
        exp = orc["vhdl_tokens"][kind]
        for mem, (tok, how, line) in sorted(toks[kind].items()):
            e = exp.get(mem)
            if e is None:
                run.ob(False, f"vhdl.{ot.CLASS_OF_KIND[kind]}", file=ot.VH, line=line, detail=mem, expected="a documented operator member", found=f"undocumented backend entry {mem}:{tok!r}")
                continue
            if e == "":
                continue
            run.ob(tok == e, f"vhdl.{ot.CLASS_OF_KIND[kind]}", file=ot.VH, line=line, detail=mem, expected=repr(e), found=f"{tok!r} ({how})")
        for mem, e in exp.items():
            if mem not in toks[kind] and e != "":
                run.ob(False, f"vhdl.{ot.CLASS_OF_KIND[kind]}", file=ot.VH, line=0, detail=mem, expected=f"backend entry {e!r}", found="missing")
    # operand order
    for (kind, mem), names in sorted(order.items()):
        if kind == "unary":
            continue
        seq = [n for n in names if n in ("lhs", "rhs")]
        run.ob(seq == ["lhs", "rhs"], f"vhdl.{ot.CLASS_OF_KIND[kind]}.write", file=ot.VH, line=0, detail=f"operand-order[{mem}]",
               expected="lhs emitted before rhs", found=str(names))
        if mem == "*":
            pos = [n for n in names if n in ("lhs", "op", "rhs")]
            run.ob(pos == ["lhs", "op", "rhs"], f"vhdl.{ot.CLASS_OF_KIND[kind]}.write", file=ot.VH, line=0, detail="infix-template",
                   expected="<lhs> <op> <rhs>", found=str(names))
    if ("binary", "*") not in order or ("compare", "*") not in order:
        raise AnalysisError("generic infix template of BinOp/Compare.write not found")
    run.end()


def rule_exhaustive(run):
    run.begin(
        "C02.b",
        "every operator member a replacement can produce has a backend entry, or is in the reviewed rejected list",
        floor=20,
    )
    idx = run.idx
    orc = ot.oracle()
    m, rows = ot.replacement_rows(idx)
    toks, _ = ot.backend_tokens(idx)
    seen = set()
    for r in rows:
        params = ot.intrinsic_ctor_params(idx, r["ctor"])
        member = (dotted(dict(zip(params, r["call"].args))["op"]) or "?").split(".")[-1]
        key = (r["kind"], member)
        if key in seen:
            continue
        seen.add(key)
        has = member in toks[r["kind"]]
        rejected = f"{r['kind']}.{member}" in orc["rejected_on_purpose"]
        run.ob(has or rejected, f"{r['kind']}.{member}", file=m.rel, line=r["call"].lineno, detail="backend-entry",
               expected="backend entry or reviewed rejection", found="entry" if has else ("rejected: " + orc["rejected_on_purpose"].get(f"{r['kind']}.{member}", "NO backend entry"))[:90])
    # enum members exist
    intr = idx.mod(ot.INTR)
    for kind, ename in (("binary", "BinaryOperator"), ("compare", "ComparisonOperator"), ("unary", "UnaryOperator")):
        cls = intr.cls(ename)
        members = {t.id for s in cls.body if isinstance(s, ast.Assign) for t in s.targets if isinstance(t, ast.Name)}
        for mem in toks[kind]:
            run.ob(mem in members, f"{ename}.{mem}", file=intr.rel, line=cls.lineno, detail="member-exists", expected="enum member", found="ok" if mem in members else "missing", sample=False)
    run.end()


def rule_casts(run):
    run.begin(
        "C02.d",
        "backend cast placement: CONCAT converts vector operands with .bitvector on both sides; the shift amount "
        "is cast to Integer and is the second argument",
        floor=4,
    )
    idx = run.idx
    vh = idx.mod(ot.VH)
    w = vh.func("BinOp.write")
    found_concat = False
    for n in walk_local(w.node):
        if isinstance(n, ast.If) and "Operator.CONCAT" in P.T(n.test):
            found_concat = True
            # every concatenation is converted: the branch depends on the operator alone (numeric_std `&` of two
            # unsigned/signed operands yields unsigned/signed, not the std_logic_vector the result is declared as)
            bare = isinstance(n.test, ast.Compare) and len(n.test.ops) == 1 and isinstance(n.test.ops[0], (ast.Is, ast.Eq)) and dotted(n.test.left) == "self._op"
            outer = [a for a in vh.parents.ancestors(n) if isinstance(a, ast.If) and a is not n and any(x is n for b in a.body + a.orelse for x in ast.walk(b))]
            run.ob(bare and not outer, "vhdl.BinOp.write[CONCAT]", file=vh.rel, line=n.lineno, detail="unconditional",
                   expected="`if self._op is BinOp.Operator.CONCAT:` with no further condition", found=src(n.test)[:100] + (" (nested in another if)" if outer else ""))
            sides = {}
            for a in walk_local(n):
                if isinstance(a, ast.Assign) and len(a.targets) == 1 and isinstance(a.value, ast.Attribute) and a.value.attr == "bitvector":
                    t = P.T(a.targets[0])
                    v = src(a.value.value)
                    sides[t] = v
            # each side is converted under a test of ITS OWN operand only
            for a in walk_local(n):
                if isinstance(a, ast.Assign) and len(a.targets) == 1 and isinstance(a.value, ast.Attribute) and a.value.attr == "bitvector":
                    side_ = "_lhs" if "_lhs" in src(a.targets[0]) else "_rhs"
                    other_ = "_rhs" if side_ == "_lhs" else "_lhs"
                    foreign = [src(g.test)[:60] for g in vh.parents.ancestors(a) if isinstance(g, ast.If) and g is not n and any(x is a for x in ast.walk(g)) and other_ in src(g.test) and any(x is g for x in ast.walk(n))]
                    run.ob(not foreign, "vhdl.BinOp.write[CONCAT]", file=vh.rel, line=a.lineno, detail=f"{side_[1:]}-independent", expected=f"the conversion of {side_[1:]} does not depend on the other operand", found="ok" if not foreign else f"only if {foreign}")
            # the two operands are treated alike: the guard of one side is the guard of the other with the operand swapped
            guards = {}
            for a in walk_local(n):
                if isinstance(a, ast.Assign) and len(a.targets) == 1 and isinstance(a.value, ast.Attribute) and a.value.attr == "bitvector":
                    side_ = "lhs" if "_lhs" in src(a.targets[0]) else "rhs"
                    gs = [g for g in vh.parents.ancestors(a) if isinstance(g, ast.If) and g is not n and any(x is a for b in g.body for x in ast.walk(b)) and any(x is g for x in ast.walk(n))]
                    guards[side_] = " and ".join(src(g.test) for g in gs[::-1])
            if "lhs" in guards and "rhs" in guards:
                mirrored = guards["lhs"].replace("_lhs", "_rhs")
                run.ob(mirrored == guards["rhs"], "vhdl.BinOp.write[CONCAT]", file=vh.rel, line=n.lineno, detail="guards-mirror", expected=f"rhs converted under `{mirrored}` (same test as lhs)", found=guards["rhs"][:100])
            for side in ("lhs", "rhs"):
                key = f"self._{side}.result"
                ok = sides.get(key) == key
                run.ob(ok, "vhdl.BinOp.write[CONCAT]", file=vh.rel, line=n.lineno, detail=side,
                       expected=f"{key} = {key}.bitvector", found=str(sides.get(key)))
    if not found_concat:
        raise AnalysisError("anchor vanished: CONCAT branch of BinOp.write")
    for mem in ("LSHIFT", "RSHIFT"):
        br = None
        for n in walk_local(w.node):
            if isinstance(n, ast.If) and f"Operator.{mem}" in P.T(n.test):
                br = n
        if br is None:
            raise AnalysisError(f"anchor vanished: {mem} branch of BinOp.write")
        casts = [c for c in calls_in(br.body) if isinstance(c.func, ast.Attribute) and c.func.attr == "format_cast"]
        ok = bool(casts) and src(casts[0].args[0]).startswith("Integer") and "_rhs" in P.T(casts[0].args[1]) and "_rhs" in P.T(casts[0].args[2])
        run.ob(ok, f"vhdl.BinOp.write[{mem}]", file=vh.rel, line=br.lineno, detail="shift-amount-cast",
               expected="shift = format_cast(Integer(), rhs.result, rhs.write())", found=src(casts[0])[:80] if casts else "no cast")
    run.end()


def rule_flags(run):
    """accumulating flags of the any()/all() constant folding (sibling handlers)."""
    run.begin(
        "C02.anyall",
        "constant folding of any()/all(): the loop-carried flag accumulates (flag = flag or ...), the two handlers "
        "are mirror images (or/and, True/False)",
        floor=2,
    )
    idx = run.idx
    prep = idx.mod(ot.PREP)
    ci = prep.func("PrepareAst.convert_intrinsic")
    facts = {}
    for cls, flag in (("_Any", "always_true"), ("_All", "always_false")):
        br = ot.find_branch(ci.node, ot.isinstance_test("result", cls))
        if br is None:
            raise AnalysisError(f"anchor vanished: branch for {cls} in convert_intrinsic")
        assigns = [a for a in walk_ordered(ast.Module(body=br.body, type_ignores=[])) if isinstance(a, ast.Assign)
                   and any(isinstance(t, ast.Name) and t.id == flag for t in a.targets)]
        in_loop = [a for a in assigns if any(isinstance(x, ast.For) for x in prep.parents.ancestors(a) if x is not ci.node and _within(br, x))]
        if len(assigns) < 2 or not in_loop:
            raise AnalysisError(f"unrecognised folding idiom in the {cls} branch")
        upd = in_loop[0].value
        ok = isinstance(upd, ast.BoolOp) and isinstance(upd.op, ast.Or) and any(isinstance(v, ast.Name) and v.id == flag for v in upd.values)
        run.ob(ok, f"convert_intrinsic[{cls}]", file=prep.rel, line=in_loop[0].lineno, detail=flag,
               expected=f"{flag} = {flag} or <cond>  (accumulates over all constant operands)", found=src(in_loop[0]))
        neg = any(isinstance(v, ast.UnaryOp) and isinstance(v.op, ast.Not) for v in getattr(upd, "values", []))
        rets = [r for r in walk_ordered(ast.Module(body=br.body, type_ignores=[])) if isinstance(r, ast.Return)]
        consts = [src(r.value.args[0]) for r in rets if isinstance(r.value, ast.Call) and dotted(r.value.func) == "out.Value" and r.value.args]
        facts[cls] = (neg, consts, br.lineno)
    exp = {"_Any": (False, ["True", "False"]), "_All": (True, ["False", "True"])}
    for cls, (neg, consts, line) in facts.items():
        run.ob((neg, consts) == exp[cls], f"convert_intrinsic[{cls}]", file=prep.rel, line=line, detail="fold-values",
               expected=f"negated={exp[cls][0]}, short-circuit value then empty value = {exp[cls][1]}", found=f"negated={neg}, {consts}")
    run.end()


def _within(root, node):
    return any(n is node for n in ast.walk(root))


def rule_siblings(run):
    sib.run_rule(run, "F-SIB.arith", sib.ARITH_PAIRS, floor=20)


def rule_widths(run):
    wd.run_rule(run, "C02.c")


def rule_intarith(run):
    intarith.run_rule(run, "C09.c")


def rule_ext(run):
    intarith.run_extension_rule(run, "C09.ext")


def rule_castmatrix(run):
    from . import c05
    c05.rule_back(run)


def rule_tracer_tables(run):
    """the tracer's own operator tables (shared extraction with C10.a): which dunder a Python operator is dispatched to,
    forward and reflected; comparisons with a constant on the left use the MIRRORED operator"""
    from . import c10
    run.begin(
        "C02.tracer",
        "tracer dispatch tables: every binary operator maps to its own (forward, reflected) method pair and a reflected "
        "comparison swaps the operator (a >= b  <=>  b <= a); cohdl.op.truncdiv / rem dispatch to their own protocol "
        "methods, forward on the left operand and reflected on the right one",
        floor=22,
    )
    orc = ot.oracle()["python_ast"]
    prep = run.idx.mod(ot.PREP)
    ai = prep.func("PrepareAst.apply_impl")
    b = c10._branch(ai.node, "ast.BinOp")
    if b is None:
        raise AnalysisError("anchor vanished: ast.BinOp handler")
    rows = c10._op_table(b.body)
    for opn, exp in orc["binop"].items():
        got = rows.get(opn)
        if got is None:
            continue  # an operator the tracer rejects computes nothing
        run.ob(got == exp, "apply_impl[ast.BinOp]", file=prep.rel, line=b.lineno, detail=opn, expected=str(exp), found=str(got))
    sc = prep.func("PrepareAst.apply_impl.<locals>.single_compare")
    rows = c10._op_table(sc.node.body, var="operator", call="evaluate")
    if len(rows) < 6:
        raise AnalysisError("comparison table of single_compare not recognised")
    for opn, exp in orc["compare"].items():
        got = rows.get(opn)
        run.ob(got == exp, "apply_impl[ast.Compare]", file=prep.rel, line=sc.node.lineno, detail=opn, expected=f"{exp} (reflected comparison swaps the operator)", found=str(got))
    # cohdl.op: protocol dispatch
    opm = run.idx.mod("cohdl/_core/_op.py")
    for fn in ("truncdiv", "rem"):
        f = opm.func(fn)
        pa = [a.arg for a in f.node.args.posonlyargs + f.node.args.args]
        if len(pa) != 2:
            raise AnalysisError(f"cohdl.op.{fn}: two operands expected")
        a_, b_ = pa
        fwd, rev = f"_cohdl_{fn}_", f"_cohdl_r{fn}_"
        n = 0
        for c in calls_in(f.node):
            if isinstance(c.func, ast.Attribute) and isinstance(c.func.value, ast.Name) and c.func.value.id in pa and c.func.attr.startswith("_cohdl_"):
                recv = c.func.value.id
                arg = dotted(c.args[0]) if c.args else None
                exp_m, exp_arg = (fwd, b_) if recv == a_ else (rev, a_)
                n += 1
                run.ob(c.func.attr == exp_m and arg == exp_arg, f"cohdl.op.{fn}", file=opm.rel, line=c.lineno, detail=f"dispatch#{n}",
                       expected=f"{recv}.{exp_m}({exp_arg})", found=src(c))
        for c in calls_in(f.node):
            if dotted(c.func) == "hasattr" and len(c.args) == 2 and isinstance(c.args[1], ast.Constant):
                run.ob(c.args[1].value == fwd and dotted(c.args[0]) == a_, f"cohdl.op.{fn}", file=opm.rel, line=c.lineno, detail="probe", expected=f'hasattr({a_}, "{fwd}")', found=src(c))
        if n < 3:
            raise AnalysisError(f"cohdl.op.{fn}: protocol calls not recognised")
    run.end()


def rule_resize(run):
    from ..rules import resizemodel
    resizemodel.run_rule(run, "C09.resize")


def rule_views(run):
    from ..rules import views
    views.run_rule(run, "F-VIEW")


def rule_alias(run):
    from . import c03
    c03.rule_alias(run)   # views of a locally constructed signal are redirected to the alias as well (keyed by root)


def rule_backend_sites(run):
    from . import c05
    c05.rule_backend_sites(run)   # every alternative of a selected assignment is converted for the target


def rule_cleanup(run):
    from . import c08
    c08.rule_cleanup(run)         # an operator result that is still read (through any view) keeps its computation


def rule_ctor_domain(run):
    from . import c09
    c09.rule_ctor_domain(run)   # an int operand becomes a Signed/Unsigned constant only when representable (no silent wrap)


def rule_div_wrap(run):
    from . import c09
    c09.rule_div_wrap(run)   # truncdiv wraps modulo the dividend width, also when folded


def rule_delegation(run):
    from . import c09
    c09.rule_delegation(run)   # reflected operators of qualified objects delegate to the reflected operator of the value


def rule_trial(run):
    from . import c05
    c05.rule_trial(run)      # if-expression / select_with branches are tried against the target type with the SOURCE value


def rule_writeback(run):
    from ..rules import roles as _r
    _r.run_writeback_rule(run, "F-WRITEBACK")   # operands rewritten by a traversal (alias redirection) are stored back, every field


_OP_DUNDERS = {f"__{p}{n}__" for n in ("add", "sub", "mul", "floordiv", "truediv", "mod", "and", "or", "xor", "lshift", "rshift", "matmul", "pow")
               for p in ("", "r")} | {f"__{n}__" for n in ("eq", "ne", "lt", "le", "gt", "ge", "neg", "pos", "invert", "abs", "bool", "index", "int")}
_STUBBED = ["cohdl/_core/_bit.py", "cohdl/_core/_bit_vector.py", "cohdl/_core/_unsigned.py", "cohdl/_core/_signed.py",
            "cohdl/_core/_integer.py", "cohdl/_core/_boolean.py", "cohdl/std/_fixed.py"]


def rule_stub(run):
    """The .pyi stubs are the documented operator surface of the value types.  An operator the stub declares and
    neither the implementation class nor a repo-resolved base defines makes `int <op> value` a TypeError
    instead of the documented value (F62: Integer.__rmul__/__rmod__)."""
    import os
    run.begin("C02.stub", "every operator method the type stub documents for a value type is defined by the class or a resolved base", floor=60)
    idx = run.idx

    def defined(mod, cname, seen):
        """operator names defined by class cname of mod or its resolvable bases"""
        if (mod.rel, cname) in seen:
            return set()
        seen.add((mod.rel, cname))
        try:
            c = mod.cls(cname)
        except AnalysisError:
            return set()
        out = {n.name for n in c.body if isinstance(n, (ast.FunctionDef, ast.AsyncFunctionDef))}
        out |= {t.id for n in c.body if isinstance(n, ast.Assign) for t in n.targets if isinstance(t, ast.Name)}
        for b in c.bases:
            bn = dotted(b)
            if not bn:
                continue
            bn = bn.split(".")[-1]
            if any(isinstance(n, ast.ClassDef) and n.name == bn for n in mod.tree.body):
                out |= defined(mod, bn, seen)
            else:
                r = idx.resolve_import(mod, bn)
                if r:
                    out |= defined(r[0], r[1], seen)
        return out

    for rel in _STUBBED:
        mod = idx.mod(rel)
        stub = os.path.join(idx.repo, rel + "i")
        if not os.path.exists(stub):
            raise AnalysisError(f"anchor vanished: stub {rel}i")
        st = ast.parse(open(stub, encoding="utf-8").read())
        for c in st.body:
            if not isinstance(c, ast.ClassDef):
                continue
            if not any(isinstance(n, ast.ClassDef) and n.name == c.name for n in mod.tree.body):
                continue
            have = defined(mod, c.name, set())
            for n in c.body:
                # operator dunders and the cohdl.op protocol (`_cohdl_truncdiv_`, `_cohdl_rrem_`, ...)
                if isinstance(n, ast.FunctionDef) and (n.name in _OP_DUNDERS or (n.name.startswith("_cohdl_") and n.name.endswith("_"))):
                    run.ob(n.name in have, f"{c.name}.{n.name}", file=rel, line=mod.cls(c.name).lineno, detail="stub-implemented",
                           expected="documented operator is defined", found="defined" if n.name in have else f"declared in {rel}i:{n.lineno}, not defined")
    run.end()


RULES = [rule_rows, rule_hops, rule_tokens, rule_exhaustive, rule_casts, rule_flags, rule_siblings, rule_widths, rule_intarith, rule_ext, rule_castmatrix, rule_tracer_tables, rule_resize, rule_views, rule_alias, rule_backend_sites, rule_cleanup, rule_ctor_domain, rule_div_wrap, rule_trial, rule_writeback, rule_delegation, rule_stub]

LEVEL = "other"
EXPLANATION = (
    "Table agreement and positional-role analysis of the operator pipeline: all operator replacements of "
    "TypeQualifier are extracted and compared with the documented dunder->operator table; every hand-over "
    "(intrinsic object -> out -> ir -> vhdl) is checked for role-preserving argument positions; backend tokens "
    "and operand order are compared with the documented VHDL operators; exhaustiveness of backend entries; cast "
    "placement for concat/shift; any()/all() constant folding; Unsigned/Signed and forward/reflected sibling "
    "agreement; documented result widths per isinstance branch; every operator / cohdl.op protocol method the .pyi stubs document is defined (C02.stub). NOT decided: that numeric_std computes those "
    "functions, value semantics of arbitrary expression trees, if-expression/select_with merging."
)
ASSUMPTIONS = [
    "oracle tables in sa/tables/operators.json (Python data model, documented CoHDL semantics, numeric_std names)",
    "numeric_std implements its operators as specified",
    "justified sibling differences listed in sa/tables/sibling_justified.json",
]
