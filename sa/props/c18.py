"""C18 - std combinational helpers compute their mathematical definition.

Decided by abstract interpretation of the helpers' own source over symbolic bit sequences
(exact for all bit values; widths / lengths / batch sizes enumerated within a bound):
  C18.fold    binary_fold / batched_fold keep the operand order (any parenthesisation), binary_fold is the
              left (right) fold
  C18.layout  concat, repeat, stretch, leftpad, rightpad, pad, rol, ror, lshift_fill, rshift_fill, batched,
              reverse_bits, as_bitvector produce exactly the defining bit arrangement
  C18.first   minimum / maximum / min_element / max_element / min_index / max_index return the FIRST extremum
              (all key lists over a 3-element order, length <= 4)
  C18.width   result widths of count / count_set_bits / count_clear_bits (bit_length of the maximum count)
  C18.mask    apply_mask is (old & ~mask) | (new & mask)
  C18.crc     BitwiseCrc.clear restores the register to the configured initial value; one-bit and multi-bit
              steps are the same step function
Not decided: numerical definitions that depend on operand VALUES of arithmetic (population count values, the
CRC polynomial division itself).
"""

from __future__ import annotations

import ast
import itertools

from ..astutil import AnalysisError, dotted, src, walk_local
from .. import pattern as P
from ..absint import Interp, BV, Bit, Opaque, TypeTok, Reject
from ..rules import shape

CU = "cohdl/std/_core_utility.py"
CRC = "cohdl/std/_crc.py"


class _Tok:
    def __init__(self, n):
        self.n = n

    def __repr__(self):
        return self.n


NULL = _Tok("Null")
FULL = _Tok("Full")


def _bit_ctor(v=None):
    if v is NULL or v is False or v == 0 or v == "0" or v is None:
        return BV([Bit("0")], "Bit")
    if v is FULL or v is True or v == 1 or v == "1":
        return BV([Bit("1")], "Bit")
    if isinstance(v, BV) and v.width == 1:
        return BV(v.bits, "Bit")
    raise AnalysisError(f"Bit({v!r})")


class _BitType(TypeTok):
    def __init__(self):
        super().__init__("Bit")

    def __call__(self, v=None):
        return _bit_ctor(v)


class _VecCtor(TypeTok):
    def __call__(self, v=None):
        w = self.params["width"]
        if v is NULL or v is None:
            return BV([Bit("0")] * w, self.name)
        if v is FULL:
            return BV([Bit("1")] * w, self.name)
        if isinstance(v, BV):
            if v.width > w or (v.width != w and self.name != "Unsigned"):
                raise Reject(f"{self.name}[{w}] from width {v.width}")
            return BV(v.bits + (Bit("0"),) * (w - v.width), self.name)
        if isinstance(v, str):
            if len(v) != w or set(v) - {"0", "1"}:
                raise Reject("string literal of wrong width")
            return BV([Bit(c) for c in reversed(v)], self.name)
        if isinstance(v, int) and not isinstance(v, bool):
            if not 0 <= v < 2 ** w:
                raise Reject("value out of range")
            return BV([Bit(str((v >> i) & 1)) for i in range(w)], self.name)
        raise AnalysisError(f"{self.name}[{w}]({v!r})")


class _Vec:
    def __init__(self, name):
        self.name = name

    def __getitem__(self, w):
        return _VecCtor(self.name, width=w)

    def upto(self, m):
        return _VecCtor(self.name, width=max(int(m).bit_length(), 1))


def prims():
    p = shape.base_prims()
    q = p["Value"]

    class Q(type(q)):
        def __getitem__(self, t):
            if isinstance(t, _VecCtor) or isinstance(t, _BitType):
                return lambda x=None, *a, **k: t(x)
            return super().__getitem__(t)

    qq = Q()
    for k in ("Value", "Ref", "Signal", "Variable", "Temporary"):
        p[k] = qq
    p.update({
        "Bit": _BitType(), "BitVector": _Vec("BitVector"), "Unsigned": _Vec("Unsigned"), "Signed": _Vec("Signed"),
        "Null": NULL, "Full": FULL,
        "static_assert": lambda c, *a, **k: (_ for _ in ()).throw(Reject("static_assert")) if not c else None,
        "zeros": lambda n: BV([Bit("0")] * n), "ones": lambda n: BV([Bit("1")] * n),
        "identity": lambda x: x,
        "_PrivateNone": _Tok("_PrivateNone"),
    })

    def binop(op, l, r):
        if isinstance(l, BV) and isinstance(r, BV):
            if op == "Add":
                w = max(l.width, r.width)
                return BV([Bit(f"sum{w}")] * w, "Unsigned")
            if op in ("BitAnd", "BitOr", "BitXor"):
                if l.width != r.width:
                    raise Reject("width mismatch in bitwise operation")
                return BV([Bit(f"({a} {op} {b})") for a, b in zip(l.bits, r.bits)], "BitVector")
        raise AnalysisError(f"binop {op} on {l!r},{r!r}")

    def unop(op, v):
        if isinstance(v, BV) and op == "Invert":
            return BV([Bit(f"~{b}") for b in v.bits], v.kind)
        raise AnalysisError(f"unop {op}")
    p["__binop__"] = binop
    p["__unop__"] = unop
    return p


def _interp(idx):
    return Interp(idx.mod(CU), prims())


def rule_fold(run):
    run.begin(
        "C18.fold",
        "binary_fold/batched_fold applied to a symbolic operator and n symbolic operands: the in-order sequence of "
        "operands in the result equals the argument order (=> equals the sequential left fold for every associative "
        "operator); binary_fold is exactly the left fold (right fold with right_fold=True)",
        floor=40,
    )
    mod, res = shape.fold_orders(run.idx, run.bound(7, 12))
    f = mod.func("binary_fold")
    for name, cfg, leaves, tree in res:
        order_ok = shape.in_order(tree) == leaves
        exact = True
        if name == "binary_fold":
            exact = shape.is_right_fold(tree, leaves) if "right_fold" in cfg else shape.is_left_fold(tree, leaves)
        run.ob(order_ok and exact, name, file=mod.rel, line=mod.func(name).node.lineno, detail=cfg,
               expected="operands in argument order" + (", left fold" if name == "binary_fold" and "right" not in cfg else ""),
               found=repr(tree)[:100], sample=(cfg in ("n=3", "n=5,batch_size=3")))
    # _batch_args partitions in order
    for n, bs in itertools.product(range(1, run.bound(8, 14)), run.bound((2, 3, 4), (2, 3, 4, 5, 6))):
        it = _interp(run.idx)
        got = it.call_function("_batch_args", list(range(n)), bs)
        flat = [x for b in got for x in b]
        ok = flat == list(range(n)) and all(0 < len(b) <= bs for b in got) and all(len(b) == bs for b in got[:-1])
        run.ob(ok, "_batch_args", file=mod.rel, line=mod.func("_batch_args").node.lineno, detail=f"n={n},batch={bs}", expected="consecutive batches covering all arguments", found=str(got), sample=False)
    run.end()


def _sym(name, w):
    return BV.sym(name, w)


def rule_layout(run):
    run.begin(
        "C18.layout",
        "bit-exact layout of the padding / rotation / repetition helpers for all bit values (symbolic bits), widths 1..5",
        floor=120,
    )
    idx = run.idx
    mod = idx.mod(CU)
    Z, O = Bit("0"), Bit("1")

    def check(fn, detail, args, kwargs, expect_bits):
        it = _interp(idx)
        line = mod.func(fn).node.lineno
        try:
            got = it.call_function(fn, *args, **kwargs)
        except Reject as r:
            run.ob(expect_bits is None, fn, file=mod.rel, line=line, detail=detail, expected="result" if expect_bits is not None else "rejected", found=f"rejected: {r}", sample=False)
            return
        if expect_bits is None:
            run.ob(False, fn, file=mod.rel, line=line, detail=detail, expected="rejected", found=repr(got), sample=False)
            return
        ok = isinstance(got, BV) and list(got.bits) == list(expect_bits)
        run.ob(ok, fn, file=mod.rel, line=line, detail=detail, expected="<" + " ".join(map(repr, reversed(list(expect_bits)))) + ">", found=repr(got)[:120], sample=(detail.endswith("w=3,n=1") or detail.endswith("w=2,f=2")))

    for w in range(1, run.bound(6, 10)):
        x = _sym("x", w)
        xb = list(x.bits)
        # concat: first argument in the most significant position
        for k in (1, 2, 3, 4):
            parts = [_sym(f"p{i}", 1 + (i + w) % 2) for i in range(k)]
            exp = []
            for p in reversed(parts):
                exp.extend(p.bits)
            check("concat", f"k={k},w={w}", parts, {}, exp)
        check("reverse_bits", f"w={w}", [x], {}, list(reversed(xb)))
        for n in range(0, w + 1):
            check("rol", f"w={w},n={n}", [x, n], {}, [xb[(i - n) % w] for i in range(w)])
            check("ror", f"w={w},n={n}", [x, n], {}, [xb[(i + n) % w] for i in range(w)])
        for rw in range(w, w + 3):
            check("leftpad", f"w={w},to={rw}", [x, rw], {}, xb + [Z] * (rw - w))
            check("rightpad", f"w={w},to={rw}", [x, rw], {}, [Z] * (rw - w) + xb)
            check("leftpad", f"w={w},to={rw},fill=Full", [x, rw], {"fill": FULL}, xb + [O] * (rw - w))
        check("leftpad", f"w={w},narrower", [x, w - 1], {}, None) if w > 1 else None
        for l, r in itertools.product(range(0, 3), range(0, 3)):
            check("pad", f"w={w},l={l},r={r}", [x], {"left": l, "right": r}, [Z] * r + xb + [Z] * l)
        for f in range(1, 4):
            check("stretch", f"w={w},f={f}", [x, f], {}, [b for b in xb for _ in range(f)])
            check("repeat", f"w={w},times={f}", [x, f], {}, xb * f)
        check("repeat", f"w={w},times=5", [x, 5], {}, xb * 5)
        for wf in range(1, w + 2):
            fl = _sym("f", wf)
            check("lshift_fill", f"w={w},fill={wf}", [x, fl], {}, (list(fl.bits) + xb[: w - wf]) if wf <= w else None)
            check("rshift_fill", f"w={w},fill={wf}", [x, fl], {}, (xb[wf:] + list(fl.bits)) if wf <= w else None)
    # batched: element k are bits [k*n, (k+1)*n)
    for w, n in itertools.product(range(1, run.bound(8, 13)), range(1, run.bound(4, 6))):
        x = _sym("x", w)
        it = _interp(idx)
        try:
            got = it.call_function("batched", x, n, allow_partial=True)
            exp = [list(x.bits[k:k + n]) for k in range(0, w, n)]
            ok = [list(g.bits) for g in got] == exp
            found = str(got)[:100]
        except Reject as r:
            ok, found = False, f"rejected: {r}"
        run.ob(ok, "batched", file=mod.rel, line=mod.func("batched").node.lineno, detail=f"w={w},n={n}", expected="consecutive n-bit groups starting at bit 0", found=found, sample=False)
        if w % n:
            it = _interp(idx)
            try:
                it.call_function("batched", x, n)
                rej = False
            except Reject:
                rej = True
            run.ob(rej, "batched", file=mod.rel, line=mod.func("batched").node.lineno, detail=f"w={w},n={n},partial-not-allowed", expected="rejected", found="rejected" if rej else "accepted", sample=False)
    b = BV([Bit("b")], "Bit")
    check("as_bitvector", "bit", [b], {}, [Bit("b")])
    run.end()


def rule_first(run):
    run.begin(
        "C18.first",
        "minimum/maximum and the *_element/*_index variants return the first extremum: interpreted for every key list over "
        "{0,1,2} of length 1..4 with identity-tagged elements",
        floor=200,
    )
    idx = run.idx
    mod = idx.mod(CU)

    def key_of(e):
        return e[0]

    p = prims()
    for n in range(1, 5):
        for keys in itertools.product((0, 1, 2), repeat=n):
            elems = [(k, f"e{i}") for i, k in enumerate(keys)]
            for fn, pick in (("minimum", min), ("maximum", max)):
                it = Interp(mod, p)
                got = it.call_function(fn, list(elems), key=key_of)
                best = pick(keys)
                exp = elems[keys.index(best)]
                run.ob(got == exp, fn, file=mod.rel, line=mod.func(fn).node.lineno, detail=f"keys={keys}", expected=f"{exp} (first extremum)", found=repr(got), sample=(keys == (1, 0, 0)))
            for fn, pick in (("min_index", min), ("max_index", max)):
                it = Interp(mod, p)
                got = it.call_function(fn, list(keys))
                exp_i = keys.index(pick(keys))
                ok = isinstance(got, BV) and got.bits == tuple(Bit(str((exp_i >> i) & 1)) for i in range(got.width))
                run.ob(ok, fn, file=mod.rel, line=mod.func(fn).node.lineno, detail=f"keys={keys}", expected=f"index {exp_i}", found=repr(got), sample=False)
    run.end()


def rule_width(run):
    run.begin("C18.width", "result width of count / count_set_bits / count_clear_bits is bit_length(maximum possible count)", floor=14)
    idx = run.idx
    mod = idx.mod(CU)
    p = prims()
    for n in range(1, 10):
        container = [BV([Bit(f"c{i}")], "Bit") for i in range(n)]
        it = Interp(mod, p)
        got = it.call_function("_count_impl", container, lambda e: True)
        ok = isinstance(got, BV) and got.width == n.bit_length()
        run.ob(ok, "_count_impl", file=mod.rel, line=mod.func("_count_impl").node.lineno, detail=f"len={n}", expected=f"width {n.bit_length()} (can hold 0..{n})", found=f"width {got.width if isinstance(got, BV) else got!r}")
    # count_set_bits / count_clear_bits: width formula extracted from the source
    for fn in ("count_set_bits", "count_clear_bits"):
        f = mod.func(fn)
        rw = [a for a in walk_local(f.node) if isinstance(a, ast.Assign) and dotted(a.targets[0]) == "result_width"]
        ok = len(rw) == 1 and P.T(rw[0].value) == "vector.width.bit_length()"
        run.ob(ok, fn, file=mod.rel, line=f.node.lineno, detail="result-width", expected="vector.width.bit_length()", found=src(rw[0].value) if rw else "missing")
        t = P.T(f.node)
        ok = "batched(vector, batch_size, allow_partial=True)" in t and "batched_fold(_safe_add_unsigned, set_cnt)" in t
        run.ob(ok, fn, file=mod.rel, line=f.node.lineno, detail="sum-of-batches", expected="sum of the per-batch counts over all (incl. partial) batches with widening adders", found="ok" if ok else "changed")
    for fn, expr in (("_set_bit_map", "nr.bit_count()"), ("_clear_bit_map", "w - nr.bit_count()")):
        f = mod.func(fn)
        ok = f"T({expr})" in P.T(f.node) and "range(2 ** w)" in P.T(f.node)
        run.ob(ok, fn, file=mod.rel, line=f.node.lineno, detail="table", expected=f"{{nr: T({expr}) for nr in range(2**w)}}", found="ok" if ok else "changed")
    sa = mod.func("_safe_add_unsigned_target")
    ok = "Unsigned[max(a.width, b.width) + 1]" in P.T(sa.node)
    run.ob(ok, "_safe_add_unsigned_target", file=mod.rel, line=sa.node.lineno, detail="no-overflow", expected="max(width) + 1", found="ok" if ok else "changed")
    run.end()


def rule_mask(run):
    run.begin("C18.mask", "apply_mask: every result bit is (old & ~mask) | (new & mask) of the same position", floor=3)
    idx = run.idx
    mod = idx.mod(CU)
    for w in run.bound((1, 2, 3), (1, 2, 3, 4, 8, 16)):
        it = _interp(idx)
        old, new, mask = _sym("o", w), _sym("n", w), _sym("m", w)
        got = it.call_function("apply_mask", old, new, mask)
        exp = [f"((o[{i}] BitAnd ~m[{i}]) BitOr (n[{i}] BitAnd m[{i}]))" for i in range(w)]
        ok = isinstance(got, BV) and [b.tok for b in got.bits] == exp
        run.ob(ok, "apply_mask", file=mod.rel, line=mod.func("apply_mask").node.lineno, detail=f"w={w}", expected="(old & ~mask) | (new & mask) per bit", found=repr(got)[:120])
    run.end()


def rule_crc(run):
    run.begin("C18.crc", "BitwiseCrc: clear() restores the configured initial value (the one the register is constructed with); update is the one-bit instance of _calc_steps", floor=3)
    mod = run.idx.mod(CRC)
    init = mod.func("BitwiseCrc.__init__")
    clear = mod.func("BitwiseCrc.clear")
    reg = [a for a in walk_local(init.node) if isinstance(a, ast.Assign) and dotted(a.targets[0]) == "self._reg"]
    iv = [a for a in walk_local(init.node) if isinstance(a, ast.Assign) and dotted(a.targets[0]) == "self._initial_value"]
    ok = len(reg) == 1 and isinstance(reg[0].value, ast.Call) and reg[0].value.args and dotted(reg[0].value.args[0]) == "initial_value" and len(iv) == 1 and dotted(iv[0].value) == "initial_value"
    run.ob(ok, "BitwiseCrc.__init__", file=mod.rel, line=init.node.lineno, detail="initial", expected="register constructed with, and _initial_value stores, the initial_value argument", found="ok" if ok else "changed")
    st = [a for a in walk_local(clear.node) if isinstance(a, ast.AugAssign) and dotted(a.target) == "self._reg"]
    ok = len(st) == 1 and dotted(st[0].value) == "self._initial_value"
    run.ob(ok, "BitwiseCrc.clear", file=mod.rel, line=clear.node.lineno, detail="restores-initial", expected="self._reg <<= self._initial_value", found=src(st[0]) if st else "missing")
    # one division step, decided by abstract interpretation over symbolic bits (all register / data / polynomial values):
    #   step(r, d)[i] = ite(r[msb] ^ d,  (r << 1)[i] ^ p[i],  (r << 1)[i])
    cs = mod.func("BitwiseCrc._calc_steps")
    up = mod.func("BitwiseCrc.update")

    class _Self:
        def __init__(self, reg, poly):
            self._reg, self._poly = reg, poly
            self._invert_result, self._initial_value = False, None

    def crc_prims(selfobj):
        pr = prims()
        base_binop = pr["__binop__"]

        def binop(op, l, r):
            if op == "LShift" and isinstance(l, BV) and isinstance(r, BV):
                if l.width != r.width:
                    raise Reject("register assigned a value of different width")
                return BV(r.bits, l.kind)  # `self._reg <<= value`: the register takes the value
            if op == "BitXor" and isinstance(l, BV) and isinstance(r, BV) and l.width == r.width:
                return BV([Bit(f"({a} ^ {b})") for a, b in zip(l.bits, r.bits)], "BitVector")
            return base_binop(op, l, r)

        def ifexp(c, a, b):
            if not (isinstance(c, BV) and c.width == 1 and isinstance(a, BV) and isinstance(b, BV) and a.width == b.width):
                raise AnalysisError("crc: unsupported conditional expression")
            return BV([Bit(f"ite({c.bits[0]}, {x}, {y})") for x, y in zip(a.bits, b.bits)], "BitVector")

        def rec(*a):  # self._calc_steps(...) is resolved through the interpreter
            return Interp(mod, crc_prims(selfobj)).call_function("BitwiseCrc._calc_steps", selfobj, *a)

        pr["__binop__"] = binop
        pr["__ifexp__"] = ifexp
        pr["__setattr__"] = lambda o, k, v: setattr(o, k, v)
        return pr

    def spec_step(r, d, p):
        w = r.width
        sh = [Bit("0")] + list(r.bits[: w - 1])
        c = f"({r.bits[-1]} ^ {d.bits[0]})"
        return BV([Bit(f"ite({c}, ({sh[i]} ^ {p.bits[i]}), {sh[i]})") for i in range(w)], "BitVector")

    for w in run.bound((2, 3, 4, 8), (2, 3, 4, 5, 8, 16, 32)):  # a 1-bit register has no `lsb(rest=1)` part (rejected by the vector type itself)
        r, p_ = BV.sym("r", w), BV.sym("p", w)
        ds = [BV([Bit(f"d{k}")], "Bit") for k in range(3)]
        exp1 = spec_step(r, ds[0], p_)
        exp3 = spec_step(spec_step(exp1, ds[1], p_), ds[2], p_)
        so = _Self(r, p_)
        so._calc_steps = lambda *a, _so=so: Interp(mod, crc_prims(_so)).call_function("BitwiseCrc._calc_steps", _so, *a)
        try:
            got1 = Interp(mod, crc_prims(so)).call_function("BitwiseCrc._calc_steps", so, r, ds[0])
            got3 = Interp(mod, crc_prims(so)).call_function("BitwiseCrc._calc_steps", so, r, *ds)
        except Reject as e:
            got1 = got3 = f"rejected: {e}"
        run.ob(got1 == exp1, "BitwiseCrc._calc_steps", file=mod.rel, line=cs.node.lineno, detail=f"division-step[w={w}]",
               expected="shift left by one, xor the polynomial when msb ^ data: " + repr(exp1)[:90], found=repr(got1)[:120], sample=(w == 2))
        run.ob(got3 == exp3, "BitwiseCrc._calc_steps", file=mod.rel, line=cs.node.lineno, detail=f"three-steps[w={w}]",
               expected="each further bit is divided into the result of the previous step, in argument order", found=repr(got3)[:120], sample=False)
        so2 = _Self(r, p_)
        try:
            Interp(mod, crc_prims(so2)).call_function("BitwiseCrc.update", so2, ds[0])
            gotu = so2._reg
        except Reject as e:
            gotu = f"rejected: {e}"
        run.ob(gotu == exp1, "BitwiseCrc.update", file=mod.rel, line=up.node.lineno, detail=f"same-step[w={w}]",
               expected="update(d) leaves one division step of the register in the register", found=repr(gotu)[:120], sample=False)
        um = mod.func("BitwiseCrc.update_multiple")
        so3 = _Self(r, p_)
        so3._calc_steps = lambda *a, _so=so3: Interp(mod, crc_prims(_so)).call_function("BitwiseCrc._calc_steps", _so, *a)
        try:
            Interp(mod, crc_prims(so3)).call_function("BitwiseCrc.update_multiple", so3, *ds)
            gotm = so3._reg
        except Reject as e:
            gotm = f"rejected: {e}"
        run.ob(gotm == exp3, "BitwiseCrc.update_multiple", file=mod.rel, line=um.node.lineno, detail=f"multiple[w={w}]",
               expected="update_multiple(d0, d1, d2) == three single updates", found=repr(gotm)[:120], sample=False)
    run.end()


def rule_choose_first(run):
    run.begin(
        "C18.choose",
        "choose_first((c0, v0), (c1, v1), ..., default=d) yields the value of the FIRST pair whose condition holds and d "
        "when none does - for every truth assignment of up to 4 conditions (abstract evaluation of _first_impl)",
        floor=30,
    )
    mod = run.idx.mod(CU)
    f = mod.func("_first_impl")
    for n in range(0, run.bound(5, 9)):
        for bits in itertools.product((False, True), repeat=n):
            pairs = [(b, f"v{i}") for i, b in enumerate(bits)]
            exp = next((v for c, v in pairs if c), "d")
            try:
                got = Interp(mod, {"len": len}).call_function("_first_impl", *pairs, default="d")
            except Reject as e:
                got = f"rejected: {e}"
            run.ob(got == exp, "_first_impl", file=mod.rel, line=f.node.lineno, detail="conds=" + "".join("T" if b else "F" for b in bits), expected=exp, found=str(got), sample=(bits == (False, True, True)))
    cf = mod.func("_ChooseFirst.__call__")
    ok = P.T(cf.node.body[-1]) == "return self._checked(_first_impl(*args, default=default))"
    run.ob(ok, "_ChooseFirst.__call__", file=mod.rel, line=cf.node.lineno, detail="delegates", expected="_first_impl(*args, default=default)", found=src(cf.node.body[-1])[:80])
    run.end()


def rule_views(run):
    from ..rules import views
    views.run_rule(run, "F-VIEW")   # the helpers slice their operands: a slice of a slice must address the right bits


def rule_tracer(run):
    from . import c02
    c02.rule_tracer_tables(run)   # min/max helpers compare with `<`/`>`: a constant on the left uses the mirrored operator


def rule_replacements(run):
    from . import c02
    c02.rule_rows(run)            # one_hot / shifts are emitted through the operator replacements


def rule_select_python(run):
    run.begin(
        "C18.select",
        "select_with / std.select evaluated on constants (outside a traced context) returns the value stored under the "
        "selector whatever that value is - an all-zero vector, Bit(0) or False included - and the default only when the "
        "selector is not a key (abstract evaluation of cohdl._core._intrinsic.select_with)",
        floor=8,
    )
    from ..absint import Interp, Reject

    class _Val:
        def __init__(self, name, truthy):
            self.name, self.truthy = name, truthy

        def __bool__(self):
            return self.truthy

        def __repr__(self):
            return self.name

    m = run.idx.mod("cohdl/_core/_intrinsic.py")
    f = m.func("select_with")
    zero, one, dflt = _Val("zero-value", False), _Val("nonzero-value", True), _Val("default", True)
    cases = [("k0", {"k0": zero, "k1": one}, dflt, zero), ("k1", {"k0": zero, "k1": one}, dflt, one), ("k2", {"k0": zero, "k1": one}, dflt, dflt), ("k0", {"k0": zero}, None, zero),
             ("k2", {"k0": zero}, None, None), ("k0", {"k0": False}, True, False), ("k0", {"k0": 0}, 7, 0), ("k1", {"k0": 0}, 7, 7), ("k0", {}, dflt, dflt)]
    for arg, branches, default, exp in cases:
        try:
            got = Interp(m, {"isinstance": lambda v, t: isinstance(v, t) if isinstance(t, (type, tuple)) else False}).call_function("select_with", arg, dict(branches), default)
        except Reject as e:
            got = f"rejected: {e}"
        run.ob(got is exp, "select_with", file=m.rel, line=f.node.lineno, detail=f"{arg} in {branches!r}, default={default!r}"[:70], expected=repr(exp), found=repr(got), sample=(arg == "k0" and exp is zero and default is dflt))
    run.end()


def rule_select_targets(run):
    from . import c03
    c03.rule_select_default(run)   # std.select with tuple-valued alternatives: element nr of every alternative AND of the default goes to target nr


def rule_slice_direction(run):
    from . import c06
    c06.rule_slice_direction(run)   # batched / rotate helpers produce one-element slices: they must be emitted `(k downto k)`


RULES = [rule_fold, rule_layout, rule_first, rule_width, rule_mask, rule_crc, rule_choose_first, rule_views, rule_tracer, rule_replacements, rule_select_python, rule_select_targets, rule_slice_direction]
LEVEL = "other"
EXPLANATION = (
    "The std helpers are interpreted abstractly (sa/absint.py walks their ASTs; cohdl is never imported) over symbolic "
    "bit sequences, so the layout identities hold for ALL bit values; widths, lengths, batch sizes and rotation amounts "
    "are enumerated within a small bound (widths 1..5/7, batch sizes 2..4, <= 7 operands). Decided: operand order of "
    "the tree folds, bit-exact layout of concat/pad/rotate/shift-fill/stretch/repeat/batched/reverse, first-extremum "
    "tie-breaking of min/max and their index/element variants, result widths of the counters, the mask formula, CRC "
    "clear/step consistency. NOT decided: values of arithmetic (population counts, the CRC remainder), widths beyond "
    "the bound."
)
ASSUMPTIONS = [
    "models of the primitives the helpers are built on: `@` puts the left operand in the upper bits, v[hi:lo] is the inclusive slice, lsb/msb(n), iteration yields bit 0 first, Value/Ref qualifiers do not move bits",
    "bounded enumeration of widths and lengths (stated per rule)",
]
