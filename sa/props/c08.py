"""C08 - intermediate values are written before read within every activation.

Decided:
  F-DEF      the combine step of the definedness analysis, for every IR branching
             construct it handles, is sound for ALL branch sets (exact: region-set
             interpretation of the arm's own statements)
  C08.b      the analyses run, and run before the passes that lower / delete
  C08.c      the per-state check rejects a first access that is not a WRITE, keyed by
             root, with a fresh map per state
  C08.d      every IR construct that contains sub-blocks has an arm or is lowered before
  C08.leaf   leaf arm / reader: reads are checked against invalid+written, keyed by root
  C08.cleanup  unused-temporary removal keeps every temporary that is read anywhere
"""

from __future__ import annotations

import ast
import itertools

from ..astutil import AnalysisError, dotted, walk_local, src, calls_in, walk_ordered
from .. import pattern as P
from ..regionsets import Interp, Sym, regions, input_set

GEN = "cohdl/_compiler/frontend/_generate_ir.py"
REPR = "cohdl/_core/_ir/_repr.py"


def _find_arms(fn: ast.AST):
    """-> dict class-name -> (stmts of the arm, the If node) from the isinstance chain in the main loop."""
    loops = [n for n in fn.body if isinstance(n, ast.For)]
    if not loops:
        raise AnalysisError("search_invalid_temporaries: main loop not found")
    loop = loops[0]
    arms = {}
    node = loop.body[0] if loop.body else None
    if not isinstance(node, ast.If):
        raise AnalysisError("search_invalid_temporaries: isinstance chain not found")
    stmt_var = loop.target.id if isinstance(loop.target, ast.Name) else None
    else_body = None
    while isinstance(node, ast.If):
        t = node.test
        names = []
        if isinstance(t, ast.Call) and dotted(t.func) == "isinstance" and len(t.args) == 2:
            c = t.args[1]
            for e in (c.elts if isinstance(c, ast.Tuple) else [c]):
                d = dotted(e)
                if d:
                    names.append(d.split(".")[-1])
        if not names:
            raise AnalysisError(f"unrecognised arm test {src(t)}")
        for nm in names:
            arms[nm] = node
        if len(node.orelse) == 1 and isinstance(node.orelse[0], ast.If):
            node = node.orelse[0]
        else:
            else_body = node.orelse
            break
    return loop, stmt_var, arms, else_body


def _run_arm(arm_body, stmt_var, n_branches, has_default, kind, fn_name, pre_invalid=None):
    """interpret one arm with symbolic branch sets; -> (universe, inputs, local_after, invalid_after)."""
    n_inputs = n_branches + (1 if has_default else 0)
    inputs = [input_set(i, n_inputs) for i in range(n_inputs)]
    tokens = [Sym(f"branch{i}") for i in range(n_branches)]
    dtoken = Sym("default") if has_default else None
    order = []

    def oracle(tok):
        if isinstance(tok, Sym):
            if tok is dtoken:
                order.append("default")
                return set(inputs[n_branches])
            if tok in tokens:
                i = tokens.index(tok)
                order.append(i)
                return set(inputs[i])
        if tok is None:
            raise AnalysisError("recursive call on None")
        raise AnalysisError(f"recursive call on unknown token {tok}")

    if kind == "If":
        stmt = {"_test": Sym("test"), "_body": tokens[0], "_orelse": tokens[1] if n_branches > 1 else Sym("x")}
    else:
        stmt = {
            "_value": Sym("value"),
            "_branches": [(Sym(f"cond{i}"), tokens[i]) for i in range(n_branches)],
            "_default": dtoken,
        }
    invalid = set(pre_invalid or ())
    local = set()
    env = {
        stmt_var: stmt,
        "invalid_temporaries": invalid,
        "local_temporaries": local,
        "None": None,
        "AccessFlags": {"READ": "R", "WRITE": "W", "PUSH": "P"},
    }
    it = Interp(env, fn_name, oracle, {"check_used_temporaries"})
    it.run(arm_body)
    return inputs, env["local_temporaries"], env["invalid_temporaries"], order


def rule_fdef(run):
    run.begin(
        "F-DEF",
        "definite-assignment combine of search_invalid_temporaries is sound for all branch sets: what an arm "
        "adds to the always-defined set lies in the intersection over all alternatives (empty when an implicit "
        "fall-through alternative exists) and everything defined in some but not all alternatives is invalid",
        floor=10,
    )
    mod = run.idx.mod(GEN)
    f = mod.func("ConvertInstance.detect_uninitialized_temporaries.<locals>.search_invalid_temporaries")
    loop, stmt_var, arms, else_body = _find_arms(f.node)
    if "If" not in arms or "CaseWhen" not in arms:
        raise AnalysisError(f"arms for If/CaseWhen not found (found {sorted(arms)})")
    configs = [("If", 2, False)]
    for n in (1, 2, 3):
        for d in (True, False):
            configs.append(("CaseWhen", n, d))
    for kind, n, d in configs:
        arm = arms[kind]
        try:
            inputs, local, invalid, order = _run_arm(arm.body, stmt_var, n, d, kind, f.node.name)
        except AnalysisError as e:
            raise AnalysisError(f"F-DEF: cannot interpret the {kind} arm ({e})")
        n_inputs = len(inputs)
        universe = set(regions(n_inputs))
        union = set().union(*inputs)
        if kind == "If" or d:
            always = set(universe)
            for s in inputs:
                always &= s
        else:
            always = set()
        unsound_local = sorted(local - always)
        missing_invalid = sorted((union - always) - invalid)
        visited_all = len(order) == n_inputs

        def show(rs):
            return [
                "in{" + ",".join(("default" if (d and i == n_inputs - 1 and kind != "If") else f"b{i}") for i in range(n_inputs) if r & (1 << i)) + "}"
                for r in rs
            ]

        cfg = f"{kind}[branches={n},default={d}]"
        run.ob(
            not unsound_local and not missing_invalid and visited_all,
            "search_invalid_temporaries." + kind,
            file=mod.rel,
            line=arm.lineno,
            detail=cfg,
            expected="always-defined ⊆ ⋂ alternatives (∅ without default); invalid ⊇ (⋃ alternatives) ∖ always; every alternative analysed",
            found=(
                "sound"
                if not unsound_local and not missing_invalid and visited_all
                else f"treated as always-defined although not: {show(unsound_local)}; "
                f"partially defined but not invalid: {show(missing_invalid)}; alternatives analysed: {order}"
            ),
        )
        over_strict = sorted(always - local)
        if over_strict:
            run.note(f"{cfg}: over-strict (rejects values that are always defined): {show(over_strict)}")
        # sibling-read clause: when alternative k is analysed, nothing defined only in an earlier
        # sibling may look valid.  Re-run with the hook observing `invalid` at each recursive call.
    # sibling visibility: temporaries of branch i must already be invalid when branch i+1 is analysed
    for kind, n, d in (("If", 2, False), ("CaseWhen", 2, True), ("CaseWhen", 3, False)):
        arm = arms[kind]
        ok, found = _sibling_visibility(arm.body, stmt_var, n, d, kind, f.node.name)
        run.ob(ok, "search_invalid_temporaries." + kind, file=mod.rel, line=arm.lineno,
               detail=f"{kind}[branches={n},default={d}].sibling-visibility",
               expected="while alternative k is analysed, temporaries defined only in alternatives <k are already invalid",
               found=found)
    run.end()


def _sibling_visibility(arm_body, stmt_var, n_branches, has_default, kind, fn_name):
    n_inputs = n_branches + (1 if has_default else 0)
    inputs = [input_set(i, n_inputs) for i in range(n_inputs)]
    tokens = [Sym(f"branch{i}") for i in range(n_branches)]
    dtoken = Sym("default") if has_default else None
    seen = []
    problems = []
    holder = {}

    def oracle(tok):
        i = n_branches if tok is dtoken else tokens.index(tok)
        inv = holder["env"]["invalid_temporaries"]
        for j in seen:
            only_earlier = inputs[j] - inputs[i]
            # regions defined in j but not in i: reading them inside alternative i must be rejected
            leak = {r for r in only_earlier if r not in inv and not (r & (1 << i))}
            if leak:
                problems.append(f"alternative {i} sees temporaries of alternative {j} as valid")
        seen.append(i)
        return set(inputs[i])

    if kind == "If":
        stmt = {"_test": Sym("t"), "_body": tokens[0], "_orelse": tokens[1]}
    else:
        stmt = {"_value": Sym("v"), "_branches": [(Sym("c"), t) for t in tokens], "_default": dtoken}
    env = {stmt_var: stmt, "invalid_temporaries": set(), "local_temporaries": set(), "None": None,
           "AccessFlags": {"READ": "R", "WRITE": "W", "PUSH": "P"}}
    holder["env"] = env
    it = Interp(env, fn_name, oracle, {"check_used_temporaries"})
    it.run(arm_body)
    return (not problems), ("ok" if not problems else "; ".join(sorted(set(problems))))


def rule_leaf(run):
    run.begin(
        "C08.leaf",
        "reader and leaf arm of the definedness analysis: READ of a Temporary is rejected when its root is invalid "
        "or unwritten; definitions are recorded by root and only when not maybe_uninitialized; nested CodeBlocks merge",
        floor=5,
    )
    mod = run.idx.mod(GEN)
    chk = mod.func("ConvertInstance.detect_uninitialized_temporaries.<locals>.check_used_temporaries")
    text = P.T(chk.node)
    asserts = [n for n in walk_local(chk.node) if isinstance(n, ast.Assert)]
    a_inv = any("not in invalid_temporaries" in P.T(a.test) for a in asserts)
    a_wr = any("in written_temporaries" in P.T(a.test) and "not in" not in P.T(a.test) for a in asserts)
    run.ob(a_inv, "check_used_temporaries", file=mod.rel, line=chk.node.lineno, detail="assert-invalid",
           expected="assert root not in invalid_temporaries on READ", found="present" if a_inv else "missing")
    run.ob(a_wr, "check_used_temporaries", file=mod.rel, line=chk.node.lineno, detail="assert-written",
           expected="assert root in written_temporaries on READ", found="present" if a_wr else "missing")
    keyed = "id(obj._root)" in text and "root_id" in text
    run.ob(keyed, "check_used_temporaries", file=mod.rel, line=chk.node.lineno, detail="keyed-by-root",
           expected="keyed by id(obj._root)", found="ok" if keyed else text[:80])
    # the READ test must be the first-level condition guarding the asserts and must test Temporary
    guards_ok = False
    for n in walk_local(chk.node):
        if isinstance(n, ast.If) and "AccessFlags.READ" in P.T(n.test):
            inner = [x for x in walk_local(n) if isinstance(x, ast.Assert)]
            if len(inner) >= 2 and "Temporary" in P.T(n):
                guards_ok = True
    run.ob(guards_ok, "check_used_temporaries", file=mod.rel, line=chk.node.lineno, detail="read-guard",
           expected="both assertions executed for READ accesses of Temporary objects", found="ok" if guards_ok else "guard changed")
    # ... and for ALL of them: no further condition may exempt a read (e.g. by a flag of the temporary)
    from .c07 import guards as _guards
    allowed = ["if access is AccessFlags.READ", "if isinstance(obj, Temporary)", "if access is AccessFlags.READ and isinstance(obj, Temporary)",
               "if isinstance(obj, Temporary) and access is AccessFlags.READ", "if access.is_read()", "if access.is_read() and isinstance(obj, Temporary)"]
    for k, a in enumerate(asserts):
        g = _guards(chk.node, a, mod.parents)
        extra = [x for x in g if not any(x == al for al in allowed)]
        run.ob(not extra, "check_used_temporaries", file=mod.rel, line=a.lineno, detail=f"no-exemption#{k}",
               expected="checked for every READ of every Temporary (no further condition)", found=str([str(x) for x in extra]) if extra else "ok")

    f = mod.func("ConvertInstance.detect_uninitialized_temporaries.<locals>.search_invalid_temporaries")
    loop, stmt_var, arms, else_body = _find_arms(f.node)
    # CodeBlock arm merges nested definitions into local
    cb = arms.get("CodeBlock")
    ok = cb is not None and any(
        isinstance(s, ast.AugAssign) and isinstance(s.op, ast.BitOr) and dotted(s.target) == "local_temporaries"
        and isinstance(s.value, ast.Call) and dotted(s.value.func) == f.node.name
        for s in cb.body
    ) if cb is not None else False
    run.ob(ok, "search_invalid_temporaries.CodeBlock", file=mod.rel, line=(cb.lineno if cb else f.node.lineno),
           detail="merge", expected="local_temporaries |= search_invalid_temporaries(stmt)", found="ok" if ok else "changed")
    # leaf arm: visits referenced objects first, then records definitions guarded by not _maybe_uninitialized
    if not else_body:
        raise AnalysisError("leaf arm (else) of search_invalid_temporaries not found")
    first = else_body[0]
    visits_first = isinstance(first, ast.Expr) and "_visit_referenced_objects" in P.T(first) and "check_used_temporaries" in P.T(first)
    run.ob(visits_first, "search_invalid_temporaries.leaf", file=mod.rel, line=first.lineno, detail="reads-checked-first",
           expected="statement's reads are checked before its own result is recorded as defined",
           found="ok" if visits_first else src(first)[:80])
    adds = [n for n in ast.walk(ast.Module(body=else_body, type_ignores=[])) if isinstance(n, ast.Call)
            and isinstance(n.func, ast.Attribute) and n.func.attr == "add" and dotted(n.func.value) == "local_temporaries"]
    pm = mod.parents
    n_guarded = 0
    for a in adds:
        g = False
        for anc in pm.ancestors(a):
            if isinstance(anc, ast.If) and "_maybe_uninitialized" in P.T(anc.test) and isinstance(anc.test, ast.UnaryOp):
                g = True
            if anc is f.node:
                break
        n_guarded += g
        run.ob(g, "search_invalid_temporaries.leaf", file=mod.rel, line=a.lineno, detail=f"definition#{adds.index(a)}",
               expected="recorded as defined only if not root._maybe_uninitialized", found="guarded" if g else "unguarded")
    if len(adds) < 2:
        raise AnalysisError("leaf arm: expected two definition sites (Expression result, VariableAssignment target)")
    run.end()


def rule_order(run):
    run.begin(
        "C08.b",
        "the temporaries checks run before the passes that lower or delete: check_temporaries before as_case_when; "
        "detect_uninitialized_temporaries before cleanup_unused / cleanup_bool_cast",
        floor=3,
    )
    rp = run.idx.mod(REPR)
    init = rp.func("Sequential.__init__")
    tr = None
    for q, f in rp.functions.items():
        if q.startswith("Sequential.__init__.<locals>."):
            calls = [c for c in walk_ordered(f.node) if isinstance(c, ast.Call) and isinstance(c.func, ast.Attribute)]
            names = [c.func.attr for c in calls]
            if "as_case_when" in names:
                tr = (f, names)
    if tr is None:
        raise AnalysisError("anchor vanished: lowering of Statemachine in Sequential.__init__")
    f, names = tr
    ok = "check_temporaries" in names and names.index("check_temporaries") < names.index("as_case_when")
    # same branch: both under the same isinstance(stmt, Statemachine)
    run.ob(ok, "Sequential.__init__", file=rp.rel, line=f.node.lineno, detail="check-before-lowering",
           expected="stmt.check_temporaries() precedes stmt.as_case_when()", found=str([n for n in names if n in ("check_temporaries", "as_case_when")]))
    # the translation is applied to the code
    applied = any(isinstance(c.func, ast.Attribute) and c.func.attr == "visit" and c.args and dotted(c.args[0]) == f.node.name
                  for c in calls_in(init.node))
    run.ob(applied, "Sequential.__init__", file=rp.rel, line=init.node.lineno, detail="applied",
           expected=f"code.visit({f.node.name})", found="ok" if applied else "not applied")
    sm = rp.func("Statemachine.check_temporaries")
    ok = any(isinstance(c.func, ast.Attribute) and c.func.attr == "_check_temporaries" for c in calls_in(sm.node))
    run.ob(ok, "Statemachine.check_temporaries", file=rp.rel, line=sm.node.lineno, detail="delegates",
           expected="calls StatemachineContext._check_temporaries", found="ok" if ok else "does not")

    gen = run.idx.mod(GEN)
    ap = gen.func("ConvertInstance.apply")
    # inside the Sequential branch
    found_branch = False
    for n in walk_local(ap.node):
        if isinstance(n, ast.If) and "out.Sequential" in P.T(n.test):
            found_branch = True
            seq = []
            for c in walk_ordered(ast.Module(body=n.body, type_ignores=[])):
                if isinstance(c, ast.Call):
                    nm = (dotted(c.func) or "").split(".")[-1]
                    if nm in ("detect_uninitialized_temporaries", "cleanup_unused", "cleanup_bool_cast", "convert_sequential"):
                        seq.append((nm, c))
            names = [s[0] for s in seq]
            ok = (
                "detect_uninitialized_temporaries" in names
                and all(names.index("detect_uninitialized_temporaries") < i for i, x in enumerate(names) if x.startswith("cleanup"))
                and names.index("convert_sequential") < names.index("detect_uninitialized_temporaries")
            )
            # the detect call must be unconditional within the branch
            det = [s[1] for s in seq if s[0] == "detect_uninitialized_temporaries"]
            uncond = bool(det) and gen.parents.enclosing_stmt(det[0]) in n.body
            run.ob(ok and uncond, "ConvertInstance.apply", file=gen.rel, line=n.lineno, detail="detect-before-cleanup",
                   expected="convert_sequential → detect_uninitialized_temporaries (unconditional) → cleanup_*",
                   found=f"{names}, unconditional={uncond}")
    if not found_branch:
        raise AnalysisError("anchor vanished: Sequential branch of ConvertInstance.apply")
    run.end()


def rule_state_check(run):
    run.begin(
        "C08.c",
        "StatemachineContext._check_temporaries: per state a fresh map; first access to a temporary root must be a WRITE",
        floor=3,
    )
    rp = run.idx.mod(REPR)
    f = rp.func("StatemachineContext._check_temporaries")
    loops = [n for n in f.node.body if isinstance(n, ast.For)]
    ok_loop = bool(loops) and "_states" in P.T(loops[0].iter)
    if not ok_loop:
        raise AnalysisError("anchor vanished: loop over states in _check_temporaries")
    loop = loops[0]
    fresh = [s for s in loop.body if isinstance(s, (ast.Assign, ast.AnnAssign)) and "used_temporaries" in P.T(s.targets[0] if isinstance(s, ast.Assign) else s.target)]
    run.ob(bool(fresh), "StatemachineContext._check_temporaries", file=rp.rel, line=loop.lineno, detail="fresh-map-per-state",
           expected="used_temporaries is (re)created inside the per-state loop", found="inside loop" if fresh else "hoisted out of the loop / missing")
    chk = None
    for q, g in rp.functions.items():
        if q.startswith("StatemachineContext._check_temporaries.<locals>."):
            chk = g
    if chk is None:
        raise AnalysisError("anchor vanished: check callback in _check_temporaries")
    inside = any(chk.node is s for s in loop.body)
    asserts = [a for a in walk_local(chk.node) if isinstance(a, ast.Assert)]
    a_ok = any(norm_cmp(a.test) for a in asserts)
    run.ob(a_ok, "StatemachineContext._check_temporaries", file=rp.rel, line=chk.node.lineno, detail="first-access-write",
           expected="assert access is AccessFlags.WRITE for the first access", found="ok" if a_ok else "assertion changed: " + "; ".join(src(a.test) for a in asserts))
    text = P.T(chk.node)
    keyed = "obj._root not in used_temporaries" in text and "used_temporaries[obj._root]" in text
    run.ob(keyed, "StatemachineContext._check_temporaries", file=rp.rel, line=chk.node.lineno, detail="keyed-by-root",
           expected="membership and insertion keyed by obj._root", found="ok" if keyed else "changed")
    visits = any(isinstance(c.func, ast.Attribute) and c.func.attr == "visit_objects" and c.args and dotted(c.args[0]) == chk.node.name
                 and dotted(c.func.value) == (loop.target.id if isinstance(loop.target, ast.Name) else None)
                 for s in loop.body for c in calls_in(s))
    # index / offset operands of references are objects of the state as well (an awaited `vec[idx]` reads the index temporary)
    ref_visit = any((isinstance(c.func, ast.Attribute) and c.func.attr == "visit_referenced_objects" or dotted(c.func) in ("_visit_referenced_objects", "ir._visit_referenced_objects"))
                    and any(dotted(a) == chk.node.name for a in c.args) for s_ in loop.body for c in calls_in(s_))
    run.ob(ref_visit, "StatemachineContext._check_temporaries", file=rp.rel, line=loop.lineno, detail="index-operands",
           expected="the per-state check also covers index/offset operands of references (visit_referenced_objects)",
           found="ok" if ref_visit else "visit_objects only: the index temporary of `await vec[idx]` is written in one state and read in the next, unchecked")
    run.ob(visits and inside, "StatemachineContext._check_temporaries", file=rp.rel, line=loop.lineno, detail="applied-per-state",
           expected="state.visit_objects(check) for every state", found="ok" if visits and inside else "not applied per state")
    run.end()


def norm_cmp(test) -> bool:
    return (
        isinstance(test, ast.Compare)
        and len(test.ops) == 1
        and isinstance(test.ops[0], ast.Is)
        and dotted(test.left) == "access"
        and dotted(test.comparators[0]) == "AccessFlags.WRITE"
    )


LOWERED_BEFORE = {
    # IR classes with sub-blocks that cannot reach the analysis, with the reason
    "_State": "only inside Statemachine, which Sequential.__init__ lowers to CaseWhen (C08.b)",
    "Statemachine": "lowered by Sequential.__init__ via as_case_when before ConvertInstance.apply analyses the context (C08.b)",
    "StatemachineContext": "not a statement",
    "Context": "the analysed root itself", "Sequential": "the analysed root itself", "Concurrent": "the analysed root itself",
    "Block": "container of contexts, not part of a context body", "EntityTemplate": "container", "Entity": "container",
    "EntityInst": "container", "Library": "container",
}


def rule_arms(run):
    run.begin(
        "C08.d",
        "every IR statement class that owns sub-blocks (CodeBlock fields) has an arm in search_invalid_temporaries "
        "or is lowered before the analysis runs",
        floor=3,
    )
    gen = run.idx.mod(GEN)
    f = gen.func("ConvertInstance.detect_uninitialized_temporaries.<locals>.search_invalid_temporaries")
    loop, stmt_var, arms, else_body = _find_arms(f.node)
    rp = run.idx.mod(REPR)
    owners = {}
    for cname, c in rp.classes.items():
        if "." in cname:
            continue
        # a class owns sub-blocks if its visit() recurses into fields via `.visit(`
        vis = rp.functions.get(f"{cname}.visit")
        if vis is None:
            continue
        rec = [cl for cl in calls_in(vis.node) if isinstance(cl.func, ast.Attribute) and cl.func.attr == "visit"
               and dotted(cl.func.value) not in (None, "super") and (dotted(cl.func.value) or "").startswith("self.") is False]
        rec2 = [cl for cl in calls_in(vis.node) if isinstance(cl.func, ast.Attribute) and cl.func.attr == "visit"
                and (dotted(cl.func.value) or "").startswith("self._")]
        loops = [n for n in walk_local(vis.node) if isinstance(n, (ast.For, ast.ListComp))]
        if rec2 or (rec and loops):
            owners[cname] = vis
    if len(owners) < 3:
        raise AnalysisError(f"C08.d: extraction of block-owning IR classes broke (found {sorted(owners)})")
    def constructed(cname):
        sites = []
        for m in run.idx.all_modules("cohdl/"):
            for q, g in m.functions.items():
                if m is rp and q.startswith(cname + "."):
                    continue  # the class's own copy()
                for c in calls_in(g.node):
                    d = dotted(c.func) or ""
                    if d == f"ir.{cname}" or (m is rp and d == cname):
                        sites.append(f"{m.rel}:{c.lineno}")
        return sites

    for cname, vis in sorted(owners.items()):
        handled = cname in arms
        lowered = cname in LOWERED_BEFORE
        found = "arm" if handled else LOWERED_BEFORE.get(cname)
        if not handled and not lowered:
            sites = constructed(cname)
            if not sites:
                lowered = True
                found = "never constructed anywhere in cohdl/ (its front-end counterpart is lowered to If/CaseWhen)"
            else:
                found = f"NO arm, but constructed at {sites[:3]}: its sub-blocks are treated as one straight-line statement"
        run.ob(handled or lowered, f"ir.{cname}", file=rp.rel, line=vis.node.lineno, detail="arm",
               expected="arm in search_invalid_temporaries, lowered before, or never constructed",
               found=found)
    run.end()


def rule_cleanup(run):
    run.begin(
        "C08.cleanup",
        "cleanup_unused deletes the definition of a temporary only if no statement reads its root anywhere "
        "(reads collected over all referenced objects incl. index/offset operands); cleanup_bool_cast only drops "
        "ir.Boolean casts between root temporaries of type bool and rewrites every use",
        floor=6,
    )
    gen = run.idx.mod(GEN)
    cu = gen.func("ConvertInstance.cleanup_unused")
    finder = gen.func("ConvertInstance.cleanup_unused.<locals>.find_used_temp")
    remover = gen.func("ConvertInstance.cleanup_unused.<locals>.remove_unused_assignments")
    t = P.T(finder.node)
    # the set of used roots, whatever it is called: the set the removal guard tests (`root not in <set>`)
    used_sets = {b["__u"] for _n, b in P.find(remover.node, "__r not in __u")}
    if len(used_sets) != 1:
        raise AnalysisError(f"cleanup_unused: removal guard `root not in <used set>` not recognised ({sorted(used_sets)})")
    used = next(iter(used_sets))
    marks = P.has(finder.node, "__u.add(obj._root)", {"__u": used}) or any(
        P.has(finder.node, "__r = obj._root", {"__r": b["__r"]}) for _n, b in P.find(finder.node, "__u.add(__r)", {"__u": used}))
    ok = "access.is_read()" in t and "isinstance(obj, Temporary)" in t and marks
    run.ob(ok, "cleanup_unused.find_used_temp", file=gen.rel, line=finder.node.lineno, detail="collect-reads",
           expected="every read (access.is_read()) of a Temporary marks its root as used", found="ok" if ok else t[:120])
    applied = [c for c in calls_in(cu.node) if c.args and dotted(c.args[0]) == "find_used_temp"]
    how = applied[0].func.attr if applied and isinstance(applied[0].func, ast.Attribute) else None
    run.ob(how == "visit_referenced_objects", "cleanup_unused", file=gen.rel, line=cu.node.lineno, detail="collect-scope",
           expected="ctx.visit_referenced_objects(find_used_temp) (includes index/offset operands of references)",
           found=str(how))
    # removal only under `root not in used_temporaries`
    rets = [r for r in walk_local(remover.node) if isinstance(r, ast.Return)]
    pm = gen.parents
    bad = []
    n_removals = 0
    for r in rets:
        if isinstance(r.value, ast.Name):
            continue  # return stmt
        n_removals += 1
        guarded = False
        for anc in pm.ancestors(r):
            if isinstance(anc, ast.If) and P.has(anc.test, "__r not in __u", {"__u": used}):
                guarded = True
            if anc is remover.node:
                break
        if not guarded:
            bad.append(r.lineno)
    run.ob(not bad and n_removals >= 1, "cleanup_unused.remove_unused_assignments", file=gen.rel, line=remover.node.lineno,
           detail="guarded-removal", expected="a definition is replaced only under `root not in used_temporaries`",
           found="ok" if not bad else f"unguarded removal at line(s) {bad}")
    kinds = sorted(set(
        (dotted(c.args[1]) or src(c.args[1])) for c in calls_in(remover.node)
        if dotted(c.func) == "isinstance" and len(c.args) == 2 and dotted(c.args[0]) == "stmt"))
    run.ob(kinds == ["ir.Expression", "ir.VariableAssignment"], "cleanup_unused.remove_unused_assignments", file=gen.rel,
           line=remover.node.lineno, detail="statement-kinds",
           expected="only ir.Expression results and ir.VariableAssignment targets are candidates", found=str(kinds))
    order_ok = True
    names = [(dotted(c.args[0]) if c.args else None) for c in walk_ordered(cu.node) if isinstance(c, ast.Call) and isinstance(c.func, ast.Attribute) and c.func.attr in ("visit", "visit_referenced_objects", "visit_objects")]
    order_ok = names[:2] == ["find_used_temp", "remove_unused_assignments"]
    run.ob(order_ok, "cleanup_unused", file=gen.rel, line=cu.node.lineno, detail="collect-then-remove",
           expected="uses are collected over the whole context before anything is removed", found=str(names))

    cb = gen.func("ConvertInstance.cleanup_bool_cast")
    srch = gen.func("ConvertInstance.cleanup_bool_cast.<locals>.search_unneeded_bool_casts")
    t = P.T(srch.node)
    conds = ["isinstance(stmt, ir.Boolean)", "isinstance(source, Temporary)", "isinstance(target, Temporary)",
             "source._root is source", "target._root is target", "source.type is _boolean.boolean", "target.type is _boolean.boolean"]
    missing = [c for c in conds if c not in t]
    only_boolean = [src(c.args[1]) for c in calls_in(srch.node) if dotted(c.func) == "isinstance" and dotted(c.args[0]) == "stmt"]
    run.ob(not missing and only_boolean == ["ir.Boolean"], "cleanup_bool_cast.search_unneeded_bool_casts", file=gen.rel,
           line=srch.node.lineno, detail="candidates",
           expected="only ir.Boolean casts between root Temporaries of type bool are dropped",
           found="ok" if not missing and only_boolean == ["ir.Boolean"] else f"missing conditions {missing}; statement kinds {only_boolean}")
    # chains of removed casts: after the pass no reference to a removed cast result may remain (abstract evaluation)
    from ..absint import Interp, Reject

    class _Tmp:
        def __init__(self, name):
            self.name, self._root, self.type = name, self, "BOOL"

    class _Cast:
        def __init__(self, arg, result):
            self._arg, self._result = arg, result

    class _Nop:
        pass

    class _Use:
        def __init__(self, obj):
            self.obj = obj

    class _Ctx:
        def __init__(self, stmts, uses):
            self.stmts, self.uses = stmts, uses

        def visit(self, fn):
            self.stmts = [fn(st) for st in self.stmts]

        def visit_referenced_objects(self, fn):
            for u in self.uses:
                u.obj = fn(u.obj, "READ")

    class _NS:
        def __init__(self, **kw):
            self.__dict__.update(kw)

        def __getattr__(self, name):  # any other IR class: a distinct class no model statement is an instance of
            if name.startswith("__"):
                raise AttributeError(name)
            c = type(name, (), {})
            self.__dict__[name] = c
            return c

    def _isinst(v, t):
        ts = t if isinstance(t, tuple) else (t,)
        return any(isinstance(x, type) and isinstance(v, x) for x in ts)

    for n_chain in (1, 2, 3, 4):
        for order in ("forward", "reverse"):
            tmps = [_Tmp(f"t{i}") for i in range(n_chain + 1)]
            casts = [_Cast(tmps[i], tmps[i + 1]) for i in range(n_chain)]
            if order == "reverse":
                casts = list(reversed(casts))
            uses = [_Use(t) for t in tmps[1:]]
            ctxm = _Ctx(list(casts), uses)
            prims = {"isinstance": _isinst, "Temporary": _Tmp, "IdMap": dict, "ir": _NS(Boolean=_Cast, Nop=_Nop), "_boolean": _NS(boolean="BOOL")}
            try:
                Interp(gen, prims).call_function("ConvertInstance.cleanup_bool_cast", ctxm)
                removed = [c._result for c, st in zip(casts, ctxm.stmts) if isinstance(st, _Nop)]
                dangling = sorted({u.obj.name for u in uses if any(u.obj is r for r in removed)})
                found = "ok" if not dangling else f"uses still refer to removed cast results {dangling}"
            except Reject as e:
                dangling, found = ["?"], f"rejected: {e}"
            run.ob(not dangling, "cleanup_bool_cast", file=gen.rel, line=cb.node.lineno, detail=f"chain={n_chain},{order}",
                   expected="every use of a removed cast result is rewritten to a temporary that is still assigned", found=found, sample=(n_chain == 2 and order == "forward"))
    rep = [c for c in calls_in(cb.node) if c.args and dotted(c.args[0]) == "replace_temporaries"]
    how = rep[0].func.attr if rep and isinstance(rep[0].func, ast.Attribute) else None
    run.ob(how == "visit_referenced_objects", "cleanup_bool_cast", file=gen.rel, line=cb.node.lineno, detail="rewrite-scope",
           expected="every reference (incl. index/offset operands) to a dropped cast result is rewritten", found=str(how))
    run.end()


def rule_writeback(run):
    from ..rules import roles as _roles
    _roles.run_writeback_rule(run, "F-WRITEBACK")


def rule_state_root(run):
    run.begin(
        "C08.state",
        "a state's traversals all start at the state's WHOLE code (self._code), never at the block that happened to be "
        "open last: per-state alias resolution, visit, visit_objects, update_transitions",
        floor=4,
    )
    rp = run.idx.mod(REPR)
    init = rp.func("_State.__init__")
    # the root field: the one the first constructor parameter is stored in
    p0 = init.node.args.args[1].arg
    roots = [dotted(a.targets[0]) for a in walk_local(init.node) if isinstance(a, ast.Assign) and dotted(a.value) == p0 and (dotted(a.targets[0]) or "").startswith("self.")]
    if len(roots) != 1:
        raise AnalysisError("_State.__init__: root code field not recognised")
    root = roots[0]
    for meth in ("fix_alias", "visit", "visit_objects", "update_transitions", "code", "empty"):
        f = rp.functions.get(f"_State.{meth}")
        if f is None:
            continue
        recv = sorted({dotted(x) for x in ast.walk(f.node) if isinstance(x, ast.Attribute) and isinstance(x.value, ast.Name) and x.value.id == "self" and x.attr.startswith("_") and x.attr not in ("_state_id",)})
        run.ob(recv == [root], f"_State.{meth}", file=rp.rel, line=f.node.lineno, detail="root", expected=f"operates on {root} only", found=str(recv))
    run.end()


def rule_refspec_reads(run):
    run.begin(
        "C08.refspec",
        "index / offset / slice-bound objects inside a reference are READ, whatever the access to the referenced object is "
        "(the index of an assignment target is read, not written), and are visited before the object itself",
        floor=3,
    )
    rp = run.idx.mod(REPR)
    f = rp.func("_visit_referenced_objects.<locals>.visit_single_object")
    calls = [c for c in calls_in(f.node) if dotted(c.func) == "operation" and len(c.args) == 2]
    n = 0
    # the loop variable ranging over the reference spec (whatever it is called)
    rv = [l.target.id for l in walk_local(f.node) if isinstance(l, ast.For) and isinstance(l.target, ast.Name) and src(l.iter).endswith("._ref_spec")]
    rv = rv[0] if rv else "ref"
    for c in calls:
        a = dotted(c.args[0]) or ""
        if a.startswith(rv + "."):
            n += 1
            run.ob(dotted(c.args[1]) == "AccessFlags.READ", "_visit_referenced_objects", file=rp.rel, line=c.lineno, detail=a, expected=f"operation({a}, AccessFlags.READ)", found=src(c))
            st = rp.parents.enclosing_stmt(c)
            ok = isinstance(st, ast.Assign) and dotted(st.targets[0]) == a
            run.ob(ok, "_visit_referenced_objects", file=rp.rel, line=c.lineno, detail=a + ".writeback", expected=f"{a} = operation({a}, ..)", found=src(st)[:80])
    if n < 3:
        raise AnalysisError("_visit_referenced_objects: ref-spec operands not recognised")
    # EVERY entry of the reference spec is examined (a two-level reference carries a run-time index in its first entry)
    loops = [l for l in walk_local(f.node) if isinstance(l, ast.For) and src(l.iter).endswith("._ref_spec")]
    inside = bool(loops) and all(any(x is c for x in ast.walk(loops[0])) for c in calls if (dotted(c.args[0]) or "").startswith(rv + "."))
    run.ob(inside, "_visit_referenced_objects", file=rp.rel, line=f.node.lineno, detail="all-entries", expected="for ref in obj._ref_spec: ... (all entries, not only the last)", found="ok" if inside else "no loop over the whole reference spec")
    last = f.node.body[-1]
    ok = isinstance(last, ast.Return) and src(last.value) == f"operation({f.node.args.args[0].arg}, {f.node.args.args[1].arg})"
    run.ob(ok, "_visit_referenced_objects", file=rp.rel, line=last.lineno, detail="object-itself", expected="return operation(obj, access) with the caller's flag", found=src(last)[:80])
    run.end()


def rule_names(run):
    from . import c06
    c06.rule_names(run)           # a generated temporary may not take the (case-insensitive) name of a user object it would hide


def rule_assignment_siblings(run):
    from ..rules import roles as _roles
    _roles.run_assignment_siblings_rule(run, "F-ROLE.siblings")


def rule_blocks(run):
    from . import c03
    c03.rule_all_open_blocks(run)    # alias markers / definitions reach every path


def rule_always_locality(run):
    from . import c07
    c07.rule_local(run)              # temporaries of an always block are replaced everywhere, incl. index operands


def rule_backend_empty(run):
    run.begin(
        "C08.empty",
        "the back end drops a block only when it contains nothing but (nested) empty blocks - a block holding a real "
        "statement next to an empty nested block is emitted (abstract evaluation of vhdl.CodeBlock.empty)",
        floor=5,
    )
    from ..absint import Interp, Reject
    vh = run.idx.mod("cohdl/_compiler/backend/vhdl/_vhdl_repr.py")
    f = vh.func("CodeBlock.empty")

    class CodeBlock:
        def __init__(self, stmts):
            self._stmts = stmts

        def empty(self):
            return Interp(vh, dict(prims)).call_function("CodeBlock.empty", self)

    class Stmt:
        pass

    prims = {"isinstance": lambda v, t: isinstance(v, t if isinstance(t, (type, tuple)) else ()), "CodeBlock": CodeBlock, "len": len, "all": all, "any": any}
    E = lambda: CodeBlock([])
    for name, blk, exp in (("[]", CodeBlock([]), True), ("[[]]", CodeBlock([E()]), True), ("[[], []]", CodeBlock([E(), E()]), True), ("[stmt]", CodeBlock([Stmt()]), False),
                           ("[[], stmt]", CodeBlock([E(), Stmt()]), False), ("[stmt, []]", CodeBlock([Stmt(), E()]), False), ("[[stmt]]", CodeBlock([CodeBlock([Stmt()])]), False),
                           ("[[], [stmt]]", CodeBlock([E(), CodeBlock([Stmt()])]), False)):
        try:
            got = blk.empty()
        except Reject as e:
            got = f"rejected: {e}"
        run.ob(got is exp, "vhdl.CodeBlock.empty", file=vh.rel, line=f.node.lineno, detail=name, expected=str(exp), found=str(got))
    run.end()


def rule_visit_stateless(run):
    from ..rules import roles as _r
    _r.run_memo_rule(run, "F-VISIT.memo")   # every traversal (driver check, sensitivity, definite assignment) sees the whole statement


def rule_definitions_are_expressions(run):
    run.begin(
        "C08.defs",
        "the definite-assignment pass and the clean-ups recognise a definition by its class: every IR statement that "
        "computes a value into a result object (constructor parameter `result`) is an ir.Expression - a value-producing "
        "statement outside that hierarchy defines temporaries nobody tracks (read-before-write is then accepted)",
        floor=8,
    )
    irr = run.idx.mod("cohdl/_core/_ir/_repr.py")

    def is_expr(cname, depth=0):
        if cname == "Expression":
            return True
        c = irr.classes.get(cname)
        if c is None or depth > 8:
            return False
        return any(is_expr((dotted(b) or "").split(".")[-1], depth + 1) for b in c.bases)

    # a value-producing statement outside the hierarchy (ir.InlineCode: its value is the result of an inline expression)
    # needs its own arm in the definite-assignment pass
    gen = run.idx.mod(GEN)
    det = [f_ for q_, f_ in gen.functions.items() if q_.endswith("search_invalid_temporaries")]
    if len(det) != 1:
        raise AnalysisError("anchor vanished: search_invalid_temporaries")
    handled = set()
    for c in ast.walk(det[0].node):
        if isinstance(c, ast.Call) and dotted(c.func) == "isinstance" and len(c.args) == 2 and (dotted(c.args[1]) or "").startswith("ir."):
            handled.add(dotted(c.args[1]).split(".")[1])
    EXEMPT = {}
    n = 0
    for cname, c in irr.classes.items():
        if "." in cname or cname == "Expression":
            continue
        init = irr.functions.get(f"{cname}.__init__")
        if init is None:
            continue
        params = [a.arg for a in init.node.args.args]
        if "result" not in params:
            continue
        if cname in EXEMPT:
            run.note(f"ir.{cname}: exempt - {EXEMPT[cname]}")
            continue
        n += 1
        ok = is_expr(cname) or cname in handled
        run.ob(ok, f"ir.{cname}", file=irr.rel, line=c.lineno, detail="is-expression", expected="subclass of ir.Expression (or an arm of its own in search_invalid_temporaries)",
               found="ok" if ok else f"bases {[src(b) for b in c.bases]}, not handled by the definite-assignment pass: its result is never counted as a definition", sample=cname == "SelectWith")
    run.end()


def rule_index_capture(run):
    from . import c03
    c03.rule_index_capture(run)   # a run-time index is captured in a fresh temporary assigned in the state that uses it


def rule_alias_flag(run):
    """A Signal declared inside a sequential context is read through an alias Temporary.  `maybe_uninitialized`
    exempts a temporary from the definite-assignment pass; the alias may carry the flag only when the user set it
    on the declared object itself - inherited from anything else (the initial value, ...), an alias written in one
    branch and read after it is silently accepted."""
    run.begin("C08.alias", "the alias temporary of a locally declared Signal takes maybe_uninitialized from the declared object only", floor=1)
    pm = run.idx.mod("cohdl/_compiler/frontend/_prepare_ast.py")
    n = 0
    for q, f in pm.functions.items():
        for a in walk_local(f.node):
            if not (isinstance(a, ast.Assign) and isinstance(a.value, ast.Call) and src(a.value.func).startswith("Temporary[") and "new_obj" in src(a.value.func)):
                continue
            kw = [k for k in a.value.keywords if k.arg == "maybe_uninitialized"]
            n += 1
            if not kw:
                run.ob(True, q, file=pm.rel, line=a.lineno, detail="alias-flag", expected="flag of the declared object or absent", found="absent")
                continue
            v = kw[0].value
            if isinstance(v, ast.Name):   # one level of local dataflow
                defs = [x for x in walk_local(f.node) if isinstance(x, ast.Assign) and any(isinstance(t, ast.Name) and t.id == v.id for t in x.targets)]
                if len(defs) != 1:
                    raise AnalysisError(f"{q}: maybe_uninitialized of the alias comes from local `{v.id}` with {len(defs)} definitions")
                v = defs[0].value
            leaves = []
            for x in ast.walk(v):
                if isinstance(x, ast.Attribute) and not isinstance(pm.parents.of(x), ast.Attribute):
                    leaves.append(dotted(x) or src(x))
                elif isinstance(x, ast.Call):
                    leaves.append("call:" + src(x.func))
                elif isinstance(x, ast.Name) and not isinstance(pm.parents.of(x), ast.Attribute):
                    leaves.append(x.id)
            # the declared object = the object the alias takes its type from: Temporary[<obj>.type](...)
            sl = a.value.func.slice if isinstance(a.value.func, ast.Subscript) else None
            decl = (dotted(sl) or "")
            decl = decl[:-len(".type")] if decl.endswith(".type") else None
            if decl is None:
                raise AnalysisError(f"{q}: alias type `{src(a.value.func)}` not of the form Temporary[<declared>.type]")
            bad = [l for l in leaves if not (l == f"{decl}._maybe_uninitialized" or l in ("True", "False"))]
            # constant True would exempt every alias
            bad += [l for l in leaves if l == "True"]
            run.ob(not bad, q, file=pm.rel, line=a.lineno, detail="alias-flag", expected="maybe_uninitialized=<declared object>._maybe_uninitialized",
                   found=src(kw[0].value)[:100] if bad else "ok")
    if n == 0:
        raise AnalysisError("anchor vanished: alias Temporary of a locally declared Signal in _prepare_ast.py")
    run.end()


RULES = [rule_fdef, rule_leaf, rule_order, rule_state_check, rule_arms, rule_cleanup, rule_writeback, rule_state_root, rule_refspec_reads, rule_names, rule_assignment_siblings, rule_blocks, rule_always_locality, rule_backend_empty, rule_visit_stateless, rule_definitions_are_expressions, rule_index_capture, rule_alias_flag]

LEVEL = "other"
EXPLANATION = (
    "Decides the compiler-side mechanism behind C08 for all control-flow shapes at once: the combine step of the "
    "definedness analysis (search_invalid_temporaries) is interpreted abstractly over the Venn-region universe of "
    "symbolic branch sets (exact for all sets) for If and CaseWhen with 1..3 branches, with and without default, "
    "including visibility between sibling branches; plus structural checks that the analysis and the per-state "
    "check run before lowering/cleanup, are keyed by the temporary's root, cover every IR construct with "
    "sub-blocks, and that the cleanup passes cannot delete a definition that is still read. NOT decided: that "
    "visit_objects presents every read (that is C07/F-ROLE), or anything about emitted text."
)
ASSUMPTIONS = [
    "the recursive call returns the always-defined set of the analysed sub-block (induction hypothesis)",
    "IR access flags presented by visit_objects are right (checked under C07)",
    "Python set semantics as implemented by CPython (the interpreter uses real set objects, so aliasing is modelled)",
]
