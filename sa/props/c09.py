"""C09 - compile-time evaluation of primitives agrees with the emitted run-time logic.

Decided: (a) every run-time replacement takes its result object (type, width) from the
compile-time method of the same name, so type/width agree by construction; (b) siblings
Unsigned/Signed agree, no dead parameters; (c) folding paths use exact integer arithmetic
that matches VHDL's truncating '/' and 'rem' and flooring 'mod'; (widths) documented widths;
(e) format_literal has a branch for every primitive class a folded result can have.
"""
from __future__ import annotations

import ast

from ..astutil import AnalysisError, dotted, src, walk_local
from ..rules import intarith, sibling as sib, widths as wd
from . import c02

VH = "cohdl/_compiler/backend/vhdl/_vhdl_repr.py"


def rule_rows(run):
    c02.rule_rows(run)


def rule_siblings(run):
    sib.run_rule(run, "F-SIB.arith", sib.ARITH_PAIRS, floor=20)


def rule_intarith(run):
    intarith.run_rule(run, "C09.c")


def rule_widths(run):
    wd.run_rule(run, "C09.widths")


def rule_literals(run):
    run.begin(
        "C09.e",
        "format_literal has a branch for every primitive class a folded result can have; bool is tested before int, "
        "Unsigned/Signed before plain BitVector with the qualified-expression wrappers unsigned'(..)/signed'(..)",
        floor=8,
    )
    mod = run.idx.mod(VH)
    f = mod.func("VhdlScope.format_literal")
    tests = []
    for n in f.node.body:
        if isinstance(n, ast.If):
            t = n.test
            if isinstance(t, ast.Call) and dotted(t.func) == "isinstance":
                c = t.args[1]
                names = [dotted(e).split(".")[-1] for e in (c.elts if isinstance(c, ast.Tuple) else [c]) if dotted(e)]
                tests.append((names, n))
            elif isinstance(t, ast.Compare) and isinstance(t.ops[0], ast.Is):
                tests.append(([dotted(t.comparators[0])], n))
    flat = [x for names, _ in tests for x in names]
    need = ["Enum", "bool", "_Boolean", "int", "Bit", "BitVector", "Integer", "Null", "Full"]
    for cls in need:
        run.ob(cls in flat, "VhdlScope.format_literal", file=mod.rel, line=f.node.lineno, detail=cls,
               expected=f"branch for {cls}", found="present" if cls in flat else "missing")
    ok = "bool" in flat and "int" in flat and flat.index("bool") < flat.index("int")
    run.ob(ok, "VhdlScope.format_literal", file=mod.rel, line=f.node.lineno, detail="bool-before-int",
           expected="isinstance(obj, bool) tested before isinstance(obj, int)", found=str(flat[:8]))
    bv = [n for names, n in tests if names == ["BitVector"]]
    if not bv:
        raise AnalysisError("anchor vanished: BitVector branch of format_literal")
    inner = {}
    for s in bv[0].body:
        if isinstance(s, ast.If) and isinstance(s.test, ast.Call) and dotted(s.test.func) == "isinstance":
            cls = dotted(s.test.args[1])
            ret = [r for r in walk_local(s) if isinstance(r, ast.Return)]
            if ret and isinstance(ret[0].value, ast.JoinedStr) and isinstance(ret[0].value.values[0], ast.Constant):
                inner[cls] = ret[0].value.values[0].value
    for cls, tok in (("Unsigned", "unsigned'("), ("Signed", "signed'(")):
        run.ob(inner.get(cls) == tok, "VhdlScope.format_literal", file=mod.rel, line=bv[0].lineno, detail=f"{cls}-literal",
               expected=tok + "...)", found=str(inner.get(cls)))
    run.end()


def rule_ext(run):
    intarith.run_extension_rule(run, "C09.ext")


def rule_castmatrix(run):
    from . import c05
    c05.rule_back(run)


def rule_multi_index(run):
    from ..rules import shape
    shape.run_multi_index_rule(run, "C09.d")


def rule_resize(run):
    from ..rules import resizemodel
    resizemodel.run_rule(run, "C09.resize")


def rule_views(run):
    from ..rules import views
    views.run_rule(run, "F-VIEW")   # run-time slices address the bits the constant twin selects


def rule_tracer(run):
    from . import c02
    c02.rule_tracer_tables(run)     # a comparison with the constant on the left uses the mirrored operator in both worlds


RULES = [rule_rows, rule_siblings, rule_intarith, rule_ext, rule_widths, rule_literals, rule_castmatrix, rule_multi_index, rule_resize, rule_views, rule_tracer]
LEVEL = "other"
EXPLANATION = (
    "Structural agreement between the compile-time (folding) path and the run-time path of primitive operators: "
    "each run-time replacement obtains its result object from the compile-time method of the same name (type and "
    "width agree by construction), Unsigned/Signed sibling methods have no copy-paste deviance or dead parameters, "
    "folding uses exact integer arithmetic matching VHDL's truncating '/'/'rem' and flooring 'mod', documented "
    "result widths per branch, literal formatting covers every primitive class. NOT decided: bit-level correctness "
    "of the Python ripple-carry adders, or value agreement for arbitrary operand values."
)
ASSUMPTIONS = [
    "numeric_std '/' and 'rem' truncate toward zero and 'mod' floors (IEEE 1076.3)",
    "the enumerated exact idioms for truncating division (sa/rules/intarith.py) are correct for all integers",
    "oracle tables in sa/tables/operators.json",
]
