"""C09 - compile-time evaluation of primitives agrees with the emitted run-time logic.

Decided: (a) every run-time replacement takes its result object (type, width) from the
compile-time method of the same name, so type/width agree by construction; (b) siblings
Unsigned/Signed agree, no dead parameters; (c) folding paths use exact integer arithmetic
that matches VHDL's truncating '/' and 'rem' and flooring 'mod'; (widths) documented widths;
(e) format_literal has a branch for every primitive class a folded result can have.
"""
from __future__ import annotations

import ast

from ..astutil import AnalysisError, dotted, src, walk_local
from ..rules import intarith, sibling as sib, widths as wd
from . import c02

VH = "cohdl/_compiler/backend/vhdl/_vhdl_repr.py"


def rule_rows(run):
    c02.rule_rows(run)


def rule_siblings(run):
    sib.run_rule(run, "F-SIB.arith", sib.ARITH_PAIRS, floor=20)


def rule_intarith(run):
    intarith.run_rule(run, "C09.c")


def rule_widths(run):
    wd.run_rule(run, "C09.widths")


def rule_literals(run):
    run.begin(
        "C09.e",
        "format_literal has a branch for every primitive class a folded result can have; bool is tested before int, "
        "Unsigned/Signed before plain BitVector with the qualified-expression wrappers unsigned'(..)/signed'(..)",
        floor=8,
    )
    mod = run.idx.mod(VH)
    f = mod.func("VhdlScope.format_literal")
    tests = []
    for n in f.node.body:
        if isinstance(n, ast.If):
            t = n.test
            if isinstance(t, ast.Call) and dotted(t.func) == "isinstance":
                c = t.args[1]
                names = [dotted(e).split(".")[-1] for e in (c.elts if isinstance(c, ast.Tuple) else [c]) if dotted(e)]
                tests.append((names, n))
            elif isinstance(t, ast.Compare) and isinstance(t.ops[0], ast.Is):
                tests.append(([dotted(t.comparators[0])], n))
    flat = [x for names, _ in tests for x in names]
    need = ["Enum", "bool", "_Boolean", "int", "Bit", "BitVector", "Integer", "Null", "Full"]
    for cls in need:
        run.ob(cls in flat, "VhdlScope.format_literal", file=mod.rel, line=f.node.lineno, detail=cls,
               expected=f"branch for {cls}", found="present" if cls in flat else "missing")
    ok = "bool" in flat and "int" in flat and flat.index("bool") < flat.index("int")
    run.ob(ok, "VhdlScope.format_literal", file=mod.rel, line=f.node.lineno, detail="bool-before-int",
           expected="isinstance(obj, bool) tested before isinstance(obj, int)", found=str(flat[:8]))
    bv = [n for names, n in tests if names == ["BitVector"]]
    if not bv:
        raise AnalysisError("anchor vanished: BitVector branch of format_literal")
    inner = {}
    for s in bv[0].body:
        if isinstance(s, ast.If) and isinstance(s.test, ast.Call) and dotted(s.test.func) == "isinstance":
            cls = dotted(s.test.args[1])
            ret = [r for r in walk_local(s) if isinstance(r, ast.Return)]
            if ret and isinstance(ret[0].value, ast.JoinedStr) and isinstance(ret[0].value.values[0], ast.Constant):
                inner[cls] = ret[0].value.values[0].value
    for cls, tok in (("Unsigned", "unsigned'("), ("Signed", "signed'(")):
        run.ob(inner.get(cls) == tok, "VhdlScope.format_literal", file=mod.rel, line=bv[0].lineno, detail=f"{cls}-literal",
               expected=tok + "...)", found=str(inner.get(cls)))
    run.end()


def rule_ext(run):
    intarith.run_extension_rule(run, "C09.ext")


def rule_castmatrix(run):
    from . import c05
    c05.rule_back(run)


def rule_multi_index(run):
    from ..rules import shape
    shape.run_multi_index_rule(run, "C09.d")


def rule_resize(run):
    from ..rules import resizemodel
    resizemodel.run_rule(run, "C09.resize")


def rule_views(run):
    from ..rules import views
    views.run_rule(run, "F-VIEW")   # run-time slices address the bits the constant twin selects


def rule_tracer(run):
    from . import c02
    c02.rule_tracer_tables(run)     # a comparison with the constant on the left uses the mirrored operator in both worlds


def rule_no_lookthrough(run):
    run.begin(
        "C09.f",
        "only compile-time constants are folded: the value types (Integer, Unsigned, Signed, Bit, BitVector, Boolean, "
        "Enum, Array) never unwrap a qualified run-time object (Signal/Variable/Temporary) to its trace-time "
        "placeholder value - their operators see a TypeQualifier operand as a foreign type and answer NotImplemented, "
        "which hands the operation to the qualifier (a run-time expression)",
        floor=6,
    )
    import ast as _ast
    from ..astutil import dotted as _d
    mods = ["cohdl/_core/_integer.py", "cohdl/_core/_unsigned.py", "cohdl/_core/_signed.py", "cohdl/_core/_bit.py", "cohdl/_core/_bit_vector.py", "cohdl/_core/_boolean.py", "cohdl/_core/_enum.py", "cohdl/_core/_array.py"]

    def unwraps(tree):
        out = []
        for c in _ast.walk(tree):
            if isinstance(c, _ast.Call):
                d = _d(c.func) or ""
                parts = d.split(".")
                if parts[-1] in ("decay", "_decay") and any(p_.startswith("TypeQualifier") for p_ in parts[:-1]) or d == "_decay":
                    out.append(c)
        return out

    for rel in mods:
        m = run.idx.mod(rel)
        hits = unwraps(m.tree)
        run.ob(not hits, rel.split("/")[-1], file=rel, line=(hits[0].lineno if hits else 1), detail="no-unwrap",
               expected="no TypeQualifier.decay(...) in a value type", found="none" if not hits else f"`{_ast.unparse(hits[0])[:60]}`: the operand's trace-time placeholder value is used as if it were a constant")
    ctl = _ast.parse("def decay(value):\n    value = cohdl.TypeQualifier.decay(value)\n    return value\n")
    if len(unwraps(ctl)) != 1:
        raise AnalysisError("C09.f: positive control not recognised")
    run.note("positive control recognised: `cohdl.TypeQualifier.decay(value)`")
    run.end()


def rule_ctor_domain(run):
    run.begin(
        "C09.ctor",
        "an int becomes a Signed[w] / Unsigned[w] constant exactly when it is representable: every int of "
        "[-2^w-1, 2^w+1] for w <= 4 (thorough: 6) is either rejected (outside the range) or stored as the w-bit "
        "pattern that decodes to the same int - nothing wraps silently (abstract evaluation of the two constructors "
        "and their int->binary helpers; from_int picks the minimal width)",
        floor=60,
    )
    from ..absint import Interp, Reject

    class _Integer:
        pass

    class _BV:
        pass

    class _S(_BV):
        pass

    class _U(_BV):
        pass

    class _Me:
        pass

    for rel, cname, helper, signed in (("cohdl/_core/_signed.py", "Signed", "_int_to_binary", True), ("cohdl/_core/_unsigned.py", "Unsigned", "_uint_to_binary", False)):
        m = run.idx.mod(rel)
        f = m.func(f"{cname}.__init__")
        m.func(f"{cname}.{helper}")
        for w in range(1, run.bound(5, 7)):
            for val in range(-(2 ** w) - 1, 2 ** w + 2):
                got = {}

                class _Sup:
                    def __init__(self_):
                        pass

                def _super():
                    o = _Sup()
                    o.__dict__["__init__"] = lambda v=None: got.__setitem__("v", v)
                    return o

                it = None

                class _NS:
                    pass

                ns = _NS()
                prims = {"isinstance": lambda v, t: isinstance(v, t) if isinstance(t, (type, tuple)) else False, "Integer": _Integer, "Signed": ns, "Unsigned": ns, "BitVector": _BV,
                         "hasattr": lambda o, n: False, "int": int, "bool": bool, "str": str, "range": range, "super": _super, "type": type}
                it = Interp(m, prims)
                setattr(ns, helper, lambda *a, _it=it: _it.call_function(f"{cname}.{helper}", *a))
                # isinstance(val, Signed) must work with the namespace object as well
                prims["isinstance"] = lambda v, t: (isinstance(v, t) if isinstance(t, (type, tuple)) else False)
                me = _Me()
                me.width = w
                try:
                    it.call_function(f"{cname}.__init__", me, val)
                    bits = got.get("v")
                    if isinstance(bits, str) and len(bits) == w and set(bits) <= {"0", "1"}:
                        dec = int(bits, 2)
                        if signed and bits[0] == "1":
                            dec -= 2 ** w
                        res = f"stored {bits} = {dec}"
                        okv = dec == val
                    else:
                        res, okv = f"stored {bits!r}", False
                except Reject:
                    res, okv = "rejected", None
                rep = (-(2 ** (w - 1)) <= val < 2 ** (w - 1)) if signed else (0 <= val < 2 ** w)
                ok = (okv is True) if rep else (okv is None)
                run.ob(ok, f"{cname}.__init__", file=rel, line=f.node.lineno, detail=f"w={w},val={val}", expected=(f"stored as the {w}-bit pattern of {val}" if rep else "rejected (not representable)"), found=res,
                       sample=(w, val) == (4, 8))
    # from_int: minimal width
    m = run.idx.mod("cohdl/_core/_signed.py")
    f = m.func("Signed.from_int")
    for val in range(-(run.bound(20, 70)), run.bound(20, 70)):
        class _Sub:
            def __getitem__(self, w):
                return lambda v: ("Signed", w, v)
        prims = {"isinstance": lambda v, t: False, "Integer": _Integer, "Signed": _Sub()}
        try:
            got = Interp(m, prims).call_function("Signed.from_int", val)
        except Reject as e:
            got = f"rejected: {e}"
        w = 1
        while not (-(2 ** (w - 1)) <= val < 2 ** (w - 1)):
            w += 1
        w = max(w, 1)
        ok = isinstance(got, tuple) and got[2] == val and got[1] >= w and (got[1] == w or (val >= 0 and got[1] == max(val.bit_length() + 1, 1)))
        run.ob(ok, "Signed.from_int", file=m.rel, line=f.node.lineno, detail=f"val={val}", expected=f"Signed[{w}]({val}) (minimal width that holds the value)", found=str(got), sample=val == -8)
    run.end()


def rule_div_wrap(run):
    run.begin(
        "C09.divwrap",
        "constant folding of signed truncdiv / rem / mod wraps like the emitted operator instead of rejecting the design: "
        "for every pair of Signed operands up to 3 bits (thorough: 4) the folded result is the exact quotient / remainder "
        "reduced modulo 2^(result width) - in particular min / -1, the one quotient that does not fit (abstract "
        "evaluation of the Signed methods; the constructor model rejects out-of-range ints as C09.ctor shows the real one does)",
        floor=100,
    )
    from ..absint import Interp, Reject

    sm = run.idx.mod("cohdl/_core/_signed.py")
    im = run.idx.mod("cohdl/_core/_integer.py")

    class _Integer:
        pass

    class _SV:
        def __init__(self, width, val):
            self.width, self._width, self.val = width, width, val

        def to_int(self):
            return self.val

    class _SignedCls:
        def __getitem__(self, w):
            def ctor(v=None):
                if v is None:
                    return _SV(w, None)
                if not (-(2 ** (w - 1)) <= v < 2 ** (w - 1)):
                    raise Reject(f"value {v} outside the range of Signed[{w}]")
                return _SV(w, v)
            return ctor

    signed_cls = _SignedCls()

    def isinst(v, t):
        ts = t if isinstance(t, tuple) else (t,)
        return any((x is signed_cls and isinstance(v, _SV)) or (x is int and isinstance(v, int) and not isinstance(v, bool)) or (x is _Integer and isinstance(v, _Integer)) for x in ts)

    def trunc(a, b):
        q = abs(a) // abs(b)
        return q if (a < 0) == (b < 0) else -q

    def wrap(v, w):
        v &= (1 << w) - 1
        return v - (1 << w) if v >> (w - 1) else v

    ops = {"_cohdl_truncdiv_": (lambda a, b: trunc(a, b), "l"), "_cohdl_rtruncdiv_": (lambda a, b: trunc(a, b), "l"), "_cohdl_rem_": (lambda a, b: a - b * trunc(a, b), "r"), "__mod__": (lambda a, b: a % b, "r")}
    hi = run.bound(4, 5)
    for meth, (fn, rw) in ops.items():
        f = sm.func(f"Signed.{meth}")
        for wl in range(1, hi):
            for wr in range(1, hi):
                for a in range(-(2 ** (wl - 1)), 2 ** (wl - 1)):
                    for b in range(-(2 ** (wr - 1)), 2 ** (wr - 1)):
                        if b == 0:
                            continue
                        def _helper(x, y):
                            # the helper itself is decided for ALL integers by C09.c (truncdomain + no-float scan); when it leaves the
                            # interpretable subset (float arithmetic, ...) this rule continues with its specification instead of giving up
                            try:
                                return Interp(im, {"abs": abs, "divmod": divmod, "int": int, "bool": bool, "min": min, "max": max}).call_function("_int_truncdiv", x, y)
                            except AnalysisError:
                                qq = abs(x) // abs(y)
                                return qq if (x < 0) == (y < 0) else -qq
                        prims = {"isinstance": isinst, "Signed": signed_cls, "Integer": _Integer, "int": int, "_int_truncdiv": _helper}
                        try:
                            # reflected forms receive (self = right operand, left operand)
                            args = (_SV(wr, b), _SV(wl, a)) if meth.startswith("_cohdl_r") and meth != "_cohdl_rem_" else (_SV(wl, a), _SV(wr, b))
                            got = Interp(sm, prims).call_function(f"Signed.{meth}", *args)
                            res = (got.width, got.val) if isinstance(got, _SV) else repr(got)
                        except Reject as e:
                            res = f"rejected: {e}"
                        w = wl if rw == "l" else wr
                        exp = (w, wrap(fn(a, b), w))
                        run.ob(res == exp, f"Signed.{meth}", file=sm.rel, line=f.node.lineno, detail=f"Signed[{wl}]({a}),Signed[{wr}]({b})", expected=f"Signed[{exp[0]}]({exp[1]})", found=str(res)[:80],
                               sample=(meth, wl, a, b) == ("_cohdl_truncdiv_", 3, -4, -1))
    run.end()


def rule_delegation(run):
    run.begin(
        "C09.deleg",
        "operators of a qualified object delegate to the SAME operator of the wrapped value: every TypeQualifier method of "
        "the form `self._value.<m>(_decay(other))` names its own method (a reflected operator that calls the forward one "
        "swaps the operands: result type and width of `const <op> signal` are those of `signal <op> const`)",
        floor=20,
    )
    tq = run.idx.mod("cohdl/_core/_type_qualifier.py")
    n = 0
    for q, f in tq.functions.items():
        if not q.startswith("TypeQualifier.") or ".<locals>." in q:
            continue
        own = q.split(".", 1)[1].split("#")[0]
        for c in walk_local(f.node):
            if isinstance(c, ast.Call) and isinstance(c.func, ast.Attribute) and dotted(c.func.value) == "self._value" and c.args and isinstance(c.args[0], ast.Call) and dotted(c.args[0].func) == "_decay":
                m = c.func.attr
                if not (m.startswith("__") or m.startswith("_cohdl_")):
                    continue
                n += 1
                run.ob(m == own, f"TypeQualifier.{own}", file=tq.rel, line=c.lineno, detail="delegates-to-own-operator", expected=f"self._value.{own}(_decay(other))", found=src(c)[:70], sample=n == 1)
    run.end()


RULES = [rule_rows, rule_siblings, rule_intarith, rule_ext, rule_widths, rule_literals, rule_castmatrix, rule_multi_index, rule_resize, rule_views, rule_tracer, rule_no_lookthrough, rule_ctor_domain, rule_div_wrap, rule_delegation]
LEVEL = "other"
EXPLANATION = (
    "Structural agreement between the compile-time (folding) path and the run-time path of primitive operators: "
    "each run-time replacement obtains its result object from the compile-time method of the same name (type and "
    "width agree by construction), Unsigned/Signed sibling methods have no copy-paste deviance or dead parameters, "
    "folding uses exact integer arithmetic matching VHDL's truncating '/'/'rem' and flooring 'mod', documented "
    "result widths per branch, literal formatting covers every primitive class. NOT decided: bit-level correctness "
    "of the Python ripple-carry adders, or value agreement for arbitrary operand values."
)
ASSUMPTIONS = [
    "numeric_std '/' and 'rem' truncate toward zero and 'mod' floors (IEEE 1076.3)",
    "the enumerated exact idioms for truncating division (sa/rules/intarith.py) are correct for all integers",
    "oracle tables in sa/tables/operators.json",
]
