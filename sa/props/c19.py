"""C19 - fixed-point arithmetic is exact and resize follows the selected styles (structural part).

Decided:
  C19.format  +, -, * of SFixed and UFixed, interpreted abstractly over a (width, weight-of-LSB) domain for all formats
              in a bound: result format = (max(l1,l2)+1, min(r1,r2)) resp. (l1+l2+1, r1+r2); both operands are aligned
              to the result's LSB weight with non-negative zero padding; the raw expression has exactly the result width
  C19.ctor    construction from Signed/Unsigned requires a non-positive right bound (zeros = -exp >= 0, checked)
  C19.round   the six copies of the round-to-nearest-even decision in the two resize_fn are identical (clone agreement)
  C19.sat     saturation detection: underflow is the two's complement mirror image of overflow
  F-SIB       SFixed <-> UFixed methods have no copy-paste deviance
  C19.values  resize_fn evaluated on concrete bit vectors for every raw value of all overlapping format pairs up to 4 (5) bits
              against the exact rational specification (floor / ties-to-even / modulo / clamp)
Not decided: formats wider than the bound, disjoint format pairs, 1-bit signed targets with rounding.
"""

from __future__ import annotations

import ast
import copy
import itertools

from ..astutil import AnalysisError, dotted, src, walk_local, norm
from .. import pattern as P
from ..absint import Interp, Reject, TypeTok
from ..rules import sibling as sib
from ..rules import shape

FX = "cohdl/std/_fixed.py"


class Raw:
    """abstract raw value: bit width and the weight (power of two) of its least significant bit"""

    def __init__(self, width, weight, kind):
        self.width, self.weight, self.kind = width, weight, kind

    def resize(self, target_width=None, *, zeros=0):
        if zeros < 0:
            raise Reject(f"resize with negative zeros ({zeros})")
        if target_width is None:
            target_width = self.width + zeros
        if self.width + zeros > target_width:
            raise Reject(f"resize({target_width}, zeros={zeros}) of a {self.width}-bit value truncates")
        return Raw(target_width, self.weight - zeros, self.kind)

    def __repr__(self):
        return f"{self.kind}[{self.width}]*2^{self.weight}"


class FixedCls:
    def __init__(self, kind, log):
        self.kind = kind
        self.log = log

    def __getitem__(self, sl):
        if not isinstance(sl, slice):
            raise AnalysisError("fixed type subscript is not a slice")
        left, right = sl.start, sl.stop
        kind, log = self.kind, self.log

        def ctor(val=None, *, raw=None, _qualifier_=None):
            log.append({"left": left, "right": right, "raw": raw})
            return {"left": left, "right": right, "raw": raw}
        return ctor


def _operand(kind, l, r):
    w = l - r + 1
    raw = Raw(w, r, "Signed" if kind == "SFixed" else "Unsigned")
    return {"left": lambda: l, "right": lambda: r, "_val": raw, "_width": w, "_exp": r}


def rule_format(run):
    run.begin(
        "C19.format",
        "result formats and operand alignment of + - * for SFixed and UFixed over all formats with -2 <= right <= left <= 3: "
        "exact result format, both operands padded (zeros >= 0) to the weight of the result's LSB, raw width == result width",
        floor=300,
    )
    idx = run.idx
    mod = idx.mod(FX)
    fmts = [(l, r) for l in range(-2, run.bound(4, 5)) for r in range(run.bound(-2, -3), l + 1)]
    for kind in ("SFixed", "UFixed"):
        for op in ("__add__", "__sub__", "__mul__"):
            f = mod.func(f"{kind}.{op}")
            for (l1, r1), (l2, r2) in itertools.product(fmts, fmts):
                log = []
                prims = shape.base_prims()
                prims.update({kind: FixedCls(kind, log), "isinstance": lambda x, t: True, "min": min, "max": max})

                def binop(o, a, b):
                    if isinstance(a, Raw) and isinstance(b, Raw):
                        if o in ("Add", "Sub"):
                            if a.weight != b.weight:
                                raise Reject(f"operands of different weight added: {a} {o} {b}")
                            return Raw(max(a.width, b.width), a.weight, a.kind)
                        if o == "Mult":
                            return Raw(a.width + b.width, a.weight + b.weight, a.kind)
                    raise AnalysisError(f"binop {o}")
                prims["__binop__"] = binop
                a, b = _operand(kind, l1, r1), _operand(kind, l2, r2)
                detail = f"[{l1}:{r1}]{op}[{l2}:{r2}]"
                try:
                    Interp(mod, prims).call_function(f"{kind}.{op}", a, b)
                except Reject as rj:
                    run.ob(False, f"{kind}.{op}", file=mod.rel, line=f.node.lineno, detail=detail, expected="exact result", found=f"rejected: {rj}", sample=False)
                    continue
                res = log[-1] if log else None
                if op == "__mul__":
                    el, er = l1 + l2 + 1, r1 + r2
                else:
                    el, er = max(l1, l2) + 1, min(r1, r2)
                ok = res is not None and (res["left"], res["right"]) == (el, er) and isinstance(res["raw"], Raw) and res["raw"].width == el - er + 1 and res["raw"].weight == er
                run.ob(ok, f"{kind}.{op}", file=mod.rel, line=f.node.lineno, detail=detail, expected=f"[{el}:{er}] with a {el - er + 1}-bit raw value of LSB weight 2^{er}",
                       found=f"[{res['left']}:{res['right']}] raw {res['raw']}" if res else "no result", sample=(detail == "[1:0]__add__[0:-1]"))
    run.end()


def rule_ctor(run):
    run.begin("C19.ctor", "SFixed/UFixed from Signed/Unsigned integers: zeros = -exp and static_assert(zeros >= 0) (formats with a positive right bound cannot take an integer vector)", floor=3)
    mod = run.idx.mod(FX)
    for kind in ("SFixed", "UFixed"):
        f = mod.func(f"{kind}.__init__")
        n = 0
        for br in walk_local(f.node):
            if isinstance(br, ast.If) and isinstance(br.test, ast.Call) and dotted(br.test.func) == "instance_check" and dotted(br.test.args[1]) in ("Signed", "Unsigned"):
                z = [a for a in br.body if isinstance(a, ast.Assign) and dotted(a.targets[0]) == "zeros"]
                sa = [e for e in br.body if isinstance(e, ast.Expr) and isinstance(e.value, ast.Call) and dotted(e.value.func) == "static_assert"]
                ok = len(z) == 1 and P.T(z[0].value) == "-self._exp" and len(sa) == 1 and P.T(sa[0].value.args[0]) == "zeros >= 0" and z[0].lineno < sa[0].lineno
                n += 1
                run.ob(ok, f"{kind}.__init__", file=mod.rel, line=br.lineno, detail=f"from-{dotted(br.test.args[1])}",
                       expected="zeros = -self._exp; static_assert(zeros >= 0)", found="; ".join(src(x) for x in z + sa)[:100])
                uses = [c for st in br.body for c in ast.walk(st) if isinstance(c, ast.Call) and isinstance(c.func, ast.Attribute) and c.func.attr == "resize" and any(k.arg == "zeros" and dotted(k.value) == "zeros" for k in c.keywords)]
                run.ob(len(uses) == 1, f"{kind}.__init__", file=mod.rel, line=br.lineno, detail=f"from-{dotted(br.test.args[1])}.aligned", expected="val.resize(.., zeros=zeros)", found=f"{len(uses)} use(s)")
        if n == 0:
            raise AnalysisError(f"{kind}.__init__: integer-vector branches not found")
    run.end()


class _QualModel:
    """model of the _qualifier_ argument: Q(x) and Q[T](x) keep the value; anything else is a call-shape error"""

    def __call__(self, *args, **kwargs):
        if len(args) != 1 or kwargs:
            raise Reject(f"qualifier called with {len(args)} positional arguments (expected Q(x) or Q[T](x))")
        return args[0]

    def __getitem__(self, t):
        def make(x=None):
            if isinstance(x, Raw) and isinstance(t, TypeTok) and "width" in t.params:
                w = t.params["width"]
                if x.kind == t.name and x.width <= w or (x.kind == "Unsigned" and t.name == "Signed" and x.width < w):
                    return Raw(w, x.weight, t.name)
                raise Reject(f"{t} constructed from {x}")
            return x
        return make


def rule_ctor_abs(run):
    run.begin(
        "C19.ctor-abs",
        "constructors interpreted over the (width, LSB-weight) domain: from an integer vector the value is padded with -right "
        "zeros (right must be <= 0) and from another format with source.right - target.right zeros (target must contain the "
        "source); the stored raw value has the target's width and LSB weight; everything else is rejected",
        floor=100,
    )
    mod = run.idx.mod(FX)
    fmts = [(l, r) for l in range(-1, run.bound(4, 6)) for r in range(run.bound(-3, -4), l + 1)]
    for kind, rawkind in (("SFixed", "Signed"), ("UFixed", "Unsigned")):
        f = mod.func(f"{kind}.__init__")

        def prims_for():
            p = shape.base_prims()
            p["Signed"] = shape._VecType("Signed")
            p["Unsigned"] = shape._VecType("Unsigned")
            marker = TypeTok(kind)
            p[kind] = marker
            other = "UFixed" if kind == "SFixed" else "SFixed"
            p[other] = TypeTok(other)
            p["Null"] = object()
            p["Full"] = object()
            p["static_assert"] = lambda c, *a, **k: (_ for _ in ()).throw(Reject("static_assert")) if not c else None

            def inst(x, t):
                ts = t if isinstance(t, tuple) else (t,)
                for k in ts:
                    n = getattr(k, "name", None)
                    if isinstance(x, Raw) and n == x.kind and "width" not in getattr(k, "params", {}):
                        return True
                    if isinstance(x, Raw) and n == x.kind and k.params.get("width") == x.width:
                        return True
                    if isinstance(x, dict) and x.get("_kind") == n:
                        return True
                return False
            p["instance_check"] = inst
            p["isinstance"] = inst
            return p

        for (l, r) in fmts:
            w = l - r + 1
            # integer vectors
            for vk in ("Signed", "Unsigned"):
                if kind == "UFixed" and vk == "Signed":
                    continue
                for wv in run.bound((1, 2, 3), (1, 2, 3, 4, 5)):
                    self_m = {"_width": w, "_exp": r, "left": (lambda l=l: l), "right": (lambda r=r: r), "_kind": kind}
                    val = Raw(wv, 0, vk)
                    detail = f"{kind}[{l}:{r}]({vk}[{wv}])"
                    room = w if vk == rawkind else w - 1
                    expect_ok = r <= 0 and wv + (-r) <= room
                    try:
                        Interp(mod, prims_for()).call_function(f"{kind}.__init__", self_m, val, _qualifier_=_QualModel())
                        got = self_m.get("_val")
                        ok = expect_ok and isinstance(got, Raw) and got.width == w and got.weight == r
                        found = repr(got)
                    except Reject as rj:
                        ok = not expect_ok
                        found = f"rejected: {rj}"
                    run.ob(ok, f"{kind}.__init__", file=mod.rel, line=f.node.lineno, detail=detail,
                           expected=(f"{rawkind}[{w}] with LSB weight 2^{r}" if expect_ok else "rejected (not representable in this format)"), found=found, sample=(detail in ("SFixed[3:-2](Signed[3])", "UFixed[3:1](Unsigned[2])")))
            # other formats of the same class
            for (l2, r2) in fmts:
                if abs(l2 - l) > 2 or abs(r2 - r) > 2:
                    continue
                w2 = l2 - r2 + 1
                self_m = {"_width": w, "_exp": r, "left": (lambda l=l: l), "right": (lambda r=r: r), "_kind": kind}
                val = {"_kind": kind, "_val": Raw(w2, r2, rawkind), "left": (lambda l2=l2: l2), "right": (lambda r2=r2: r2), "_width": w2, "_exp": r2}
                detail = f"{kind}[{l}:{r}]({kind}[{l2}:{r2}])"
                expect_ok = l >= l2 and r <= r2
                try:
                    Interp(mod, prims_for()).call_function(f"{kind}.__init__", self_m, val, _qualifier_=_QualModel())
                    got = self_m.get("_val")
                    ok = expect_ok and isinstance(got, Raw) and got.width == w and got.weight == r
                    found = repr(got)
                except Reject as rj:
                    ok = not expect_ok
                    found = f"rejected: {rj}"
                run.ob(ok, f"{kind}.__init__", file=mod.rel, line=f.node.lineno, detail=detail,
                       expected=(f"{rawkind}[{w}] with LSB weight 2^{r}" if expect_ok else "rejected (target does not contain the source format)"), found=found, sample=(detail == "SFixed[3:-3](SFixed[2:-1])"))
    run.end()


def _round_blocks(fn):
    """the `if cutoff == 1: do_round = .. else: do_round = ..` statements of a function"""
    out = []
    for n in ast.walk(fn):
        if isinstance(n, ast.If) and any(isinstance(a, ast.Assign) and dotted(a.targets[0]) == "do_round" for a in n.body) and any(isinstance(a, ast.Assign) and dotted(a.targets[0]) == "do_round" for a in n.orelse):
            out.append(n)
    return out


class _TypeNorm(ast.NodeTransformer):
    def visit_Subscript(self, node):
        self.generic_visit(node)
        if dotted(node.value) in ("Signed", "Unsigned") and isinstance(node.slice, ast.Constant):
            return ast.copy_location(ast.Name(id="RoundIncrementType", ctx=ast.Load()), node)
        return node


def rule_round(run):
    run.begin(
        "C19.round",
        "round-to-nearest-even decision: all copies in SFixed.resize_fn and UFixed.resize_fn are identical (up to the type of "
        "the increment): with one bit cut off round up iff that bit and the kept LSB are set; otherwise iff the top cut-off "
        "bit is set and (the kept LSB or any lower cut-off bit) is set",
        floor=6,
    )
    mod = run.idx.mod(FX)
    blocks = []
    for kind in ("SFixed", "UFixed"):
        f = mod.func(f"{kind}.resize_fn")
        for b in _round_blocks(f.node):
            blocks.append((kind, b))
    if len(blocks) < 6:
        raise AnalysisError(f"only {len(blocks)} round blocks found")
    forms = [norm(_TypeNorm().visit(copy.deepcopy(b))) for _, b in blocks]
    # majority form is the reference (Engler: the deviant copy is the suspect)
    ref = max(set(forms), key=forms.count)
    for i, ((kind, b), form) in enumerate(zip(blocks, forms)):
        run.ob(form == ref, f"{kind}.resize_fn", file=mod.rel, line=b.lineno, detail=f"round-block#{i}", expected="identical to the other copies", found="identical" if form == ref else f"deviant copy: `if {src(b.test)}: ...`")
    # the reference form itself
    kind, b = blocks[forms.index(ref)]
    ok = P.T(b.test) == "cutoff == 1" and "self._val[cutoff - 1] and self._val[cutoff]" in P.T(b.body[0]) and "self._val[cutoff - 1] and (self._val[cutoff] or self._val[cutoff - 2:0])" in P.T(b.orelse[0])
    run.ob(ok, "resize_fn", file=mod.rel, line=b.lineno, detail="round-rule", expected="ties to even on the bits [cutoff], [cutoff-1], [cutoff-2:0]", found="ok" if ok else src(b)[:120])
    run.end()


def rule_sat(run):
    run.begin("C19.sat", "SFixed saturation: does_overflow = not sign and any(dropped bits); does_underflow is its two's-complement mirror: sign and any(~dropped bits); UFixed: overflow = any(dropped bits)", floor=3)
    mod = run.idx.mod(FX)
    f = mod.func("SFixed.resize_fn")
    a = {dotted(x.targets[0]): x for x in ast.walk(f.node) if isinstance(x, ast.Assign) and dotted(x.targets[0]) in ("does_overflow", "does_underflow", "overflow_bits", "sign_bit", "overflow_bitcnt")}
    if not {"does_overflow", "does_underflow", "overflow_bits", "sign_bit"} <= set(a):
        raise AnalysisError("saturation variables of SFixed.resize_fn not found")
    ov, un = a["does_overflow"], a["does_underflow"]
    ok = P.T(ov.value) == "not sign_bit and overflow_bits"
    run.ob(ok, "SFixed.resize_fn", file=mod.rel, line=ov.lineno, detail="overflow", expected="not sign_bit and overflow_bits", found=src(ov.value))
    # mirror: sign_bit <-> not sign_bit, overflow_bits <-> ~overflow_bits
    ok = P.T(un.value) == "sign_bit and ~overflow_bits"
    run.ob(ok, "SFixed.resize_fn", file=mod.rel, line=un.lineno, detail="underflow-mirror", expected="sign_bit and ~overflow_bits (some dropped bit differs from the sign)", found=src(un.value))
    ok = P.T(a["sign_bit"].value) == "self._val.msb()" and P.T(a["overflow_bits"].value) == "self._val.lsb(rest=1).msb(overflow_bitcnt)"
    run.ob(ok, "SFixed.resize_fn", file=mod.rel, line=a["sign_bit"].lineno, detail="dropped-bits", expected="sign = msb; dropped bits = the overflow_bitcnt bits below the sign", found=f"{src(a['sign_bit'].value)}; {src(a['overflow_bits'].value)}")
    # priority: underflow before overflow before the default, in every choose_first
    for c in ast.walk(f.node):
        if isinstance(c, ast.Call) and dotted(c.func) == "choose_first":
            first = [src(x.elts[0]) for x in c.args if isinstance(x, ast.Tuple)]
            vals = [src(x.elts[1]) for x in c.args if isinstance(x, ast.Tuple)]
            if len(first) < 2:
                continue  # a single alternative has no priority question (its value is decided by C19.values)
            ok = first[0] == "does_underflow" and first[1] in ("does_overflow", "overflow_or_full") and vals[0].endswith(".min()") and vals[1].endswith(".max()")
            run.ob(ok, "SFixed.resize_fn", file=mod.rel, line=c.lineno, detail=f"saturation-values@{c.lineno - f.node.lineno}", expected="(underflow -> min), (overflow -> max), default", found=str(list(zip(first, vals)))[:100])
    g = mod.func("UFixed.resize_fn")
    u = [x for x in ast.walk(g.node) if isinstance(x, ast.Assign) and dotted(x.targets[0]) == "does_overflow"]
    ok = len(u) == 1 and P.T(u[0].value) == "bool(overflow_bits)"
    run.ob(ok, "UFixed.resize_fn", file=mod.rel, line=(u[0].lineno if u else g.node.lineno), detail="overflow", expected="bool(overflow_bits)", found=src(u[0].value) if u else "missing")
    run.end()


FIXED_PAIRS = {
    "name": "SFixed<->UFixed",
    "a": (FX, "SFixed"),
    "b": (FX, "UFixed"),
    "map_b_to_a": {"UFixed": "SFixed", "Unsigned": "Signed", "unsigned": "signed"},
    "methods": [],
    "min_common": 12,
}


def rule_siblings(run):
    sib.run_rule(run, "F-SIB.fixed", FIXED_PAIRS, floor=12)


def rule_template_arg(run):
    from ..rules import eqhash
    eqhash.run_rule(run, "F-EQ", ["cohdl/std/_fixed.py", "cohdl/std/_template.py"])


def rule_replacements(run):
    from . import c02
    c02.rule_rows(run)          # run-time fixed-point arithmetic is emitted through the operator replacements (operand order!)


def rule_castmatrix(run):
    from . import c05
    c05.rule_back(run)          # SFixed/UFixed built from Unsigned/Signed signals are emitted through format_cast


def rule_choose_first(run):
    from . import c18
    c18.rule_choose_first(run)  # saturation picks its bound with std.choose_first


def rule_views(run):
    from ..rules import views
    views.run_rule(run, "F-VIEW")   # resize of a std.Ref view slices a slice: offsets must accumulate


def rule_template_cache(run):
    run.begin(
        "C19.template",
        "std.Template specialisations are cached per (template class, argument): SFixed[l:r] and UFixed[l:r] are different "
        "classes whatever is created first; the same (class, argument) yields the same class (abstract evaluation of the "
        "_TemplateMeta cache methods)",
        floor=5,
    )
    from ..absint import Interp, Reject
    tm = run.idx.mod("cohdl/std/_template.py")

    prims = {"__setattr__": lambda o, k, v: setattr(o, k, v), "hash": hash, "id": id, "repr": repr, "str": str}

    class _Meta:
        def __init__(self):
            self.instances = {}

        def __getattr__(self, name):
            # helper methods of _TemplateMeta (a key function, ...) are interpreted from the source as well
            q = f"_TemplateMeta.{name}"
            if name.startswith("__") or not tm.has_func(q):
                raise AttributeError(name)
            fn = tm.func(q)
            from ..astutil import decorator_names
            static = "staticmethod" in decorator_names(fn.node)
            return lambda *a: Interp(tm, dict(prims)).call_function(q, *(a if static else (self, *a)))

    def call(name, meta, *a):
        return Interp(tm, dict(prims)).call_function(f"_TemplateMeta.{name}", meta, *a)

    f = tm.func("_TemplateMeta.add_instance")
    try:
        m = _Meta()
        call("add_instance", m, "SFixed", "3:-2", "S[3:-2]")
        r1 = call("instance_exists", m, "UFixed", "3:-2")
        r2 = call("instance_exists", m, "SFixed", "3:-2")
        r3 = call("instance_exists", m, "SFixed", "3:-1")
        call("add_instance", m, "UFixed", "3:-2", "U[3:-2]")
        g1 = call("get_instance", m, "SFixed", "3:-2")
        g2 = call("get_instance", m, "UFixed", "3:-2")
    except Reject as e:
        r1 = r2 = r3 = g1 = g2 = f"rejected: {e}"
    # arguments whose hashes collide are still different arguments (CPython: hash(-1) == hash(-2))
    try:
        m2 = _Meta()
        call("add_instance", m2, "SFixed", -1, "S[-1]")
        c1 = call("instance_exists", m2, "SFixed", -2)
        if c1 is False:
            call("add_instance", m2, "SFixed", -2, "S[-2]")
        c2 = call("get_instance", m2, "SFixed", -1)
    except Reject as e:
        c1 = c2 = f"rejected: {e}"
    run.ob(c1 is False and c2 == "S[-1]", "_TemplateMeta.instance_exists", file=tm.rel, line=f.node.lineno, detail="colliding-hashes", expected="arguments -1 and -2 (equal hashes) are different specialisations",
           found=f"exists(-2)={c1}, get(-1)={c2}")
    run.ob(r1 is False, "_TemplateMeta.instance_exists", file=tm.rel, line=f.node.lineno, detail="other-class-same-arg", expected="False (UFixed[3:-2] does not exist because SFixed[3:-2] does)", found=str(r1))
    run.ob(r2 is True, "_TemplateMeta.instance_exists", file=tm.rel, line=f.node.lineno, detail="same-class-same-arg", expected="True", found=str(r2))
    run.ob(r3 is False, "_TemplateMeta.instance_exists", file=tm.rel, line=f.node.lineno, detail="same-class-other-arg", expected="False", found=str(r3))
    run.ob(g1 == "S[3:-2]", "_TemplateMeta.get_instance", file=tm.rel, line=f.node.lineno, detail="get-first", expected="S[3:-2]", found=str(g1))
    run.ob(g2 == "U[3:-2]", "_TemplateMeta.get_instance", file=tm.rel, line=f.node.lineno, detail="get-second", expected="U[3:-2]", found=str(g2))
    # the specialising __class_getitem__ passes its own class as the first key component
    cg = tm.func("class_getitem_specialize")
    ok = P.ahas(cg.node, "meta.instance_exists(cls, template_arg)") and P.ahas(cg.node, "meta.get_instance(cls, template_arg)")
    adds = [c for c in ast.walk(cg.node) if isinstance(c, ast.Call) and isinstance(c.func, ast.Attribute) and c.func.attr == "add_instance"]
    ok = ok and len(adds) >= 1 and all(dotted(c.args[0]) == "cls" for c in adds)
    run.ob(ok, "class_getitem_specialize", file=tm.rel, line=cg.node.lineno, detail="keyed-by-class", expected="instance_exists / get_instance / add_instance are called with (cls, template_arg)", found="ok" if ok else "changed")
    # each Template[ArgType] declaration owns a fresh meta object (a shared one would merge the caches of different templates)
    decl = [q for q in tm.functions if q.endswith("Template.__class_getitem__")]
    if decl:
        d = tm.functions[decl[0]]
        metas = [c for c in ast.walk(d.node) if isinstance(c, ast.Call) and dotted(c.func) == "_TemplateMeta"]
        memo = [x for x in ast.walk(d.node) if isinstance(x, ast.Subscript) and isinstance(x.ctx, ast.Store)]
        ok = len(metas) >= 1 and not memo
        run.ob(ok, "Template.__class_getitem__", file=tm.rel, line=d.node.lineno, detail="fresh-declaration", expected="every class statement gets its own declaration type and meta object (no memo table)", found="ok" if ok else f"{len(memo)} store(s) into a memo table")
    run.end()


def rule_values(run):
    from ..rules import fixedvalues
    fixedvalues.run_rule(run, "C19.values")


def rule_const_resize(run):
    run.begin(
        "C19.cresize",
        "constant resize of Signed / Unsigned (used by constant fixed-point arithmetic): value * 2**zeros in target_width "
        "bits, default target width = width + zeros (abstract evaluation for all values of widths 1..3)",
        floor=40,
    )
    from ..absint import Interp, Reject
    for rel, own, signed in (("cohdl/_core/_unsigned.py", "Unsigned", False), ("cohdl/_core/_signed.py", "Signed", True)):
        mod = run.idx.mod(rel)
        f = mod.func(f"{own}.resize")

        class _T:
            def __getitem__(self, w):
                return lambda v=None: ("made", w, v)

        for w in (1, 2, 3):
            rng = range(-(1 << (w - 1)), 1 << (w - 1)) if signed else range(0, 1 << w)
            for zeros in (0, 1, 2):
                for extra in (None, 0, 1):
                    bad = []
                    for v in rng:
                        class _Self:
                            pass
                        so = _Self()
                        so.width = w
                        so.to_int = (lambda v=v: v)
                        tw = None if extra is None else w + zeros + extra
                        try:
                            got = Interp(mod, {own: _T(), "__setattr__": lambda o, k, x: setattr(o, k, x)}).call_function(f"{own}.resize", so, tw, zeros=zeros)
                        except Reject as e:
                            got = f"rejected: {e}"
                        exp = ("made", w + zeros + (extra or 0), v * 2 ** zeros)
                        if got != exp:
                            bad.append((v, got))
                    run.ob(not bad, f"{own}.resize", file=rel, line=f.node.lineno, detail=f"w={w},zeros={zeros},target={'default' if extra is None else w + zeros + extra}",
                           expected=f"{own}[target](value * 2**{zeros})", found="ok" if not bad else str(bad[:2])[:100], sample=False)
    run.end()


def rule_compare_formats(run):
    run.begin("C19.cmp", "fixed-point values are compared bit by bit only when both have the SAME format (same class); other formats are rejected, never compared by raw bits", floor=2)
    mod = run.idx.mod(FX)
    for kind in ("SFixed", "UFixed"):
        f = mod.func(f"{kind}.__eq__")
        p = f.node.args.args[1].arg
        asserts = [src(a.test) for a in walk_local(f.node) if isinstance(a, ast.Assert)]
        ok = f"type({p}) is type(self)" in asserts or f"type(self) is type({p})" in asserts
        run.ob(ok, f"{kind}.__eq__", file=mod.rel, line=f.node.lineno, detail="same-format", expected=f"assert type({p}) is type(self) before comparing the raw values", found=str(asserts))
    run.end()


def rule_const_arith(run):
    from ..rules import intarith
    intarith.run_extension_rule(run, "C09.ext")   # constant fixed-point +/- is Unsigned/Signed add/sub: extension, negation at result width, wrap


def rule_params_forwarded(run):
    run.begin(
        "C19.forward",
        "no option of the fixed-point API is dropped on the way: every parameter of every function of cohdl/std/_fixed.py is "
        "used by its body (x.resize(l, r, round_style=.., overflow_style=..) forwards BOTH styles to resize_fn); descriptor "
        "protocol parameters (__get__'s objtype) are the only reviewed exception",
        floor=40,
    )
    fx = run.idx.mod("cohdl/std/_fixed.py")
    EXEMPT = {("__get__", "objtype"): "descriptor protocol: the owner class is not needed"}
    for q, f in fx.functions.items():
        a = f.node.args
        params = [x.arg for x in a.posonlyargs + a.args + a.kwonlyargs]
        if all(isinstance(st, (ast.Pass, ast.Raise)) or (isinstance(st, ast.Expr) and isinstance(st.value, ast.Constant)) for st in f.node.body):
            continue
        used = {n.id for n in ast.walk(f.node) if isinstance(n, ast.Name) and isinstance(n.ctx, ast.Load)}
        for prm in params:
            if prm in ("self", "cls") or (q.split(".")[-1].split("#")[0], prm) in EXEMPT:
                continue
            run.ob(prm in used, q, file=fx.rel, line=f.node.lineno, detail=f"uses-{prm}", expected=f"parameter `{prm}` reaches the implementation", found="ok" if prm in used else f"`{prm}` is accepted and ignored", sample=(q.endswith("_Resize.__call__") and prm == "overflow_style"))
    run.end()


def rule_runtime_resize(run):
    from ..rules import resizemodel
    resizemodel.run_rule(run, "C09.resize")    # the run-time resize (with zero padding) that aligns operands of different right bounds


RULES = [rule_format, rule_ctor, rule_ctor_abs, rule_round, rule_sat, rule_siblings, rule_template_arg, rule_replacements, rule_castmatrix, rule_choose_first, rule_views, rule_template_cache, rule_values, rule_const_resize, rule_compare_formats, rule_const_arith, rule_params_forwarded, rule_runtime_resize]
LEVEL = "other"
EXPLANATION = (
    "Fixed-point exactness is decided for the format algebra: + - * of both classes are interpreted abstractly over a "
    "(width, LSB-weight) domain for all operand formats in a bound, proving the result format, the operand alignment and "
    "the raw width. Constructor alignment, clone agreement of the six round-to-even decisions, the two's-complement mirror "
    "of the saturation tests and SFixed/UFixed sibling agreement are structural. NOT decided: the values resize returns "
    "(rounding and saturation over all raw values), float construction."
)
ASSUMPTIONS = [
    "Signed/Unsigned +,- keep max(width), * yields the sum of widths (checked under C02.c); resize(w, zeros=z) appends z zero bits below the value",
    "formats enumerated with -2 <= right <= left <= 3",
]
