"""C05 - type conversions on assignment preserve the value or are rejected.

Decided:
  C05.a  front-end guard matrix: accept/reject decision and width guard of every isinstance branch
         of Unsigned/Signed/BitVector `_assign` and `__init__` equals the documented matrix; integer
         literal ranges are exactly the representable range (evaluated symbolically for w = 1..12)
  C05.b  back-end cast matrix: format_cast, interpreted over {U,S,BV}^3 x {equal,wider,narrower},
         accepts every case the front end accepts, yields the root's VHDL type with the target width,
         never reinterprets before extending (extension happens in the SOURCE's signedness) and never
         extends/truncates when widths are equal; the ref-spec walk classifies the root's own kind
  C05.c  every assignment form performs the trial assignment in the direction port <- actual
  C05.join  branch/return merge never joins Null/Full and verifies the joined type by trial construction
"""

from __future__ import annotations

import ast

from ..astutil import AnalysisError, dotted, src, walk_local, walk_ordered, calls_in
from .. import pattern as P
from ..rules import castmatrix as cm

U = "cohdl/_core/_unsigned.py"
S = "cohdl/_core/_signed.py"
BV = "cohdl/_core/_bit_vector.py"
TQ = "cohdl/_core/_type_qualifier.py"
VB = "cohdl/_compiler/frontend/_value_branch.py"
CTX = "cohdl/_core/_context.py"
OUT = "cohdl/_compiler/frontend/_prepare_ast_out.py"

# documented matrix: (target class) -> source kind -> decision (source OP target)
DOC = {
    "Unsigned": {"U": "<=", "S": "reject", "BV": "delegate"},
    "Signed": {"S": "<=", "U": "<", "BV": "delegate"},
}


def rule_front(run):
    run.begin(
        "C05.a",
        "front-end conversion matrix: U->U: w_s <= w_t; S->U: reject; S->S: w_s <= w_t; U->S: w_s < w_t (strict); "
        "BitVector<->U/S and BV->BV: equal width; int literals: exactly the representable range; `_assign` and "
        "`__init__` twins agree; the chain is fail-closed",
        floor=20,
    )
    idx = run.idx
    for rel, own in ((U, "Unsigned"), (S, "Signed")):
        mod = idx.mod(rel)
        for fn in ("__init__", "_assign"):
            f = mod.func(f"{own}.{fn}")
            branches, p = cm.front_branches(f.node, own)
            got = {}
            for kind, decision, line in branches:
                got.setdefault(kind, (decision, line))
            for kind, exp in DOC[own].items():
                if kind == "BV" and fn == "__init__":
                    continue  # __init__ hands every other value to BitVector.__init__
                d = got.get(kind)
                if d is None:
                    run.ob(False, f"{own}.{fn}", file=rel, line=f.node.lineno, detail=f"{kind}->{own}", expected=exp, found="no branch: source kind not guarded")
                    continue
                shown = {"<=": "w_s <= w_t", "<": "w_s < w_t (strict)", "reject": "reject", "delegate": "BitVector rule (equal width)"}
                run.ob(d[0] == exp, f"{own}.{fn}", file=rel, line=d[1], detail=f"{kind}->{own}", expected=shown.get(exp, exp),
                       found={"<=": "w_s <= w_t", "<": "w_s < w_t", ">=": "w_s >= w_t", ">": "w_s > w_t", "==": "w_s == w_t"}.get(d[0], str(d[0])))
            # integer range
            d = got.get("int")
            if d is None or not str(d[0]).startswith("range:"):
                raise AnalysisError(f"{own}.{fn}: integer range check not found")
            rng_assert = [a for a in walk_local(f.node) if isinstance(a, ast.Assert) and a.lineno == d[1]][0]
            ranges = cm.int_range(rng_assert.test, p, f.node, mod, own)
            bad = []
            for w, (lo, hi) in ranges.items():
                exp_lo, exp_hi = (0, 2**w - 1) if own == "Unsigned" else (-(2 ** (w - 1)), 2 ** (w - 1) - 1)
                if (lo, hi) != (exp_lo, exp_hi):
                    bad.append(f"w={w}: [{lo},{hi}] expected [{exp_lo},{exp_hi}]")
            run.ob(not bad, f"{own}.{fn}", file=rel, line=d[1], detail=f"int->{own}",
                   expected="exactly the representable range for every width (checked w=1..12)", found="ok" if not bad else "; ".join(bad[:3]))
        # fail-closed tail of _assign
        f = mod.func(f"{own}._assign")
        last_if = [s for s in f.node.body if isinstance(s, ast.If)][-1]
        node = last_if
        while len(node.orelse) == 1 and isinstance(node.orelse[0], ast.If):
            node = node.orelse[0]
        ok = bool(node.orelse) and isinstance(node.orelse[-1], ast.Raise)
        run.ob(ok, f"{own}._assign", file=rel, line=node.lineno, detail="fail-closed", expected="unknown source kinds raise", found="raise" if ok else "falls through")
        # width-preserving ints: Integer is converted to int first
        ok = any(isinstance(s, ast.If) and "isinstance(" in P.T(s.test) and "Integer" in P.T(s.test) for s in f.node.body[:2])
        run.ob(ok, f"{own}._assign", file=rel, line=f.node.lineno, detail="Integer-normalised", expected="Integer operands are converted to int before the range check", found="ok" if ok else "changed")
    # BitVector._assign: equal width, string literal by length, Null/Full by own type
    bv = idx.mod(BV)
    f = bv.func("BitVector._assign")
    asserts = [a for a in walk_local(f.node) if isinstance(a, ast.Assert)]
    widths = [cm.width_guard(a.test, "other") for a in asserts]
    run.ob("==" in widths, "BitVector._assign", file=bv.rel, line=f.node.lineno, detail="BV->BV", expected="w_s == w_t", found=str([w for w in widths if w]))
    ok = any("isinstance(other, BitVector)" in P.T(a.test) for a in asserts)
    run.ob(ok, "BitVector._assign", file=bv.rel, line=f.node.lineno, detail="Bit<->vector", expected="non-vector sources (Bit, bool, int) are rejected", found="ok" if ok else "missing")
    t = P.T(f.node)
    ok = "BitVector[len(other)](other)" in t
    run.ob(ok, "BitVector._assign", file=bv.rel, line=f.node.lineno, detail="str->BV", expected="string literal converted with its own length (then the width guard applies)", found="ok" if ok else "changed")
    run.end()


def rule_back(run):
    run.begin(
        "C05.b",
        "back-end cast matrix (format_cast interpreted over root kind x target kind x value kind x width relation): "
        "every front-end-accepted case is emitted, has the root's VHDL type, is extended in the source's own "
        "signedness iff the target is wider, and is never extended when widths are equal",
        floor=30,
    )
    idx = run.idx
    mod, block, res = cm.backend(idx)
    n_acc = 0
    for (vt, t, v, rel), r in sorted(res.items()):
        if not cm.frontend_accepts(t, v, rel):
            continue
        # a view of kind t on a root of kind vt exists for every combination (.signed/.unsigned/.bitvector)
        n_acc += 1
        case = f"root={vt},target={t},value={v},{rel}"
        if r[0] != "ok":
            run.ob(False, "VhdlScope.format_cast", file=mod.rel, line=block.lineno, detail=case,
                   expected="accepted by the front end, so the back end must emit a cast", found=f"back end rejects: {r[1]}")
            continue
        _, expr, k, w, ext = r
        exp_w = "TW" if rel == "wider" else "VW"
        problems = []
        if k != vt:
            problems.append(f"expression has VHDL type {k}, target object is {vt}")
        if rel == "wider" and ext is None:
            problems.append("no extension although the target is wider")
        if rel == "wider" and ext is not None and ext != v:
            problems.append(f"extended as {ext} but the source is {v} ({'zero' if ext == 'U' else 'sign'}-extension of a {'signed' if v == 'S' else 'unsigned'} value changes it)")
        if rel == "equal" and ext is not None:
            problems.append("resize although widths are equal")
        if w != exp_w and not (rel == "equal"):
            problems.append(f"width {w}, expected {exp_w}")
        run.ob(not problems, "VhdlScope.format_cast", file=mod.rel, line=block.lineno, detail=case,
               expected="value-preserving cast with the root's type and the target's width", found=expr if not problems else f"{expr}: " + "; ".join(problems))
    if n_acc < 30:
        raise AnalysisError(f"only {n_acc} accepted cases enumerated")
    # the ref-spec walk classifies the root's own kind
    f = mod.func("VhdlScope.format_cast")
    loops = [l for l in walk_local(f.node) if isinstance(l, ast.For) and "_ref_spec" in P.T(l.iter)]
    if not loops:
        raise AnalysisError("anchor vanished: ref-spec walk of format_cast")
    for n in walk_local(loops[0]):
        if isinstance(n, ast.If) and isinstance(n.test, ast.Call) and dotted(n.test.func) == "issubclass":
            assigned = [a for a in n.body if isinstance(a, ast.Assign) and dotted(a.targets[0]) == block._cast_names["vtt"]]
            if assigned and isinstance(assigned[0].value, ast.Subscript):
                var = dotted(n.test.args[0])
                cls = dotted(n.test.args[1])
                new = dotted(assigned[0].value.value)
                ok = var == block._cast_names["vtt"] and cls == new
                run.ob(ok, "VhdlScope.format_cast", file=mod.rel, line=n.lineno, detail=f"refspec-kind[{cls}]",
                       expected=f"issubclass(vhdl_target_type, {cls}) -> {cls}[target width]", found=f"issubclass({var}, {cls}) -> {new}[..]")
    # integer -> vector uses the target width
    t = P.T(block)
    for tok in ("to_unsigned({value_str}, {target_type.width})", "to_signed({value_str}, {target_type.width})"):
        tok = tok.replace("target_type", block._cast_names["tt"])
        run.ob(tok in t, "VhdlScope.format_cast", file=mod.rel, line=block.lineno, detail=tok.split("(")[0], expected=tok, found="ok" if tok in t else "changed")
    run.end()


def rule_trial(run):
    run.begin(
        "C05.c",
        "every assignment form performs the trial assignment, in the direction target <- source: setter replacements, "
        "python-side setters, branch/return redirects, entity port connections (port <- actual for every direction)",
        floor=6,
    )
    idx = run.idx
    vb = idx.mod(VB)
    r = vb.func("_Redirect.__init__")
    # every trial construction target.type(X) is fed from the SOURCE (through locals), never from the target itself
    params = [a.arg for a in r.node.args.args]
    tgt, srcp = (params[1], params[2]) if len(params) >= 3 else ("target", "source")

    def deps(e, depth=0):
        out = set()
        for nm in ast.walk(e):
            if isinstance(nm, ast.Name):
                if nm.id in (tgt, srcp):
                    out.add(nm.id)
                elif depth < 4:
                    for a in walk_local(r.node):
                        if isinstance(a, ast.Assign) and any(dotted(t_) == nm.id for t_ in a.targets):
                            out |= deps(a.value, depth + 1)
        return out

    trials = [c for c in walk_local(r.node) if isinstance(c, ast.Call) and dotted(c.func) == f"{tgt}.type" and c.args]
    ok = len(trials) >= 2 and all(deps(c.args[0]) == {srcp} for c in trials)
    run.ob(ok, "_Redirect.__init__", file=vb.rel, line=r.node.lineno, detail="trial-construct", expected=f"{tgt}.type(<value of {srcp}>) constructed for both qualified and constant sources",
           found="ok" if ok else "; ".join(f"{src(c)} <- {sorted(deps(c.args[0])) or 'nothing'}" for c in trials) or "no trial construction")
    # the trial may not be swallowed
    tries = [x for x in walk_local(r.node) if isinstance(x, ast.Try)]
    ok = all(any(isinstance(s, ast.Raise) for s in h.body) for x in tries for h in x.handlers)
    run.ob(ok, "_Redirect.__init__", file=vb.rel, line=r.node.lineno, detail="error-propagates", expected="incompatible source raises", found="ok" if ok else "exception swallowed")
    ctx = idx.mod(CTX)
    init = ctx.func("Entity.__init__")
    aug = [a for a in ast.walk(init.node) if isinstance(a, ast.AugAssign) and isinstance(a.op, ast.LShift)]
    ok = len(aug) == 1 and P.T(aug[0].target) == "info.ports[name]" and dotted(aug[0].value) == "value"
    run.ob(ok, "Entity.__init__", file=ctx.rel, line=(aug[0].lineno if aug else init.node.lineno), detail="port<-actual",
           expected="info.ports[name] <<= value (for every port direction)", found="; ".join(src(a) for a in aug) or "missing")
    if aug:
        guarded = any(isinstance(anc, ast.If) and "is_output" in P.T(anc.test) for anc in ctx.parents.ancestors(aug[0]))
        run.ob(not guarded, "Entity.__init__", file=ctx.rel, line=aug[0].lineno, detail="direction-independent", expected="same trial for inputs and outputs", found="conditional on port direction" if guarded else "ok")
        tr = [x for x in ctx.parents.ancestors(aug[0]) if isinstance(x, ast.Try)]
        ok = bool(tr) and all(any(isinstance(s, ast.Raise) for s in h.body) for h in tr[0].handlers)
        run.ob(ok, "Entity.__init__", file=ctx.rel, line=aug[0].lineno, detail="error-propagates", expected="failed trial raises", found="ok" if ok else "swallowed")
    out = idx.mod(OUT)
    e = out.func("Entity.__init__")
    calls = [c for c in ast.walk(e.node) if isinstance(c, ast.Call) and isinstance(c.func, ast.Attribute) and c.func.attr == "_assign_"]
    ok = len(calls) == 1 and dotted(calls[0].func.value) == "port" and "port_definitions[name]" in P.T(calls[0].args[0])
    run.ob(ok, "out.Entity.__init__", file=out.rel, line=(calls[0].lineno if calls else e.node.lineno), detail="port<-actual",
           expected="port._assign_(port_definitions[name], ...) for every port", found="; ".join(src(c)[:60] for c in calls) or "missing")
    if calls:
        guarded = any(isinstance(anc, ast.If) and "is_output" in P.T(anc.test) for anc in out.parents.ancestors(calls[0]))
        run.ob(not guarded, "out.Entity.__init__", file=out.rel, line=calls[0].lineno, detail="direction-independent", expected="same trial for inputs and outputs", found="conditional on port direction" if guarded else "ok")
    run.end()


def rule_join(run):
    run.begin(
        "C05.join",
        "branch/return merge: an option that is Null/Full prevents joining altogether (checked first, for every "
        "option); the joined type is verified by constructing it from every option",
        floor=3,
    )
    vb = run.idx.mod(VB)
    f = vb.func("_try_join")
    loops = [l for l in f.node.body if isinstance(l, ast.For)]
    if len(loops) < 2:
        raise AnalysisError("_try_join: expected the join loop and the verification loop")
    first = loops[0].body[0]
    var = loops[0].target.id
    ok = isinstance(first, ast.If) and P.T(first.test) == f"isinstance({var}, _NullFullType)" and isinstance(first.body[-1], ast.Return) and P.T(first.body[-1].value) == "None"
    run.ob(ok, "_try_join", file=vb.rel, line=loops[0].lineno, detail="null-full-first",
           expected="first statement of the join loop: `if isinstance(option, _NullFullType): return None`", found=src(first).split("\n")[0][:90])
    ver = loops[-1]
    tr = [t for t in ver.body if isinstance(t, ast.Try)]
    # the joined type is the variable _try_join finally returns (whatever it is called)
    last = f.node.body[-1]
    if not (isinstance(last, ast.Return) and isinstance(last.value, ast.Name)):
        raise AnalysisError("_try_join: final `return <joined type>` not recognised")
    joined = last.value.id
    ok = bool(tr) and any(dotted(c.func) == joined and c.args and dotted(c.args[0]) == ver.target.id for c in calls_in(tr[0].body)) and all(isinstance(h.body[-1], ast.Return) and P.T(h.body[-1].value) == "None" for h in tr[0].handlers)
    run.ob(ok, "_try_join", file=vb.rel, line=ver.lineno, detail="verified-by-construction", expected="result_type(option) for every option, failure => no join", found="ok" if ok else "changed")
    ok = dotted(ver.iter) == "options" and dotted(loops[0].iter) == "options"
    run.ob(ok, "_try_join", file=vb.rel, line=ver.lineno, detail="all-options", expected="both loops run over all options", found="ok" if ok else "changed")
    # every caller hands over ALL alternatives: a caller that filters Null/Full out would let a narrower type be joined
    n_calls = 0
    for m in run.idx.all_modules("cohdl/"):
        for q, g in m.functions.items():
            for c in calls_in(g.node):
                if dotted(c.func) == "_try_join" and g.node is not f.node:
                    n_calls += 1
                    a = c.args[0] if c.args else None
                    if isinstance(a, ast.Name):
                        defs = [x.value for x in walk_local(g.node) if isinstance(x, ast.Assign) and dotted(x.targets[0]) == a.id]
                        a = defs[-1] if defs else a
                    unfiltered = isinstance(a, ast.ListComp) and len(a.generators) == 1 and not a.generators[0].ifs
                    cond = [anc for anc in m.parents.ancestors(c) if isinstance(anc, ast.IfExp)]
                    run.ob(unfiltered and not cond, f"{m.rel.split('/')[-1]}::{q}", file=m.rel, line=c.lineno, detail="caller-passes-all-options",
                           expected="_try_join([<option> for <branch> in <all branches>]) - unfiltered and unconditional", found=src(a)[:90] if a is not None else "?")
    if n_calls < 1:
        raise AnalysisError("_try_join has no caller")
    run.end()


def rule_literals(run):
    run.begin(
        "C05.lit",
        "bool literals: the constructor and the trial assignment of the boolean type agree on every literal: '0'/0/False "
        "-> False, '1'/1/True -> True, any other string or integer is rejected (abstract evaluation over the literal domain)",
        floor=14,
    )
    from ..absint import Interp, Reject

    class _Self:
        pass

    bm = run.idx.mod("cohdl/_core/_boolean.py")
    prims = {"isinstance": lambda v, t: (isinstance(v, t) if isinstance(t, type) else isinstance(v, tuple(x for x in t if isinstance(x, type))) if isinstance(t, tuple) else False),
             "str": str, "int": int, "bool": bool, "__setattr__": lambda o, k, v: setattr(o, k, v)}
    for meth in ("_Boolean.__init__", "_Boolean._assign"):
        f = bm.func(meth)
        for lit, exp in (("0", False), ("1", True), (0, False), (1, True), (False, False), (True, True), ("2", None), ("", None), ("true", None), (2, None), (-1, None)):
            if meth.endswith("__init__") and isinstance(lit, int) and exp is None:
                continue  # the constructor is also the bool() cast of integers (truthiness); only assignment restricts them
            so = _Self()
            try:
                Interp(bm, dict(prims)).call_function(meth, so, lit)
                got = getattr(so, "_value", "unset")
            except Reject:
                got = None
            run.ob(got is exp if exp is not None else got is None, meth, file=bm.rel, line=f.node.lineno, detail=f"literal {lit!r}",
                   expected=("rejected" if exp is None else str(exp)), found=("rejected" if got is None else str(got)), sample=(lit == "0"))
    run.end()


def rule_backend_sites(run):
    run.begin(
        "C05.d",
        "every back-end assignment form converts its source for the QUALIFIED target object (root and reference spec "
        "decide the cast): signal and variable assignments call format_cast(self._target.result, ..); every alternative "
        "of a selected assignment - including `when others` - is written with the target as hint",
        floor=5,
    )
    vh = run.idx.mod("cohdl/_compiler/backend/vhdl/_vhdl_repr.py")
    for cname in ("SignalAssignment", "VariableAssignment"):
        w = vh.func(f"{cname}.write")
        casts = [c for c in calls_in(w.node) if isinstance(c.func, ast.Attribute) and c.func.attr == "format_cast"]
        if not casts:
            raise AnalysisError(f"{cname}.write: format_cast call not found")
        for k, c in enumerate(casts):
            a0 = src(c.args[0]) if c.args else "?"
            a1 = src(c.args[1]) if len(c.args) > 1 else "?"
            run.ob(a0 == "self._target.result" and a1 == "self._source.result", f"vhdl.{cname}.write", file=vh.rel, line=c.lineno, detail=f"cast#{k}",
                   expected="format_cast(self._target.result, self._source.result, <text>)", found=f"format_cast({a0}, {a1}, ..)")
        # the array form hands the (decayed) target to the source's writer
        arr = [c for c in calls_in(w.node) if src(c.func) == "self._source.write"]
        hinted = [c for c in arr if len(c.args) == 2]
        run.ob(len(arr) == 2 and len(hinted) == 1, f"vhdl.{cname}.write", file=vh.rel, line=w.node.lineno, detail="array-hint", expected="array sources are written with the target as hint, scalars are cast", found=f"{len(arr)} writes, {len(hinted)} hinted")
    sw = vh.func("SelectWith.write")
    # every f-string that ends in a `when ...` choice writes its value with the target hint
    n = 0
    for js in ast.walk(sw.node):
        if isinstance(js, ast.JoinedStr) and any(isinstance(v, ast.Constant) and " when " in str(v.value) for v in js.values):
            first = next((v for v in js.values if isinstance(v, ast.FormattedValue)), None)
            c = first.value if first is not None else None
            n += 1
            ok = isinstance(c, ast.Call) and isinstance(c.func, ast.Attribute) and c.func.attr == "write" and len(c.args) == 2 and src(c.args[1]) == "self._target.result"
            kind = "others" if any(isinstance(v, ast.Constant) and "others" in str(v.value) for v in js.values) else "choice"
            run.ob(ok, "vhdl.SelectWith.write", file=vh.rel, line=js.lineno, detail=f"alternative[{kind}]", expected="<value>.write(scope, self._target.result) when ..", found=src(c)[:70] if c is not None else "?")
    if n < 2:
        raise AnalysisError("SelectWith.write: alternatives not recognised")
    # the vector constructor that Signed/Unsigned delegate BitVector sources to enforces equal width unconditionally
    bv = run.idx.mod(BV)
    for fn in ("BitVector.__init__", "BitVector._assign"):
        f = bv.func(fn)
        ws = [a for a in walk_local(f.node) if isinstance(a, ast.Assert) and "_width" in src(a.test) or isinstance(a, ast.Assert) and ".width" in src(a.test)]
        weak = [a for a in ws if not (isinstance(a.test, ast.Compare) and len(a.test.ops) == 1 and isinstance(a.test.ops[0], ast.Eq))]
        run.ob(bool(ws) and not weak, fn, file=bv.rel, line=f.node.lineno, detail="equal-width", expected="assert <source width> == <own width> with no alternative", found="ok" if ws and not weak else "; ".join(src(a.test)[:60] for a in weak) or "no width assertion")
    run.end()


def rule_bit_literals(run):
    run.begin(
        "C05.bit",
        "Bit literals: exactly the characters the emitter can write back are accepted - every state from_str can produce "
        "has its own character in __str__ (otherwise a literal is accepted and emitted as a different value)",
        floor=4,
    )
    bm = run.idx.mod("cohdl/_core/_bit.py")
    fs = bm.func("BitState.from_str")
    ts = bm.func("BitState.__str__")

    def table(fn, from_char):
        out = {}
        for n in walk_local(fn.node):
            if isinstance(n, ast.If) and isinstance(n.test, ast.Compare) and len(n.test.ops) == 1:
                r = [x for x in n.body if isinstance(x, ast.Return)]
                if not r:
                    continue
                l, rr = n.test.left, n.test.comparators[0]
                if from_char and isinstance(rr, ast.Constant) and isinstance(rr.value, str):
                    out[rr.value] = (dotted(r[0].value) or "").split(".")[-1]
                elif not from_char and (dotted(rr) or "").startswith("BitState.") and isinstance(r[0].value, ast.Constant):
                    out[(dotted(rr)).split(".")[-1]] = r[0].value.value
        return out
    parse, emit = table(fs, True), table(ts, False)
    if len(parse) < 4 or len(emit) < 4:
        raise AnalysisError(f"BitState tables not recognised ({len(parse)}, {len(emit)})")
    # the emitter's fall-through value (the final `else: return "-"`)
    dflt = None
    for r in walk_local(ts.node):
        if isinstance(r, ast.Return) and isinstance(r.value, ast.Constant) and isinstance(r.value.value, str) and r.value.value not in emit.values():
            dflt = r.value.value
    for ch, st in sorted(parse.items()):
        back = emit.get(st, dflt)
        run.ob(back == ch, "BitState.from_str", file=bm.rel, line=fs.node.lineno, detail=f"literal {ch!r}", expected=f"{st} is written back as {ch!r}", found=f"written as {back!r}" if back else f"{st} has no character of its own (falls through to the default)")
    run.end()


def rule_shadow(run):
    from ..rules import shadow
    shadow.run_rule(run, "F-SHADOW")


def rule_select_default(run):
    from . import c03
    c03.rule_select_default(run)


def rule_own_value(run):
    run.begin(
        "C05.own",
        "a qualified object owns its value: a Signal/Variable/Port constructed from an initial value holds a NEW primitive "
        "object (trial assignments write into it; sharing it with the initialiser would change the initialiser)",
        floor=1,
    )
    tq = run.idx.mod(TQ)
    f = tq.func("TypeQualifier.__init__")
    n = 0
    for a in walk_local(f.node):
        if isinstance(a, ast.Assign) and dotted(a.targets[0]) == "self._value":
            # the root branch (`_root is not None`) creates a VIEW and must alias; every other assignment constructs
            in_view_branch = any(isinstance(g, ast.If) and "_root" in src(g.test) and any(x is a for b in g.body for x in ast.walk(b)) for g in tq.parents.ancestors(a))
            if in_view_branch:
                continue
            n += 1
            ok = isinstance(a.value, ast.Call)
            run.ob(ok, "TypeQualifier.__init__", file=tq.rel, line=a.lineno, detail=f"value#{n}", expected="self._value = <Wrapped type>(value)  (a fresh object)", found=src(a)[:70])
    if n < 1:
        raise AnalysisError("TypeQualifier.__init__: construction of the owned value not found")
    run.end()


def rule_copy(run):
    run.begin(
        "C05.copy",
        "BitVector.copy() is a DEEP copy: the constructor adopts a span of bits as the new object's storage, so the span "
        "handed to it consists of new Bit objects (bit.copy()) in the same order - a shallow copy would make the literal "
        "built for one assignment change with every later write to its source (abstract evaluation of BitVector.copy and "
        "of the Span methods it uses, read from cohdl/utility/span.py)",
        floor=3,
    )
    from ..absint import Interp, Reject

    bvm = run.idx.mod("cohdl/_core/_bit_vector.py")
    spm = run.idx.mod("cohdl/utility/span.py")
    f = bvm.func("BitVector.copy")

    class _BitM:
        def __init__(self, state, origin=None):
            self.state, self.origin = state, origin

        def copy(self):
            return _BitM(self.state, self)

    class _SpanM:
        def __getattr__(self, name):
            if name.startswith("__") or not spm.has_func(f"Span.{name}"):
                raise AttributeError(name)
            return lambda *a, **k: _interp().call_function(f"Span.{name}", self, *a, **k)

        def __iter__(self):
            return iter(self._data)

        def __len__(self):
            return len(self._data)

    class _SpanCls:
        def __call__(self, content):
            o = _SpanM()
            _interp().call_function("Span.__init__", o, content)
            return o

        def __getattr__(self, name):
            if name.startswith("__") or not spm.has_func(f"Span.{name}"):
                raise AttributeError(name)
            return lambda *a, **k: _interp().call_function(f"Span.{name}", *a, **k)

    span_cls = _SpanCls()

    def _interp():
        return Interp(spm, {"Span": span_cls, "isinstance": lambda v, t: isinstance(v, t) if isinstance(t, (type, tuple)) else False, "len": len, "zip": zip, "slice": slice, "int": int,
                            "__setattr__": lambda o, k, v: setattr(o, k, v)})

    class _Me:
        pass

    for w in (1, 3, 8):
        bits = [_BitM("01"[i % 2]) for i in range(w)]
        me = _Me()
        me._value = _SpanM()
        me._value.__dict__["_data"] = list(bits)
        got = {}
        prims = {"type": lambda o: (lambda v=None: got.__setitem__("arg", v)), "Span": span_cls, "isinstance": lambda v, t: isinstance(v, t) if isinstance(t, (type, tuple)) else False}
        try:
            Interp(bvm, prims).call_function("BitVector.copy", me)
            arg = got.get("arg")
            if not isinstance(arg, _SpanM):
                res, ok = f"constructor argument {type(arg).__name__}", False
            else:
                data = arg._data
                shared = [i for i, b in enumerate(data) if any(b is o for o in bits)]
                same = len(data) == w and all(isinstance(b, _BitM) and b.state == o.state for b, o in zip(data, bits))
                ok = same and not shared
                res = "new bits, same states" if ok else (f"bits {shared} are the source's own Bit objects (shallow copy)" if shared else "states / order differ")
        except Reject as e:
            res, ok = f"rejected: {e}", False
        run.ob(ok, "BitVector.copy", file=bvm.rel, line=f.node.lineno, detail=f"width={w}", expected="a span of new Bit objects with the same states", found=res, sample=w == 3)
    run.end()


def rule_view_cast(run):
    run.begin(
        "C05.viewcast",
        "a whole-object view (.unsigned/.signed/.bitvector of an object without slicing) is emitted as a conversion of "
        "the root's VHDL name whose RESULT type is the view's kind: signed(..) for a Signed view, unsigned(..) for an "
        "Unsigned view, std_logic_vector(..) for a BitVector view; the root's own kind is returned unconverted "
        "(abstract evaluation of format_vhdl_cast over root kind x view kind, Array roots included)",
        floor=9,
    )
    import re
    from ..absint import Interp, Reject

    class _BV:
        width = 8

    class _U(_BV):
        pass

    class _S(_BV):
        pass

    class _Arr:
        def __init__(self, et):
            self.et = et

    class _TQ:
        pass

    class _BVSub:
        def __getitem__(self, w):
            return _BV

    vh = run.idx.mod("cohdl/_compiler/backend/vhdl/_vhdl_repr.py")
    f = vh.func("VhdlScope.format_vhdl_cast")
    kinds = {"BitVector": _BV, "Unsigned": _U, "Signed": _S}
    outer = {"signed": "Signed", "unsigned": "Unsigned", "std_logic_vector": "BitVector"}

    class _ArrT(type):
        pass

    for rname, R in kinds.items():
        for vname, V in kinds.items():
            for arr in (False, True):
                val = _TQ()
                val.type = V
                root = _TQ()
                if arr:
                    class _ArrType(_Arr):
                        @staticmethod
                        def elemtype(R=R):
                            return R
                    root.type = _ArrType
                else:
                    root.type = R
                val._root = root
                prims = {"isinstance": lambda v, t: isinstance(v, t) if isinstance(t, (type, tuple)) else False,
                         "issubclass": lambda c, b: isinstance(c, type) and isinstance(b, type) and issubclass(c, b),
                         "TypeQualifier": _TQ, "BitVector": _BV, "Unsigned": _U, "Signed": _S, "Array": _Arr}
                # BitVector[...] : the class object must be subscriptable in the model
                try:
                    got = Interp(vh, prims).call_function("VhdlScope.format_vhdl_cast", None, val, "x")
                except Reject as e:
                    got = f"rejected: {e}"
                if R is V:
                    ok, exp = got == "x", "x (no conversion)"
                else:
                    mm = re.match(r"^(\w+)\((.*)\)$", got or "") if isinstance(got, str) else None
                    ok = bool(mm) and outer.get(mm.group(1)) == vname and got.count("x") == 1 and re.sub(r"\w+\(|\)", "", got) == "x"
                    exp = f"{[k for k, v in outer.items() if v == vname][0]}(... x ...)"
                run.ob(ok, "VhdlScope.format_vhdl_cast", file=vh.rel, line=f.node.lineno, detail=f"root={rname}{'[]' if arr else ''},view={vname}", expected=exp, found=str(got), sample=(rname, vname, arr) == ("Signed", "Unsigned", False))
    run.end()


def rule_views(run):
    from ..rules import views
    views.run_rule(run, "F-VIEW")   # the trial assignment is checked against the view's bits: the emitted target must be those bits (nested slices)
    views.run_kind_rule(run, "F-VIEW.kind")   # u.signed / s.unsigned reinterpret, they never return the object unconverted


def rule_ctor_width(run):
    run.begin(
        "C05.ctorwidth",
        "a vector constructed from a vector (or string) of another width is rejected: BitVector.__init__ compares the "
        "widths itself before it copies the bits - the copy (Span.apply_zip) pairs the bits with zip, which silently stops "
        "at the shorter operand (a wider source is truncated, a narrower one leaves the upper bits uninitialised)",
        floor=2,
    )
    from ..astutil import unconditional_stmt
    bvm = run.idx.mod("cohdl/_core/_bit_vector.py")
    f = bvm.func("BitVector.__init__")
    params = [a.arg for a in f.node.args.args]
    v = params[1] if len(params) > 1 else "val"
    n = 0
    for br in ast.walk(f.node):
        if isinstance(br, ast.If) and isinstance(br.test, ast.Call) and dotted(br.test.func) == "isinstance" and dotted(br.test.args[0]) == v and dotted(br.test.args[1]) in ("BitVector", "str"):
            kind = dotted(br.test.args[1])
            # the branch hands the bits to copy over in a local (whatever it is called)
            copies = [a for a in br.body if isinstance(a, ast.Assign) and len(a.targets) == 1 and isinstance(a.targets[0], ast.Name) and v in {n_.id for n_ in ast.walk(a.value) if isinstance(n_, ast.Name)}]
            if not copies:
                continue
            n += 1
            def is_width_check(st):
                if not isinstance(st, ast.Assert):
                    return False
                for c in ast.walk(st.test):
                    if isinstance(c, ast.Compare) and len(c.ops) == 1 and isinstance(c.ops[0], ast.Eq):
                        sides = src(c.left) + " " + src(c.comparators[0])
                        if v in sides and "self._width" in sides and ("width" in sides.replace("self._width", "") or "len(" in sides):
                            return True
                return False
            chk = [st for st in br.body if is_width_check(st)]
            ok = bool(chk) and chk[0].lineno < copies[0].lineno
            run.ob(ok, "BitVector.__init__", file=bvm.rel, line=br.lineno, detail=f"from-{kind}", expected=f"assert <width of {v}> == self._width before the bits are copied",
                   found="ok" if ok else "no width comparison: the bit-wise copy zips the two spans and stops at the shorter one")
    if n < 2:
        raise AnalysisError("BitVector.__init__: value branches (BitVector / str) not recognised")
    run.end()


def rule_port_kinds(run):
    from . import c12
    c12.rule_port_widths(run)   # port associations are not converted: declared kind and width of the actual equal the port's


def rule_alias(run):
    from ..rules import snapshot
    snapshot.run_alias_rule(run, "F-ALIAS")


def rule_bit_ctor_domain(run):
    """A Bit takes exactly the values 0 and 1 from the integer world: every int / cohdl.Integer / bool around that
    range is either rejected or stored as LOW for 0 and HIGH for 1 - nothing outside {0, 1} is folded to a bit
    (abstract evaluation of BitState.construct; Integer is modelled by its get_value())."""
    run.begin("C05.bitctor", "BitState.construct: ints and cohdl.Integer values outside {0, 1} are rejected, 0 -> LOW, 1 -> HIGH, bool -> its value", floor=15)
    from ..absint import Interp, Reject
    bm = run.idx.mod("cohdl/_core/_bit.py")
    f = bm.func("BitState.construct")

    class _IntegerM:
        def __init__(self, v):
            self.v = v

        def get_value(self):
            return self.v

        def __bool__(self):
            return bool(self.v)

        def __index__(self):
            return self.v

        def __int__(self):
            return self.v

        def __eq__(self, o):
            return self.v == (o.v if isinstance(o, _IntegerM) else o)

        __hash__ = None

    class _BS:
        LOW, HIGH, UNINITIALZED = "LOW", "HIGH", "UNINITIALZED"

        @staticmethod
        def from_str(x):
            raise Reject("str")

    class _Dummy:
        pass

    class _Bit(_Dummy):
        pass

    class _Bool(_Dummy):
        pass

    class _NF(_Dummy):
        pass

    t_, f_ = _Dummy(), _Dummy()

    def isinst(v, t):
        ts = t if isinstance(t, tuple) else (t,)
        for c in ts:
            if c is _BS:
                if v in ("LOW", "HIGH", "UNINITIALZED"):
                    return True
            elif isinstance(c, type) and isinstance(v, c):
                return True
        return False
    prims = {"isinstance": isinst, "Integer": _IntegerM, "true": t_, "false": f_, "BitState": _BS, "Bit": _Bit, "_Boolean": _Bool, "_NullFullType": _NF,
             "Null": _NF(), "Full": _NF(), "bool": bool, "int": int, "str": str, "type": type}
    samples = [("None", None, "UNINITIALZED")]
    lo, hi = run.bound((-2, 4), (-9, 18))
    for v in range(lo, hi):
        exp = {0: "LOW", 1: "HIGH"}.get(v)
        samples.append((f"int {v}", v, exp))
        samples.append((f"Integer({v})", _IntegerM(v), exp))
    samples += [("True", True, "HIGH"), ("False", False, "LOW")]
    for label, arg, exp in samples:
        try:
            got = Interp(bm, dict(prims)).call_function("BitState.construct", arg)
        except Reject:
            got = None
        ok = got == exp
        run.ob(ok, "BitState.construct", file=bm.rel, line=f.node.lineno, detail=label, expected=exp or "rejected", found=str(got) if got is not None else "rejected")
    run.end()


RULES = [rule_front, rule_back, rule_trial, rule_join, rule_literals, rule_shadow, rule_backend_sites, rule_bit_literals, rule_select_default, rule_own_value, rule_copy, rule_view_cast, rule_views, rule_ctor_width, rule_port_kinds, rule_alias, rule_bit_ctor_domain]
LEVEL = "other"
EXPLANATION = (
    "Conversion matrices decided statically for all widths and values: (front end) the accept/reject decision and "
    "the width guard of every source-kind branch of the trial assignment functions equals the documented matrix, "
    "integer ranges are evaluated as formulas for w=1..12; (back end) format_cast is interpreted over the finite "
    "domain root-kind x target-kind x value-kind x width-relation (81 cases): every accepted case is emitted with the "
    "root's VHDL type, extended in the source's signedness iff the target is wider; every assignment form runs the "
    "trial in the direction target <- source; branch merges never join Null/Full; BitState.construct is evaluated abstractly over ints / Integer values / bools around {0,1} (C05.bitctor). NOT decided: bit-exactness of "
    "numeric_std resize, the Python bit-copy loops."
)
ASSUMPTIONS = [
    "numeric_std resize sign-extends signed and zero-extends unsigned operands; unsigned()/signed()/std_logic_vector() are bit-preserving type conversions",
    "run-time values reaching format_cast are qualified objects of kind Unsigned/Signed/BitVector (literals take the literal branch)",
]
