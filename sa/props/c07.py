"""C07 - one driver per signal: conflicts rejected, accepted designs conflict-free.

Decided:
  F-ROLE      every field the back end drives is flagged WRITE/PUSH by visit_objects, every field it
              reads is flagged READ; flags are single enum members (consumers test by identity)
  C07.b       the usage check covers all contexts and all instance outputs, keyed by root, and its
              rejections are not weakened by extra conditions
  C07.e       variables / temporaries cannot leave their context (concurrent contexts, always blocks,
              back-end scopes)
  F-VIEW      every view of a qualified object keeps _root and _ref_spec (slices and elements are
              attributed to the whole object)
"""

from __future__ import annotations

import ast

from ..astutil import AnalysisError, dotted, src, walk_local, walk_ordered, calls_in
from .. import pattern as P
from ..rules import roles
from ..rules import views

IRR = "cohdl/_core/_ir/_repr.py"
GEN = "cohdl/_compiler/frontend/_generate_ir.py"
VH = "cohdl/_compiler/backend/vhdl/_vhdl_repr.py"


def _contains(root, node):
    return any(n is node for n in ast.walk(root))


class GStr(str):
    """a guard as text (`if <test>` / `else-of <test>` / `unless <test>`) that compares structurally: equal to a plain
    string when the prefix agrees and the test matches the string's test with local names as metavariables"""

    def __new__(cls, prefix, test):
        self = super().__new__(cls, f"{prefix} {src(test)}")
        self.prefix, self.test = prefix, test
        return self

    def __eq__(self, other):
        if isinstance(other, str) and not isinstance(other, GStr):
            if str.__eq__(self, other):
                return True
            if not other.startswith(self.prefix + " "):
                return False
            try:
                return bool(P.amatch(self.test, other[len(self.prefix) + 1:]))
            except SyntaxError:
                return False
        return str.__eq__(self, other)

    def __ne__(self, other):
        return not self.__eq__(other)

    __hash__ = str.__hash__


def guards(fn_node, node, pm, stop=None):
    """conditions under which `node` executes inside fn: enclosing if-tests (with arm) and preceding
    early exits (`if c: continue/return/raise` earlier in an enclosing block)."""
    out = []
    stmt = pm.enclosing_stmt(node)
    chain = [stmt] + [a for a in pm.ancestors(stmt) if isinstance(a, ast.stmt)]
    for st in chain:
        if st is fn_node or st is stop:
            break
        par = pm.of(st)
        fld = pm.field_of(st)
        block = getattr(par, fld, None) if fld else None
        if isinstance(block, list) and st in block:
            for prev in block[: block.index(st)]:
                if isinstance(prev, ast.If) and prev.body and isinstance(prev.body[-1], (ast.Continue, ast.Return, ast.Break, ast.Raise)):
                    out.append(GStr("unless", prev.test))
        if isinstance(par, ast.If):
            arm = "if" if fld == "body" else "else-of"
            out.append(GStr(arm, par.test))
    return out


def rule_roles(run):
    run.begin(
        "F-ROLE",
        "IR access roles: a field the assembler wraps in vhdl.Target / assigns as result is flagged WRITE or PUSH, a "
        "field wrapped in vhdl.Value/Constant is flagged READ; every flag handed to the callback is a single "
        "AccessFlags member; every IR statement class defines visit_objects",
        floor=40,
    )
    idx = run.idx
    m, table = roles.visit_table(idx)
    am, asm = roles.assembler_roles(idx)
    for cname, fields in sorted(asm.items()):
        if cname not in table:
            raise AnalysisError(f"assembler handles ir.{cname} which is not an IR class")
        for fld, want in sorted(fields.items()):
            got = roles.effective_flags(table, cname, fld) | roles.effective_flags(table, cname, fld + "[*]")
            if "driven" in want:
                ok = bool(got) and got <= {"WRITE", "PUSH"}
                exp = "WRITE or PUSH (the back end drives this object)"
            else:
                ok = bool(got) and got <= {"READ"}
                exp = "READ (the back end reads this object)"
            run.ob(ok, f"ir.{cname}", file=m.rel, line=table[cname]["line"], detail=fld, expected=exp, found=str(sorted(got)) if got else "not presented to visit_objects")
    # single-member flags everywhere
    for cname, e in sorted(table.items()):
        for fld, fl in sorted(e["flags"].items()):
            bad = [x for x in fl if "|" in x or x.startswith("?")]
            run.ob(not bad, f"ir.{cname}", file=m.rel, line=e["line"], detail=f"{fld}.single-flag",
                   expected="one AccessFlags member per access (consumers compare with `is`)", found=str(sorted(fl)), sample=False)
    # documented special roles
    spec = {("SignalPush", "_target"): {"PUSH"}, ("SignalAssignment", "_target"): {"WRITE"}, ("VariableAssignment", "_target"): {"WRITE"},
            ("Expression", "_result"): {"WRITE"}, ("ResetInstance", "_obj"): {"WRITE"}, ("InlineCode", "nodes[*]"): {"READ", "WRITE"}}
    for (cname, fld), want in spec.items():
        got = table.get(cname, {}).get("flags", {}).get(fld, set())
        run.ob(got == want, f"ir.{cname}", file=m.rel, line=table.get(cname, {}).get("line", 0), detail=f"{fld}.role", expected=str(sorted(want)), found=str(sorted(got)))
    # every Statement subclass has (or inherits through super) a visit_objects
    for cname, e in sorted(table.items()):
        chain = [cname]
        c = cname
        while table.get(c, {}).get("bases"):
            b = [x for x in table[c]["bases"] if x in table]
            if not b:
                break
            c = b[0]
            chain.append(c)
        if "Statement" in chain and cname != "Statement":
            has = any(table[x]["fn"] is not None for x in chain if x != "Statement")
            run.ob(has, f"ir.{cname}", file=m.rel, line=e["line"], detail="has-visit_objects", expected="visit_objects defined", found="defined" if has else "missing: its objects are invisible to every analysis", sample=False)
    # containers recurse into all their sub-blocks
    rec = {"CodeBlock": 1, "If": 3, "CaseWhen": 2, "CondSelect": 3, "_State": 1, "Statemachine": 1, "Context": 1}
    for cname, n in rec.items():
        got = len(table.get(cname, {}).get("recurse", []))
        run.ob(got >= n, f"ir.{cname}", file=m.rel, line=table.get(cname, {}).get("line", 0), detail="recurses", expected=f">= {n} recursive visit(s) into sub-blocks", found=str(table.get(cname, {}).get("recurse")))
    run.end()


def rule_usage(run):
    run.begin(
        "C07.b",
        "usage check of EntityTemplate: writes (WRITE or PUSH) to input ports are rejected; a root written from two "
        "contexts is rejected; instance output ports count as writers and collide with any earlier writer "
        "(unconditionally); every context and every block is visited",
        floor=10,
    )
    rp = run.idx.mod(IRR)
    pm = rp.parents
    init = rp.func("EntityTemplate.__init__")
    cu = rp.func("EntityTemplate.__init__.<locals>.check_usage")
    top = [s for s in cu.node.body if isinstance(s, ast.If)]
    wr = [s for s in top if "AccessFlags.WRITE" in P.T(s.test) and "AccessFlags.PUSH" in P.T(s.test)]
    ok = bool(wr) and isinstance(wr[0].test, ast.BoolOp) and isinstance(wr[0].test.op, ast.Or)
    run.ob(ok, "EntityTemplate.check_usage", file=rp.rel, line=cu.node.lineno, detail="writer-flags", expected="access is WRITE or access is PUSH", found=src(wr[0].test) if wr else "missing")
    if not wr:
        raise AnalysisError("writer branch of check_usage not found")
    w = wr[0]
    raises = [r for r in walk_local(w) if isinstance(r, ast.Raise)]
    inp = [r for r in raises if any("is_input()" in g for g in guards(cu.node, r, pm))]
    ok = len(inp) == 1
    run.ob(ok, "EntityTemplate.check_usage", file=rp.rel, line=w.lineno, detail="input-port-write", expected="raise for every write access to an input port", found="ok" if ok else "missing")
    if inp:
        g = [x for x in guards(cu.node, inp[0], pm, stop=None)]
        extra = [x for x in g if x not in ("if isinstance(obj, Port) and obj.is_input()", "if " + src(w.test))]
        run.ob(not extra, "EntityTemplate.check_usage", file=rp.rel, line=inp[0].lineno, detail="input-port-write.guards", expected="no further condition", found=str(extra) if extra else "ok")
    asserts = [a for a in walk_local(w) if isinstance(a, ast.Assert)]
    ok = any("written_in[obj_root] is current_ctx" in P.T(a.test) for a in asserts)
    run.ob(ok, "EntityTemplate.check_usage", file=rp.rel, line=w.lineno, detail="single-writer", expected="assert written_in[root] is current_ctx", found="ok" if ok else "; ".join(src(a.test) for a in asserts))
    t = P.T(w)
    ok = "obj_root = obj._root" in t and "written_in[obj_root] = current_ctx" in t and "obj_root in written_in" in t
    run.ob(ok, "EntityTemplate.check_usage", file=rp.rel, line=w.lineno, detail="keyed-by-root", expected="bookkeeping keyed by obj._root", found="ok" if ok else "changed")
    kinds = [src(c.args[1]) for c in calls_in(w) if dotted(c.func) == "isinstance" and dotted(c.args[0]) == "obj" and "Signal" in P.T(c.args[1])]
    run.ob(kinds == ["(Signal, Variable, Temporary)"], "EntityTemplate.check_usage", file=rp.rel, line=w.lineno, detail="writer-kinds", expected="(Signal, Variable, Temporary)", found=str(kinds))
    # context-local objects
    loc = [s for s in top if src(s.test) in ("isinstance(obj, (Temporary, Variable))", "isinstance(obj, (Variable, Temporary))")]
    ok = bool(loc) and any("used_in[obj_root] is current_ctx" in P.T(a.test) for a in walk_local(loc[0]) if isinstance(a, ast.Assert))
    run.ob(ok, "EntityTemplate.check_usage", file=rp.rel, line=cu.node.lineno, detail="context-local", expected="Temporary/Variable used in one context only (every access, any flag)", found="ok" if ok else "changed")
    # applied to all contexts
    loops = [l for l in init.node.body if isinstance(l, ast.For)]
    ctx_loop = [l for l in loops if P.T(l.iter) == "self.all_contexts()"]
    # the variable that names the current driver: whatever check_usage stores in written_in[...]
    kvs = [dotted(a.value) for a in ast.walk(cu.node) if isinstance(a, ast.Assign) and isinstance(a.targets[0], ast.Subscript) and dotted(a.targets[0].value) == "written_in" and isinstance(a.value, ast.Name)]
    kv = kvs[0] if kvs else "current_ctx"
    ok = bool(ctx_loop) and f"{kv} = " + ctx_loop[0].target.id in src(ctx_loop[0]) and f"{ctx_loop[0].target.id}.visit_objects(check_usage)" in P.T(ctx_loop[0])
    if ctx_loop:
        cv = ctx_loop[0].target.id
        lt = src(ctx_loop[0])
        # the always block of a sequential context is emitted OUTSIDE the process: it is a driver of its own
        own = f"{kv} = {cv}._always_expr" in lt and f"{cv}._always_expr.visit_objects(check_usage)" in lt and f"Context.visit_objects({cv}, check_usage)" in lt
        first = lt.find(f"{kv} = {cv}._always_expr") < lt.find(f"{cv}._always_expr.visit_objects(check_usage)") < lt.find(f"{kv} = {cv}\n") if own else False
        run.ob(own and first, "EntityTemplate.__init__", file=rp.rel, line=ctx_loop[0].lineno, detail="always-block-is-a-driver", expected="the always block is visited under its own key (current_ctx = ctx._always_expr), the body under ctx", found="ok" if own and first else "the always block is checked as part of its sequential context")
    run.ob(ok, "EntityTemplate.__init__", file=rp.rel, line=init.node.lineno, detail="all-contexts", expected="for ctx in self.all_contexts(): current_ctx = ctx; ctx.visit_objects(check_usage)", found="ok" if ok else "changed")
    blk_loop = [l for l in loops if P.T(l.iter) == "self.all_blocks()"]
    if not blk_loop:
        raise AnalysisError("instance output loop not found")
    bl = blk_loop[0]
    all_raises = [r for r in walk_local(bl) if isinstance(r, ast.Raise)]
    inp_raises = [r for r in all_raises if any("is_input()" in g for g in guards(init.node, r, pm) if g.startswith("if "))]
    raises = [r for r in all_raises if r not in inp_raises]
    ok = len(inp_raises) == 1
    run.ob(ok, "EntityTemplate.__init__", file=rp.rel, line=bl.lineno, detail="instance-output-to-input-port", expected="raise when an instance output is connected to an input port of the parent", found="ok" if ok else "missing: an input port can be driven by an instance")
    if inp_raises:
        g = guards(init.node, inp_raises[0], pm)
        allowed_i = ["if isinstance(sig_root, Port) and sig_root.is_input()", "unless not decl.is_output()", "if isinstance(block, Entity)"]
        extra = [x for x in g if x not in allowed_i]
        run.ob(not extra, "EntityTemplate.__init__", file=rp.rel, line=inp_raises[0].lineno, detail="instance-output-to-input-port.guards", expected="no further condition", found=str(extra) if extra else "ok")
    ok = len(raises) == 1
    run.ob(ok, "EntityTemplate.__init__", file=rp.rel, line=bl.lineno, detail="instance-output-collision", expected="raise when an instance output drives an already written root", found="ok" if ok else f"{len(raises)} raise statements")
    if raises:
        g = guards(init.node, raises[0], pm)
        allowed = ["if sig_root in written_in", "unless not decl.is_output()", "if isinstance(block, Entity)", "unless isinstance(sig_root, Port) and sig_root.is_input()"]
        extra = [x for x in g if x not in allowed]
        missing = [x for x in allowed if x not in g and not x.startswith("unless isinstance(sig_root")]
        run.ob(not extra and not missing, "EntityTemplate.__init__", file=rp.rel, line=raises[0].lineno, detail="instance-output-collision.guards",
               expected="exactly: block is an instance, port is an output, root already written", found=("extra " + str(extra) if extra else "") + (" missing " + str(missing) if missing else "") or "ok")
    t = P.T(bl)
    ok = "written_in[sig_root] = block" in t and "sig_root: Signal = sig._root" in t or ("sig_root = sig._root" in t and "written_in[sig_root] = block" in t)
    run.ob(ok, "EntityTemplate.__init__", file=rp.rel, line=bl.lineno, detail="instance-output-recorded", expected="written_in[sig._root] = block", found="ok" if ok else "changed")
    # traversal
    for name, must in (("Block.all_contexts", ["yield ctx", "yield from sub.all_contexts()"]), ("Block.all_blocks", ["yield self", "yield from sub.all_blocks()"])):
        f = rp.func(name)
        t = P.T(f.node)
        ok = all(x in t for x in must)
        run.ob(ok, name, file=rp.rel, line=f.node.lineno, detail="recursive", expected="own items and all nested sub-blocks", found="ok" if ok else "changed")
    run.end()


def rule_local(run):
    run.begin(
        "C07.e",
        "variables and intermediates stay in their context: concurrent contexts reject Variable for every access; "
        "always-blocks cannot inherit temporaries (any view, keyed by root); back-end scopes reject sharing",
        floor=6,
    )
    gen = run.idx.mod(GEN)
    pm = gen.parents
    chk = gen.func("ConvertInstance.apply.<locals>.check_variables_and_temporaries")
    from ..astutil import unconditional_stmt
    first = unconditional_stmt(chk.node, lambda st: isinstance(st, ast.Assert) and src(st.test) == "not isinstance(obj, Variable)")
    ok = first is not None
    first = first or chk.node.body[0]
    run.ob(ok, "ConvertInstance.apply[Concurrent]", file=gen.rel, line=chk.node.lineno, detail="no-variables", expected="unconditional `assert not isinstance(obj, Variable)`", found=src(first)[:70])
    ap = gen.func("ConvertInstance.apply")
    applied = any(isinstance(c.func, ast.Attribute) and c.func.attr in ("visit_objects", "visit_referenced_objects") and c.args and dotted(c.args[0]) == chk.node.name for c in calls_in(ap.node))
    run.ob(applied, "ConvertInstance.apply[Concurrent]", file=gen.rel, line=ap.node.lineno, detail="applied", expected="check applied to the whole concurrent context", found="ok" if applied else "not applied")
    # everything the back end emits as CONCURRENT statements (outside of any process) is free of process variables:
    # besides concurrent contexts that is the always block of a sequential context
    asm = run.idx.mod("cohdl/_compiler/backend/vhdl/_vhdl_assembler.py")
    conc_srcs = []
    for c in ast.walk(asm.tree):
        if isinstance(c, ast.Call) and isinstance(c.func, ast.Attribute) and c.func.attr == "convert_stmt" and any(k.arg == "context" and (dotted(k.value) or "").endswith("CONCURRENT") for k in c.keywords) and c.args:
            conc_srcs.append(c)
    always_sites = [c for c in conc_srcs if "_always_expr" in src(c.args[0])]
    if not conc_srcs:
        raise AnalysisError("assembler: no statement is converted with context=Context.CONCURRENT")
    for c in always_sites:
        # the IR generator must run a no-Variable traversal over <sequential>._always_expr
        found = None
        for call in calls_in(ap.node):
            if isinstance(call.func, ast.Attribute) and call.func.attr in ("visit_objects", "visit_referenced_objects") and "_always_expr" in src(call.func.value) and call.args and isinstance(call.args[0], ast.Name):
                cb = gen.functions.get(f"ConvertInstance.apply.<locals>.{call.args[0].id}")
                if cb is not None and unconditional_stmt(cb.node, lambda st: isinstance(st, ast.Assert) and src(st.test) == "not isinstance(obj, Variable)") is not None:
                    found = call
        run.ob(found is not None, "ConvertInstance.apply[Sequential]", file=gen.rel, line=(found.lineno if found else ap.node.lineno), detail="always-block-no-variables",
               expected="the always block (emitted as concurrent statements by the assembler) is traversed with an unconditional `assert not isinstance(obj, Variable)`",
               found="ok" if found else f"no such traversal of `_always_expr`: a Variable read in `with cohdl.always:` is referenced outside the process that declares it ({asm.rel}:{c.lineno})")
    ft = gen.func("IrGenerator.convert_sequential.<locals>.find_temporaries")
    top = [s for s in ft.node.body if isinstance(s, ast.If)]
    ok = bool(top) and P.T(top[0].test) == "isinstance(obj, Temporary)"
    run.ob(ok, "convert_sequential.find_temporaries", file=gen.rel, line=ft.node.lineno, detail="all-views", expected="every Temporary (root, slice or element) is examined", found=src(top[0].test) if top else "missing")
    t = P.T(ft.node)
    ok = "parent = obj._root" in t and "parent not in temp_replacement" in t and any(isinstance(r, ast.Raise) for r in walk_local(ft.node))
    run.ob(ok, "convert_sequential.find_temporaries", file=gen.rel, line=ft.node.lineno, detail="inherit-rejected", expected="reading a temporary that the always block did not write raises, keyed by root", found="ok" if ok else "changed")
    cs = gen.func("IrGenerator.convert_sequential")
    order = [(c.func.attr, dotted(c.args[0])) for c in walk_ordered(cs.node) if isinstance(c, ast.Call) and isinstance(c.func, ast.Attribute) and c.func.attr.startswith("visit") and c.args]
    repl = [(c.func.attr, src(c.func.value)) for c in walk_ordered(cs.node) if isinstance(c, ast.Call) and isinstance(c.func, ast.Attribute) and c.func.attr.startswith("visit") and c.args and dotted(c.args[0]) == "replace_temporaries"]
    ok = order[:1] == [("visit_referenced_objects", "find_temporaries")] and len(repl) == 2 and all(a == "visit_referenced_objects" for a, _ in repl) and len({r for _, r in repl}) == 2 \
        and all(a == "visit_referenced_objects" for a, f_ in order if f_ in ("find_temporaries", "replace_temporaries"))
    run.ob(ok, "IrGenerator.convert_sequential", file=gen.rel, line=cs.node.lineno, detail="find-then-replace", expected="find over all referenced objects of the always block, then replace in both blocks", found=str(order))
    vh = run.idx.mod(VH)
    d = vh.func("VhdlScope.declare")
    asserts = [a for a in walk_local(d.node) if isinstance(a, ast.Assert) and "Variable, Temporary" in P.T(a.test)]
    if not asserts:
        raise AnalysisError("scope-sharing assertion of VhdlScope.declare not found")
    g = guards(d.node, asserts[0], vh.parents)
    allowed = ["if not _is_first", "if obj in self._declarations"]
    extra = [x for x in g if x not in allowed]
    run.ob(not extra and "if not _is_first" in g, "VhdlScope.declare", file=vh.rel, line=asserts[0].lineno, detail="no-sharing",
           expected="assert not isinstance(obj, (Variable, Temporary)) whenever an existing declaration is requested from another scope", found=str(g))
    run.end()


def rule_views(run):
    views.run_rule(run, "F-VIEW")


def rule_writeback(run):
    from ..rules import roles as _roles
    _roles.run_writeback_rule(run, "F-WRITEBACK")


def rule_names(run):
    from . import c06
    c06.rule_names(run)       # two objects never share one (case-insensitive) VHDL name: a shared name merges their drivers


def rule_buffers(run):
    from . import c06
    c06.rule_buffers(run)     # instances drive the buffer of an output port, never the port next to its buffer assignment


def rule_temporaries_local(run):
    from . import c08
    c08.rule_leaf(run)        # a temporary read in a context that did not write it is rejected (no exemption)


def rule_refspec(run):
    from . import c08
    c08.rule_refspec_reads(run)


def rule_visit_stateless(run):
    from ..rules import roles as _r
    _r.run_memo_rule(run, "F-VISIT.memo")   # every traversal (driver check, sensitivity, definite assignment) sees the whole statement


RULES = [rule_roles, rule_usage, rule_local, rule_views, rule_writeback, rule_names, rule_buffers, rule_temporaries_local, rule_refspec, rule_visit_stateless]
LEVEL = "other"
EXPLANATION = (
    "The single-driver guarantee rests on hand-written access flags and one usage check; both are decided for all "
    "designs: (F-ROLE) the flag with which every IR class presents each field is derived and compared with the role "
    "the back end gives that field; (C07.b) the usage check rejects writes to inputs and second writers, keyed by "
    "root, over all contexts and instance outputs, with no unreviewed weakening condition; (C07.e) variables and "
    "intermediates cannot leave their context; (F-VIEW) slices/elements/views keep their root so they are attributed "
    "to the whole object. NOT decided: the converse on emitted text."
)
ASSUMPTIONS = [
    "the back-end assembler is the reference for which fields are driven (vhdl.Target) and read (vhdl.Value)",
    "user inline VHDL declares its written objects truthfully",
]
