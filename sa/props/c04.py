"""C04 - reset returns every context to its power-up behaviour from any state.

Decided (structure, for all designs):
  C04.a  shape of the std.sequential wrappers: the reset test is guarded by nothing (async) or by
         the clock edge only (sync); reset_context() then every on_reset action run under it; every
         step action lies in its else-subtree; sensitivity lists; on_reset is forwarded from every API
  C04.b  reset polarity
  C04.c  admission condition of the reset set and its expansion
  C04.d  the state signal's default is the id of the first state
  C04.e  locally constructed objects get no default; stored defaults are fresh copies; noreset
         qualifiers propagate into compound types
"""

from __future__ import annotations

import ast

from ..astutil import AnalysisError, dotted, src, walk_local, walk_ordered, calls_in
from .. import pattern as P

STDCTX = "cohdl/std/_context.py"
IRR = "cohdl/_core/_ir/_repr.py"
TQ = "cohdl/_core/_type_qualifier.py"
CU = "cohdl/std/_core_utility.py"
STEP_CALLS = ("cohdl.reset_pushed", "cohdl.coroutine_step", "fn")


def _contains(root, node):
    return any(n is node for n in ast.walk(root))


def _guards_of(fn_node, node, pm):
    """tests of the if-statements enclosing `node` inside fn (innermost last), with the arm it is in."""
    out = []
    cur = node
    for anc in pm.ancestors(node):
        if anc is fn_node:
            break
        if isinstance(anc, ast.If):
            arm = "body" if any(cur is b or _contains(b, cur) for b in anc.body) else "orelse"
            out.append((anc, arm))
        cur = anc
    return list(reversed(out))


def rule_wrappers(run):
    run.begin(
        "C04.a",
        "std.sequential reset wrappers: `if reset:` is guarded by nothing (async) / only by the clock edge (sync); its "
        "body calls cohdl.reset_context() first and then every on_reset action; all step actions lie in its else part; "
        "sensitivity lists contain the clock (and the reset when async); on_reset reaches the wrapper from every API",
        floor=14,
    )
    idx = run.idx
    sc = idx.mod(STDCTX)
    pm = sc.parents
    impl = sc.func("_sequential_impl")
    helper = sc.func("_sequential_impl.<locals>.helper")
    # which wrapper is selected by which condition
    sel = [s for s in helper.node.body if isinstance(s, ast.If)]
    chain = []
    node = sel[-1] if sel else None
    while isinstance(node, ast.If):
        chain.append((src(node.test), node.body))
        if len(node.orelse) == 1 and isinstance(node.orelse[0], ast.If):
            node = node.orelse[0]
        else:
            chain.append(("else", node.orelse))
            break
    tests = [c[0] for c in chain]
    if tests != ["reset is None", "reset.is_async()", "else"]:
        raise AnalysisError(f"wrapper selection of _sequential_impl.helper not recognised: {tests}")
    kinds = {"reset is None": "none", "reset.is_async()": "async", "else": "sync"}
    for test, body in chain:
        kind = kinds[test]
        ws = [s for s in body if isinstance(s, ast.FunctionDef) and s.name == "wrapper"]
        if len(ws) != 1:
            raise AnalysisError(f"wrapper of the {kind} branch not found")
        w = ws[0]
        name = f"_sequential_impl.wrapper[{kind}-reset]"
        # sensitivity
        sens = [c for c in calls_in(w) if dotted(c.func) == "cohdl.sensitivity.list"]
        args = [src(a) for a in sens[0].args] if sens else []
        exp = ["trigger.signal()", "reset.signal()"] if kind == "async" else ["trigger.signal()"]
        run.ob(args == exp, name, file=sc.rel, line=w.lineno, detail="sensitivity", expected=f"sensitivity.list({', '.join(exp)})", found=str(args))
        registered = any(dotted(c.func) == "cohdl.sequential_context" and any(isinstance(x, ast.Name) and x.id == "wrapper" for a in c.args for x in ast.walk(a)) for c in calls_in(body))
        run.ob(registered, name, file=sc.rel, line=w.lineno, detail="registered", expected="cohdl.sequential_context(.. wrapper ..)", found="ok" if registered else "not registered")
        steps = [c for c in ast.walk(w) if isinstance(c, ast.Call) and dotted(c.func) in STEP_CALLS]
        if kind == "none":
            # step guarded by trigger (and step_cond)
            for s in steps:
                g = [src(a.test) for a, arm in _guards_of(w, s, pm) if arm == "body"]
                ok = "trigger" in g
                run.ob(ok, name, file=sc.rel, line=s.lineno, detail=f"clocked:{dotted(s.func)}", expected="step only on the clock edge", found=str(g), sample=False)
            continue
        resets = [n for n in ast.walk(w) if isinstance(n, ast.If) and P.T(n.test) == "reset"]
        if len(resets) != 1:
            raise AnalysisError(f"{name}: the `if reset:` test was not found exactly once (unknown idiom)")
        r = resets[0]
        guards = [(src(a.test), arm) for a, arm in _guards_of(w, r, pm)]
        exp_guards = [] if kind == "async" else [("trigger", "body")]
        run.ob(guards == exp_guards, name, file=sc.rel, line=r.lineno, detail="reset-test-guards",
               expected=("no enclosing condition (asynchronous)" if kind == "async" else "only `if trigger:` (synchronous: active at the clock edge irrespective of step_cond)"),
               found=str(guards))
        # body of the reset arm
        body_calls = [dotted(c.func) for s in r.body for c in walk_ordered(s) if isinstance(c, ast.Call)]
        ok = bool(body_calls) and body_calls[0] == "cohdl.reset_context"
        run.ob(ok, name, file=sc.rel, line=r.lineno, detail="reset_context-first", expected="cohdl.reset_context() is the first action under reset", found=str(body_calls))
        loops = [l for l in r.body if isinstance(l, ast.For) and dotted(l.iter) == "on_reset"]
        ok = len(loops) == 1 and any(isinstance(c, ast.Call) and dotted(c.func) == (loops[0].target.id if isinstance(loops[0].target, ast.Name) else None) for c in ast.walk(loops[0]))
        run.ob(ok, name, file=sc.rel, line=r.lineno, detail="on_reset-actions", expected="for reset_fn in on_reset: reset_fn()", found="ok" if ok else "missing")
        # nothing else executes under reset: no step action in the body; every step action in the orelse subtree
        for s in steps:
            in_body = any(_contains(b, s) for b in r.body)
            in_else = any(_contains(b, s) for b in r.orelse)
            run.ob(in_else and not in_body, name, file=sc.rel, line=s.lineno, detail=f"exclusive:{dotted(s.func)}@{s.lineno - w.lineno}",
                   expected="step action lies in the else part of `if reset:`", found="else" if in_else else ("reset body" if in_body else "outside the reset test"))
        if kind == "async":
            # the clocked part is the elif
            ok = len(r.orelse) == 1 and isinstance(r.orelse[0], ast.If) and P.T(r.orelse[0].test) == "trigger"
            run.ob(ok, name, file=sc.rel, line=r.lineno, detail="elif-clock", expected="elif trigger:", found=src(r.orelse[0].test) if r.orelse and isinstance(r.orelse[0], ast.If) else "other")
    # on_reset normalisation and forwarding
    # a top-level `if on_reset is None: on_reset = [] elif not isinstance(on_reset, list): on_reset = [on_reset]`
    # that precedes the first nested definition (the wrappers close over the normalised list)
    ok = False
    for st in impl.node.body:
        if isinstance(st, (ast.FunctionDef, ast.AsyncFunctionDef)):
            break
        if isinstance(st, ast.If) and src(st.test) == "on_reset is None" and any(src(x) == "on_reset = []" for x in st.body):
            nxt = st.orelse[0] if len(st.orelse) == 1 and isinstance(st.orelse[0], ast.If) else None
            ok = nxt is not None and src(nxt.test) == "not isinstance(on_reset, list)" and any(src(x) == "on_reset = [on_reset]" for x in nxt.body)
    run.ob(ok, "_sequential_impl", file=sc.rel, line=impl.node.lineno, detail="on_reset-normalised", expected="None -> [], single callable -> [callable]", found="ok" if ok else "changed")
    call = sc.func("SequentialContext.__call__")
    fwd = [c for c in ast.walk(call.node) if isinstance(c, ast.Call) and dotted(c.func) == "_sequential_impl"]
    if len(fwd) != 1:
        raise AnalysisError("SequentialContext.__call__: forwarding call not found")
    kw = {k.arg: k.value for k in fwd[0].keywords}
    v = kw.get("on_reset")
    names = {dotted(x) for x in ast.walk(v)} if v is not None else set()
    # the context object whose stored on_reset is forwarded: self or a copy of self (whatever the local is called)
    ctx_names = {"self"} | {b["__c"] for _n, b in P.find(call.node, "__c = self.copy(___)")} | {b["__c"] for _n, b in P.find(call.node, "__c = self.copy()")}
    ok = v is not None and any(f"{c}._on_reset" in names for c in ctx_names) and "on_reset" in names
    run.ob(ok, "SequentialContext.__call__", file=sc.rel, line=fwd[0].lineno, detail="on_reset-forwarded",
           expected="both the constructor's and the call's on_reset reach _sequential_impl", found=src(v) if v is not None else "not passed")
    for k, field in (("reset", "_reset"), ("step_cond", "_step_cond")):
        got = src(fwd[0].args[1]) if k == "reset" and len(fwd[0].args) > 1 else src(kw.get(k)) if kw.get(k) is not None else None
        run.ob(got in {f"{c}.{field}" for c in ctx_names}, "SequentialContext.__call__", file=sc.rel, line=fwd[0].lineno, detail=f"{k}-forwarded", expected=f"cpy.{field}", found=str(got))
    init = sc.func("SequentialContext.__init__")
    ok = "self._on_reset = on_reset" in P.T(init.node) and "self._reset = reset" in P.T(init.node)
    run.ob(ok, "SequentialContext.__init__", file=sc.rel, line=init.node.lineno, detail="stores", expected="stores reset and on_reset", found="ok" if ok else "changed")
    cp = sc.func("SequentialContext.copy")
    kwc = {k.arg: src(k.value) for c in calls_in(cp.node) for k in c.keywords}
    ok = kwc.get("on_reset") == "self._on_reset" and kwc.get("reset") == "self._reset"
    run.ob(ok, "SequentialContext.copy", file=sc.rel, line=cp.node.lineno, detail="copies", expected="copy keeps reset and on_reset", found=str({k: kwc.get(k) for k in ("reset", "on_reset")}))
    seq = sc.func("sequential")
    for c in calls_in(seq.node):
        if dotted(c.func) in ("SequentialContext", "_sequential_impl"):
            kwc = {k.arg: src(k.value) for k in c.keywords}
            ok = kwc.get("on_reset") == "on_reset" and kwc.get("reset") == "reset"
            run.ob(ok, "sequential", file=sc.rel, line=c.lineno, detail=f"forwards->{dotted(c.func)}", expected="reset=reset, on_reset=on_reset", found=str({k: kwc.get(k) for k in ("reset", "on_reset")}))
    run.end()


def rule_polarity(run):
    run.begin("C04.b", "Reset.__bool__ negates the signal exactly when the reset is active low; accessors are consistent", floor=3)
    sc = run.idx.mod(STDCTX)
    f = sc.func("Reset.__bool__")
    iff = [s for s in f.node.body if isinstance(s, ast.If)]
    if not iff:
        raise AnalysisError("Reset.__bool__: polarity test not found")
    s = iff[0]
    t = P.T(s.test)
    rb = [r for r in s.body if isinstance(r, ast.Return)]
    ro = [r for r in s.orelse if isinstance(r, ast.Return)]
    if t == "self._active_low":
        low, high = rb, ro
    elif t == "not self._active_low":
        low, high = ro, rb
    else:
        raise AnalysisError(f"Reset.__bool__: unrecognised polarity test {t}")
    low_neg = bool(low) and isinstance(low[0].value, ast.UnaryOp) and isinstance(low[0].value.op, ast.Not) and dotted(low[0].value.operand) == "self._signal"
    high_pos = bool(high) and src(high[0].value) in ("bool(self._signal)", "self._signal")
    run.ob(low_neg, "Reset.__bool__", file=sc.rel, line=s.lineno, detail="active-low", expected="not self._signal", found=src(low[0].value) if low else "?")
    run.ob(high_pos, "Reset.__bool__", file=sc.rel, line=s.lineno, detail="active-high", expected="bool(self._signal)", found=src(high[0].value) if high else "?")
    init = sc.func("Reset.__init__")
    ok = "self._active_low = active_low" in P.T(init.node) and "self._is_async = is_async" in P.T(init.node) and "self._signal = signal" in P.T(init.node)
    run.ob(ok, "Reset.__init__", file=sc.rel, line=init.node.lineno, detail="stores", expected="fields store their parameters", found="ok" if ok else "changed")
    ia = sc.func("Reset.is_async")
    ok = P.T(ia.node.body[-1]) == "return self._is_async"
    run.ob(ok, "Reset.is_async", file=sc.rel, line=ia.node.lineno, detail="accessor", expected="return self._is_async", found=src(ia.node.body[-1]))
    run.end()


def rule_reset_set(run):
    run.begin(
        "C04.c",
        "reset set: a root is resettable iff it is written OR pushed in the context, has a default and is not noreset; "
        "reset_context expands over exactly that set with default(), signal vs variable assignment by object kind",
        floor=5,
    )
    rp = run.idx.mod(IRR)
    v = rp.func("Sequential._pushed_resettable_signals.<locals>.visit_objects")
    vs0 = rp.func("Sequential._pushed_resettable_signals.<locals>.visit_statements")
    reset_set = None
    for st in walk_local(vs0.node):
        if isinstance(st, ast.If) and "_ResetContext" in src(st.test):
            for c in ast.walk(ast.Module(body=st.body, type_ignores=[])):
                if isinstance(c, ast.ListComp) and isinstance(c.generators[0].iter, ast.Name):
                    reset_set = c.generators[0].iter.id
    if reset_set is None:
        raise AnalysisError("anchor vanished: set iterated by the _ResetContext expansion")
    top = [s for s in v.node.body if isinstance(s, ast.If)]
    adm = None
    for s in top:
        t = P.T(s.test).replace(" ", "")
        if t in ("access&(AccessFlags.PUSH|AccessFlags.WRITE)", "access&(AccessFlags.WRITE|AccessFlags.PUSH)"):
            adm = s
    run.ob(adm is not None, "Sequential._pushed_resettable_signals", file=rp.rel, line=v.node.lineno, detail="admission-flags",
           expected="independent top-level `if access & (PUSH | WRITE):` (not an elif of the PUSH test)",
           found="ok" if adm is not None else "; ".join(src(s.test) for s in ast.walk(v.node) if isinstance(s, ast.If)))
    if adm is not None:
        inner = [s for s in adm.body if isinstance(s, ast.If)]
        t = P.T(inner[0].test) if inner else ""
        ok = bool(inner) and t in ("root.has_default() and (not root._noreset)", "root.has_default() and not root._noreset", "not root._noreset and root.has_default()")
        run.ob(ok, "Sequential._pushed_resettable_signals", file=rp.rel, line=adm.lineno, detail="admission-condition", expected="has_default() and not _noreset", found=t)
        # the admitted object is obj._root (directly or through a local), added to the set the reset expansion iterates
        ok = False
        for _n, b in P.find(adm, "__set.add(__r)"):
            if b["__set"] == reset_set and P.has(adm, "__r = obj._root", {"__r": b["__r"]}):
                ok = True
        ok = ok or P.has(adm, "__set.add(obj._root)", {"__set": reset_set})
        run.ob(ok, "Sequential._pushed_resettable_signals", file=rp.rel, line=adm.lineno, detail="keyed-by-root", expected="resettable.add(obj._root)", found="ok" if ok else "changed")
    vs = rp.func("Sequential._pushed_resettable_signals.<locals>.visit_statements")
    br = [s for s in walk_local(vs.node) if isinstance(s, ast.If) and "_ResetContext" in P.T(s.test)]
    if not br:
        raise AnalysisError("anchor vanished: _ResetContext expansion")
    comp = [c for c in ast.walk(br[0]) if isinstance(c, ast.ListComp) and any(_contains(b, c) for b in br[0].body)]
    ok = bool(comp) and dotted(comp[0].generators[0].iter) == reset_set and not comp[0].generators[0].ifs
    run.ob(ok, "Sequential._pushed_resettable_signals", file=rp.rel, line=br[0].lineno, detail="expansion-set", expected="one assignment for every r in resettable", found="ok" if ok else "changed")
    if comp:
        e = comp[0].elt
        var = comp[0].generators[0].target.id
        ok = isinstance(e, ast.IfExp) and P.T(e.test) == f"isinstance({var}, Signal)" and src(e.body).startswith(f"SignalAssignment({var}, {var}.default()") and src(e.orelse).startswith(f"VariableAssignment({var}, {var}.default()")
        run.ob(ok, "Sequential._pushed_resettable_signals", file=rp.rel, line=e.lineno, detail="expansion-kind",
               expected="SignalAssignment(r, r.default()) if Signal else VariableAssignment(r, r.default())", found=src(e)[:110])
    seq = rp.func("Sequential.__init__")
    order = [c.func.attr for c in walk_ordered(seq.node) if isinstance(c, ast.Call) and isinstance(c.func, ast.Attribute) and c.func.attr in ("_pushed_resettable_signals", "visit")]
    ok = "_pushed_resettable_signals" in order and order.index("_pushed_resettable_signals") > 0
    run.ob(ok, "Sequential.__init__", file=rp.rel, line=seq.node.lineno, detail="after-lowering", expected="state machines are lowered before the reset set is collected (state signal is part of it)", found=str(order))
    run.end()


def rule_first_state(run):
    run.begin("C04.d", "a coroutine returns to its first state: the default of the state signal is the id assigned to states[0], which is the context's first state", floor=3)
    rp = run.idx.mod(IRR)
    f = rp.func("Statemachine.__init__")
    sig = [a for a in walk_local(f.node) if isinstance(a, ast.Assign) and dotted(a.targets[0]) == "self._current_state"]
    if not sig:
        raise AnalysisError("state signal construction not found")
    dflt = sig[0].value.args[0] if isinstance(sig[0].value, ast.Call) and sig[0].value.args else None
    loops = [l for l in f.node.body if isinstance(l, ast.For) and "enumerate(states" in P.T(l.iter)]
    if not loops or dflt is None:
        raise AnalysisError("state id assignment not recognised")
    start = 0
    it = loops[0].iter
    for k in it.keywords:
        if k.arg == "start" and isinstance(k.value, ast.Constant):
            start = k.value.value
    if len(it.args) > 1 and isinstance(it.args[1], ast.Constant):
        start = it.args[1].value
    nr = loops[0].target.elts[0].id
    assign = [a for a in loops[0].body if isinstance(a, ast.Assign) and "_state_id" in P.T(a.targets[0])]
    val = assign[0].value if assign else None
    # evaluate `self._state_type(nr + k)` at nr = start
    first_id = None
    if isinstance(val, ast.Call) and dotted(val.func) == "self._state_type":
        a = val.args[0]
        if isinstance(a, ast.BinOp) and isinstance(a.op, ast.Add) and dotted(a.left) == nr and isinstance(a.right, ast.Constant):
            first_id = start + a.right.value
        elif dotted(a) == nr:
            first_id = start
    d = dflt.args[0].value if isinstance(dflt, ast.Call) and dotted(dflt.func) == "self._state_type" and isinstance(dflt.args[0], ast.Constant) else None
    run.ob(first_id is not None and first_id == d, "Statemachine.__init__", file=rp.rel, line=sig[0].lineno, detail="default-is-first-state",
           expected="default state id == id of states[0]", found=f"default {d}, states[0] gets {first_id}")
    ci = rp.func("StatemachineContext.__init__")
    ok = "self._states: list[_State] = [self._first]" in P.T(ci.node) or "self._states = [self._first]" in P.T(ci.node)
    run.ob(ok, "StatemachineContext.__init__", file=rp.rel, line=ci.node.lineno, detail="first-is-states[0]", expected="_states starts with _first", found="ok" if ok else "changed")
    fs = rp.func("StatemachineContext.first_state")
    ok = src(fs.node.body[-1]) in ("return self._first", "return self._states[0]")
    run.ob(ok, "StatemachineContext.first_state", file=rp.rel, line=fs.node.lineno, detail="returns-first", expected="return self._first", found=src(fs.node.body[-1]))
    # the state signal takes part in the reset: it is written by transitions (SignalAssignment in as_case_when)
    acw = rp.func("Statemachine.as_case_when")
    ok = "SignalAssignment" in P.T(acw.node) and "_current_state" in P.T(acw.node)
    run.ob(ok, "Statemachine.as_case_when", file=rp.rel, line=acw.node.lineno, detail="state-signal-written", expected="transitions assign the state signal (so it is in the reset set)", found="ok" if ok else "changed")
    run.end()


def rule_defaults(run):
    run.begin(
        "C04.e",
        "defaults: locally constructed objects are initialised with value None (no default); every stored default is "
        "None or a fresh copy; Temporary never has a default; noreset propagates into compound types",
        floor=6,
    )
    tq = run.idx.mod(TQ)
    for owner in ("TypeQualifier", "Signal"):
        r = tq.func(f"{owner}._init_replacement")
        calls = [c for c in calls_in(r.node) if dotted(c.func) == "self.__init__"]
        ok = len(calls) == 1 and calls[0].args and isinstance(calls[0].args[0], ast.Constant) and calls[0].args[0].value is None
        run.ob(ok, f"{owner}._init_replacement", file=tq.rel, line=r.node.lineno, detail="no-default", expected="self.__init__(None, ...)", found=src(calls[0])[:60] if calls else "missing")
    init = tq.func("TypeQualifier.__init__")
    leaves = []

    def collect(v):
        if isinstance(v, ast.IfExp):
            collect(v.body)
            collect(v.orelse)
        else:
            leaves.append(v)
    stores = [a for a in walk_local(init.node) if isinstance(a, ast.Assign) and any(dotted(t) == "self._default" for t in a.targets)]
    if not stores:
        raise AnalysisError("assignment of self._default not found")
    for a in stores:
        collect(a.value)
    for i, v in enumerate(leaves):
        ok = (isinstance(v, ast.Constant) and v.value is None) or (isinstance(v, ast.Call) and P.T(v.func) == "type(self)._Wrapped")
        run.ob(ok, "TypeQualifier.__init__", file=tq.rel, line=v.lineno, detail=f"default-leaf#{i}",
               expected="None or a fresh object type(self)._Wrapped(value)", found=src(v))
    t = P.T(init.node)
    ok = "isinstance(self, Temporary)" in "".join(src(a) for a in stores) or any("isinstance(self, Temporary)" in P.T(x.test) for x in walk_local(init.node) if isinstance(x, ast.If) and any(_contains(x, a) for a in stores))
    run.ob(ok, "TypeQualifier.__init__", file=tq.rel, line=stores[0].lineno, detail="temporary-no-default", expected="Temporary objects never get a default", found="ok" if ok else "condition removed")
    ok = "self._noreset = noreset" in t
    run.ob(ok, "TypeQualifier.__init__", file=tq.rel, line=init.node.lineno, detail="noreset-stored", expected="self._noreset = noreset", found="ok" if ok else "changed")
    for name, body in (("has_default", "return self._default is not None"), ("default", "return self._default")):
        f = tq.func(f"TypeQualifier.{name}")
        run.ob(src(f.node.body[-1]) == body, f"TypeQualifier.{name}", file=tq.rel, line=f.node.lineno, detail="accessor", expected=body, found=src(f.node.body[-1]))
    cu = run.idx.mod(CU)
    nc = cu.func("_Noreset.__call__")
    rets = [r for r in walk_local(nc.node) if isinstance(r, ast.Return) and isinstance(r.value, ast.Call)]
    prim = [r for r in rets if any(k.arg == "noreset" for k in r.value.keywords)]
    comp = [r for r in rets if any(k.arg == "_qualifier_" for k in r.value.keywords)]
    ok = len(prim) == 1 and P.T([k.value for k in prim[0].value.keywords if k.arg == "noreset"][0]) == "True"
    run.ob(ok, "_Noreset.__call__", file=cu.rel, line=nc.node.lineno, detail="primitive", expected="noreset=True", found=src(prim[0].value)[:70] if prim else "missing")
    q = src([k.value for k in comp[0].value.keywords if k.arg == "_qualifier_"][0]) if comp else None
    ok = q in ("type(self)()", "self", "self.__class__()", "type(self)(None)")
    run.ob(ok, "_Noreset.__call__", file=cu.rel, line=nc.node.lineno, detail="compound", expected="_qualifier_ is a noreset qualifier (type(self)())", found=str(q))
    run.end()


def _polarity_helper(f, want_low: bool):
    """Reset.active_low_signal / active_high_signal evaluated on the two-point domain _active_low in {True, False}:
    -> {active_low: 'same' | 'inverted' | None}"""
    res = {}
    top = [s for s in f.node.body if isinstance(s, ast.If)]
    if len(top) != 1:
        return None
    t = src(top[0].test)
    if t == "self._active_low":
        arms = {True: top[0].body, False: top[0].orelse}
    elif t == "not self._active_low":
        arms = {False: top[0].body, True: top[0].orelse}
    else:
        return None
    for al, body in arms.items():
        kinds = set()
        for r in ast.walk(ast.Module(body=body, type_ignores=[])):
            if isinstance(r, ast.Return) and r.value is not None:
                v = r.value
                if dotted(v) == "self._signal":
                    kinds.add("same")
                elif isinstance(v, ast.UnaryOp) and isinstance(v.op, ast.Invert) and dotted(v.operand) == "self._signal":
                    kinds.add("inverted")
                elif isinstance(v, ast.Name):
                    # a helper signal driven by `x.next = ~self._signal` / `x <<= ~self._signal`
                    drv = [a for a in ast.walk(ast.Module(body=body, type_ignores=[])) if isinstance(a, (ast.Assign, ast.AugAssign)) and v.id in src(a.targets[0] if isinstance(a, ast.Assign) else a.target)
                           and isinstance(a.value, ast.UnaryOp) and isinstance(a.value.op, ast.Invert) and dotted(a.value.operand) == "self._signal"]
                    kinds.add("inverted" if drv else "other")
                else:
                    kinds.add("other")
        res[al] = next(iter(kinds)) if len(kinds) == 1 else None
    return res


def rule_combined(run):
    run.begin(
        "C04.f",
        "derived resets: or_reset asserts the new reset iff the parent reset OR the extra condition is asserted, and_reset "
        "iff both are, for both polarities (truth table over parent x extra x polarity); the polarity helpers invert the "
        "signal exactly when the stored polarity differs from the requested one; the new Reset carries the same polarity",
        floor=20,
    )
    sc = run.idx.mod(STDCTX)
    for name, want_low in (("Reset.active_low_signal", True), ("Reset.active_high_signal", False)):
        f = sc.func(name)
        got = _polarity_helper(f, want_low)
        if got is None:
            raise AnalysisError(f"{name}: polarity split not recognised")
        for al in (True, False):
            exp = "same" if al == want_low else "inverted"
            run.ob(got.get(al) == exp, name, file=sc.rel, line=f.node.lineno, detail=f"stored_active_low={al}", expected=exp, found=str(got.get(al)))
    for fn, combine in (("or_reset", lambda p, e: p or e), ("and_reset", lambda p, e: p and e)):
        f = sc.func(f"SequentialContext.{fn}")
        def _is_split(x):
            return isinstance(x, ast.If) and x.orelse and all(any("active_low_signal()" in src(a) or "active_high_signal()" in src(a) for a in ast.walk(ast.Module(body=arm, type_ignores=[])) if isinstance(a, ast.AugAssign)) for arm in (x.body, x.orelse))
        logics = [g for g in ast.walk(f.node) if isinstance(g, ast.FunctionDef) and g is not f.node and any(_is_split(x) for x in g.body)]
        if len(logics) != 1:
            raise AnalysisError(f"{fn}: combining logic with the polarity split not found")
        split = [x for x in logics[0].body if _is_split(x)][0]
        # the level logic is chosen by the polarity the NEW reset is declared with (Reset(.., active_low=active_low) below)
        run.ob(src(split.test) == "active_low", f"SequentialContext.{fn}", file=sc.rel, line=split.lineno, detail="split-on-requested-polarity", expected="if active_low:  (the polarity of the derived reset)",
               found=src(split.test)[:60])
        for al, body in ((True, split.body), (False, split.orelse)):
            asg = [a for a in body if isinstance(a, ast.AugAssign) and isinstance(a.op, ast.LShift)]
            if len(asg) != 1 or not isinstance(asg[0].value, ast.BoolOp) or len(asg[0].value.values) != 2:
                raise AnalysisError(f"{fn}: combining assignment of the active_low={al} branch not recognised")
            v = asg[0].value
            ops = [src(x) for x in v.values]
            helper = "self._reset.active_low_signal()" if al else "self._reset.active_high_signal()"
            run.ob(helper in ops and "expr()" in ops, f"SequentialContext.{fn}", file=sc.rel, line=asg[0].lineno, detail=f"operands[active_low={al}]",
                   expected=f"{helper} combined with expr()", found=str(ops))
            bop = (lambda a, b: a and b) if isinstance(v.op, ast.And) else (lambda a, b: a or b)
            for p_asserted in (False, True):
                for e_asserted in (False, True):
                    # level of a signal that is (not) asserted under polarity al
                    lvl = lambda asserted: (not asserted) if al else asserted
                    combined_level = bool(bop(lvl(p_asserted), lvl(e_asserted)))
                    combined_asserted = (not combined_level) if al else combined_level
                    exp = bool(combine(p_asserted, e_asserted))
                    run.ob(combined_asserted == exp, f"SequentialContext.{fn}", file=sc.rel, line=asg[0].lineno,
                           detail=f"active_low={al},parent={'asserted' if p_asserted else 'idle'},extra={'asserted' if e_asserted else 'idle'}",
                           expected="asserted" if exp else "idle", found="asserted" if combined_asserted else "idle", sample=False)
        ctor = [c for c in calls_in(f.node) if dotted(c.func) == "Reset"]
        kw = {k.arg: src(k.value) for c in ctor for k in c.keywords}
        ok = len(ctor) == 1 and kw.get("active_low") == "active_low" and kw.get("is_async") == "is_async"
        run.ob(ok, f"SequentialContext.{fn}", file=sc.rel, line=f.node.lineno, detail="same-polarity", expected="Reset(combined, active_low=active_low, is_async=is_async)", found=str(kw))
    run.end()


def rule_instance_defaults(run):
    run.begin(
        "C04.g",
        "only signals DRIVEN by a sub-entity lose their default (so they keep no second driver): the default of a parent "
        "signal connected to an input or inout port of an instance is kept, it is still reset by its own context",
        floor=2,
    )
    ctx = run.idx.mod("cohdl/_core/_context.py")
    init = ctx.func("Entity.__init__")
    sets = [a for a in ast.walk(init.node) if isinstance(a, ast.Assign) and isinstance(a.targets[0], ast.Attribute) and a.targets[0].attr == "_default" and isinstance(a.value, ast.Constant) and a.value.value is None]
    if len(sets) != 1:
        raise AnalysisError("Entity.__init__: removal of the connected actual's default not found")
    st = sets[0]
    # conditions on the path: the port must be an OUTPUT (is_output() true)
    conds = []
    cur = st
    for anc in ctx.parents.ancestors(st):
        if isinstance(anc, ast.If):
            arm = "body" if any(cur is b or any(x is cur for x in ast.walk(b)) for b in anc.body) else "orelse"
            conds.append((src(anc.test), arm))
        if anc is init.node:
            break
        cur = anc
    is_out = any((t.endswith(".is_output()") and not t.startswith("not ") and arm == "body") or (t.startswith("not ") and t.endswith(".is_output()") and arm == "orelse") for t, arm in conds)
    run.ob(is_out, "Entity.__init__", file=ctx.rel, line=st.lineno, detail="outputs-only", expected="default removed only under port.is_output()", found=str(conds))
    # direction predicates are mutually exclusive single comparisons
    tq = run.idx.mod(TQ)
    for pred, member in (("is_input", "INPUT"), ("is_output", "OUTPUT"), ("is_inout", "INOUT")):
        fs = [g for q, g in tq.functions.items() if q.endswith(f"Direction.{pred}")]
        if not fs:
            continue
        r = fs[0].node.body[-1]
        ok = isinstance(r, ast.Return) and src(r.value).replace("==", "is") in (f"self is Port.Direction.{member}", f"self is Direction.{member}", f"self is self.{member}", f"self is type(self).{member}")
        run.ob(ok, f"Port.Direction.{pred}", file=tq.rel, line=fs[0].node.lineno, detail="predicate", expected=f"self is Direction.{member}", found=src(r))
    run.end()


def rule_optional_overrides(run):
    run.begin(
        "C04.h",
        "optional reset / step_cond / on_reset / clock arguments are recognised by `is None`, never by their truth value: "
        "a std.Reset is falsy whenever its signal is low at elaboration, so `reset or self._reset` silently drops an "
        "active-high reset; the sensitivity list of a wrapper keeps every signal it is given",
        floor=5,
    )
    sc = run.idx.mod(STDCTX)
    NAMES = {"reset", "step_cond", "on_reset", "clk", "clock", "trigger"}
    n = 0
    for q, f in sc.functions.items():
        params = {a.arg for a in f.node.args.args + f.node.args.kwonlyargs} & NAMES
        if not params:
            continue
        for x in walk_local(f.node):
            operands = []
            if isinstance(x, ast.BoolOp):
                operands = x.values
            elif isinstance(x, (ast.If, ast.IfExp, ast.While)):
                operands = [x.test]
            elif isinstance(x, ast.UnaryOp) and isinstance(x.op, ast.Not):
                operands = [x.operand]
            for o in operands:
                if isinstance(o, ast.Name) and o.id in params:
                    # `if reset:` inside a traced wrapper is the hardware reset test itself (C04.a), not an override test
                    inner = sc.parents.enclosing_function(x)
                    if inner is not None and inner.name == "wrapper":
                        continue
                    n += 1
                    run.ob(False, q, file=sc.rel, line=x.lineno, detail=f"truthiness-of-{o.id}", expected=f"`{o.id} is None` / `{o.id} is not None`", found=src(x)[:70])
    # positive side: the override selections that exist use identity tests
    sel = 0
    for q, f in sc.functions.items():
        for x in walk_local(f.node):
            if isinstance(x, ast.IfExp) and isinstance(x.test, ast.Compare) and isinstance(x.test.ops[0], (ast.Is, ast.IsNot)) and isinstance(x.test.left, ast.Name) and x.test.left.id in NAMES:
                sel += 1
                # `k=self._k if k is None else k`: the tested name, the override value and the keyword are the same name
                par = sc.parents.of(x)
                kw = par.arg if isinstance(par, ast.keyword) else None
                tested = x.test.left.id
                is_none = isinstance(x.test.ops[0], ast.Is)
                override = x.orelse if is_none else x.body
                stored = x.body if is_none else x.orelse
                ok = dotted(override) == tested and (kw is None or kw == tested) and (dotted(stored) or "").split(".")[-1].lstrip("_") == tested
                run.ob(ok, q, file=sc.rel, line=x.lineno, detail=f"override-{tested}@{x.lineno - f.node.lineno}", expected=f"{kw or tested}=<stored {tested}> if {tested} is None else {tested}", found=src(x)[:80], sample=False)
    # sensitivity list construction keeps all arguments
    im = run.idx.mod("cohdl/_core/_intrinsic.py")
    f = im.func("sensitifity_list_replacement") if im.has_func("sensitifity_list_replacement") else None
    if f is None:
        cands = [g for q, g in im.functions.items() if any(dotted(c.func) == "_SensitivityList" for c in calls_in(g.node))]
        if len(cands) != 1:
            raise AnalysisError("replacement of cohdl.sensitivity.list not found")
        f = cands[0]
    va = f.node.args.vararg.arg if f.node.args.vararg else None
    ok = va is not None and P.has(f.node, f"return _SensitivityList([*{va}])") or (va is not None and P.has(f.node, f"return _SensitivityList(list({va}))"))
    filt = [x for x in walk_local(f.node) if isinstance(x, ast.Compare) and any(isinstance(o, (ast.In, ast.NotIn, ast.Eq, ast.NotEq)) for o in x.ops)]
    run.ob(ok and not filt, "sensitivity.list", file=im.rel, line=f.node.lineno, detail="keeps-all-signals",
           expected="_SensitivityList([*args]) - no filtering (== on signals compares their VALUES, so `in` treats clock and reset as duplicates)",
           found="ok" if ok and not filt else "; ".join(src(x) for x in filt) or src(f.node.body[-1])[:60])
    run.end()


def rule_reset_after_lowering(run):
    from . import c01
    c01.rule_reset_after_lowering(run)   # the state signal is in the reset set: reset restarts the coroutine from any state


RULES = [rule_wrappers, rule_polarity, rule_reset_set, rule_first_state, rule_defaults, rule_combined, rule_instance_defaults, rule_optional_overrides, rule_reset_after_lowering]
LEVEL = "other"
EXPLANATION = (
    "Shape analysis of everything the reset behaviour of every design is built from: the std.sequential wrappers "
    "(position of the reset test relative to clock edge and step condition, reset_context + on_reset actions under "
    "it, mutual exclusion with all step actions, sensitivity lists, forwarding of reset/on_reset through every API), "
    "reset polarity, the admission condition and expansion of the reset set, the first-state id of coroutines, and "
    "the default/noreset bookkeeping of qualified objects. NOT decided: that nothing else executes under reset for "
    "arbitrary user bodies, post-reset equivalence to power-up for a concrete design."
)
ASSUMPTIONS = [
    "IR access flags are right (checked under C07), so the reset set sees every written/pushed root",
    "the emitted if/elif of the wrapper is executed as VHDL if/elsif (first matching branch only)",
]
