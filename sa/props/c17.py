"""C17 - serialisation round-trips with the documented bit layout.

Decided by abstract interpretation (sa/absint.py) of the serialisers' own source over symbolic bits:
  C17.core    std.to_bits / std.from_bits / std.count_bits for Bit, BitVector/Unsigned/Signed, bool and cohdl.Array:
              from_bits[T](to_bits(x)) == x bit for bit, to_bits(from_bits[T](b)) == b, width == count_bits(T), element 0
              in the least significant bits, vectors of any other width are rejected
  C17.record  Record: slice map and writer agree (first field in the least significant bits, consecutive, total =
              count_bits); the lazily computed layout is per class (not inherited from a serialised base class)
  C17.array   std.Array: writer/reader agree, element 0 in the least significant bits
  C17.bitfield  nested BitField placed with slice notation starts at the slice's lower bound
  C17.adapters Enum / SFixed / UFixed / Serialized delegate to the serialisation of their underlying vector
  C17.template templated records collect annotations base class first
"""

from __future__ import annotations

import ast
import itertools

from ..astutil import AnalysisError, dotted, src, walk_local, calls_in
from .. import pattern as P
from ..absint import Interp, BV, Bit, Opaque, TypeTok, Reject, Closure, Env
from ..rules import shape
from . import c18

CU = "cohdl/std/_core_utility.py"
REC = "cohdl/std/_record.py"
UT = "cohdl/std/utility.py"
BF = "cohdl/std/bitfield.py"
EN = "cohdl/std/enum.py"
FX = "cohdl/std/_fixed.py"
TP = "cohdl/std/_template.py"


class ArrayType(TypeTok):
    """cohdl.Array[T, n] as a type object"""

    def __init__(self, elem, count):
        super().__init__("Array", _elemtype_=elem, _count_=count)


class ClassModel:
    """a class object with an own __dict__ and attribute lookup through its bases"""

    def __init__(self, name, bases=(), own=None):
        object.__setattr__(self, "_name", name)
        object.__setattr__(self, "_bases", tuple(bases))
        object.__setattr__(self, "_own", dict(own or {}))

    def lookup(self, attr):
        if attr in self._own:
            return True, self._own[attr]
        for b in self._bases:
            ok, v = b.lookup(attr)
            if ok:
                return True, v
        return False, None

    def __repr__(self):
        return f"<class {self._name}>"


def core_prims(idx):
    p = c18.prims()
    cu = idx.mod(CU)

    def call_cu(name):
        def f(*a, **k):
            return Interp(cu, p).call_function(name, *a, **k)
        return f

    class FromBits:
        def __init__(self, t=None):
            self.t = t

        def __getitem__(self, t):
            return FromBits(t)

        def __call__(self, bits, qualifier=None):
            q = qualifier if qualifier is not None else p["Value"]
            return Interp(cu, p).call_function("_FromBits.__call__", {"_target_type": self.t}, bits, q)

    def getattr_(base, attr):
        if isinstance(base, ClassModel):
            if attr == "__dict__":
                return base._own
            ok, v = base.lookup(attr)
            if ok:
                return v
            raise Reject(f"{base} has no attribute {attr}")
        if isinstance(base, dict) and attr in base:
            return base[attr]
        if type(base).__name__ == "_RecInst":
            if attr == "__dict__":
                return vars(base)
            if not attr.startswith("__") and hasattr(base, attr):
                return getattr(base, attr)
            raise Reject(f"record instance has no attribute {attr}")
        raise AnalysisError(f"absint: attribute {attr} of {base!r}")

    def setattr_(base, attr, value):
        if isinstance(base, ClassModel):
            base._own[attr] = value
        else:
            raise AnalysisError(f"absint: attribute store on {base!r}")

    def hasattr_(base, attr):
        if isinstance(base, ClassModel):
            return base.lookup(attr)[0]
        if isinstance(base, TypeTok):
            return attr in base.params
        if isinstance(base, dict):
            return attr in base
        return False

    p.update({
        "from_bits": FromBits(), "to_bits": call_cu("to_bits"), "count_bits": call_cu("count_bits"), "concat": call_cu("concat"),
        "hasattr": hasattr_, "getattr": lambda o, a, *d: getattr_(o, a),
        "__getattr__": getattr_,
        "__setattr__": setattr_,
        "slice": slice,
        "SerializationFail": lambda *a: None,
    })
    orig_sub = p["subclass_check"]

    def issub(t, k):
        if isinstance(t, ArrayType):
            ks = k if isinstance(k, tuple) else (k,)
            return any(getattr(c, "name", None) in ("CohdlArray", "Array") for c in ks)
        return orig_sub(t, k)
    p["subclass_check"] = issub
    p["issubclass"] = issub
    orig_q = p["Value"]

    class Q(type(orig_q)):
        def __getitem__(self, t):
            if isinstance(t, ArrayType):
                return lambda x=None, *a, **k: list(x)
            if isinstance(t, TypeTok) and t.name in ("bool", "CohdlBool"):
                return lambda x=None, *a, **k: x
            return super().__getitem__(t)
    q = Q()
    for k in ("Value", "Ref"):
        p[k] = q
    return p


def _types_and_values():
    """(type token, symbolic value, flat expected LSB-first bits, description)"""
    Bit_t = c18._BitType()
    out = []
    out.append((Bit_t, BV([Bit("b")], "Bit"), [Bit("b")], "Bit"))
    for kind in ("BitVector", "Unsigned", "Signed"):
        for w in (1, 2, 3):
            t = c18._VecCtor(kind, width=w)
            v = BV.sym("v", w, kind)
            out.append((t, v, list(v.bits), f"{kind}[{w}]"))
    for w, n in itertools.product((1, 2, 3), (1, 2, 3)):
        et = c18._VecCtor("BitVector", width=w)
        elems = [BV.sym(f"e{i}", w) for i in range(n)]
        flat = [b for e in elems for b in e.bits]
        out.append((ArrayType(et, n), elems, flat, f"Array[BitVector[{w}], {n}]"))
    for n in (1, 3):
        elems = [BV([Bit(f"e{i}")], "Bit") for i in range(n)]
        out.append((ArrayType(Bit_t, n), elems, [e.bits[0] for e in elems], f"Array[Bit, {n}]"))
    return out


def rule_core(run):
    run.begin(
        "C17.core",
        "std.to_bits / from_bits / count_bits on symbolic values: width(to_bits(x)) == count_bits(T); element/field 0 in the "
        "least significant bits; from_bits[T](to_bits(x)) == x and to_bits(from_bits[T](b)) == b bit for bit; every other "
        "width is rejected",
        floor=60,
    )
    idx = run.idx
    cu = idx.mod(CU)
    p = core_prims(idx)
    line = cu.func("to_bits").node.lineno
    for t, v, flat, desc in _types_and_values():
        try:
            bits = p["to_bits"](v)
            n = p["count_bits"](t)
        except Reject as r:
            run.ob(False, "to_bits", file=cu.rel, line=line, detail=desc, expected="serialised", found=f"rejected: {r}")
            continue
        ok = isinstance(bits, BV) and bits.width == n == len(flat)
        run.ob(ok, "count_bits", file=cu.rel, line=cu.func("count_bits").node.lineno, detail=desc, expected=f"{len(flat)} bits", found=f"to_bits: {getattr(bits, 'width', '?')}, count_bits: {n}", sample=False)
        ok = isinstance(bits, BV) and list(bits.bits) == flat
        run.ob(ok, "to_bits", file=cu.rel, line=line, detail=desc + ".layout", expected="first element in the least significant bits: <" + " ".join(map(repr, reversed(flat))) + ">", found=repr(bits)[:120], sample=desc.startswith("Array[BitVector[2], 2"))
        # round trip value -> bits -> value
        try:
            back = p["from_bits"][t](bits)
            same = (back == v) if not isinstance(v, list) else (isinstance(back, list) and [list(b.bits) for b in back] == [list(e.bits) for e in v])
            found = repr(back)[:120]
        except Reject as r:
            same, found = False, f"rejected: {r}"
        run.ob(same, "from_bits", file=cu.rel, line=cu.func("_FromBits.__call__").node.lineno, detail=desc + ".roundtrip", expected="from_bits[T](to_bits(x)) == x", found=found, sample=False)
        # round trip bits -> value -> bits for an arbitrary pattern
        raw = BV.sym("r", len(flat))
        try:
            again = p["to_bits"](p["from_bits"][t](raw))
            ok = isinstance(again, BV) and again.bits == raw.bits
            found = repr(again)[:120]
        except Reject as r:
            ok, found = False, f"rejected: {r}"
        run.ob(ok, "from_bits", file=cu.rel, line=cu.func("_FromBits.__call__").node.lineno, detail=desc + ".bits-roundtrip", expected="to_bits(from_bits[T](b)) == b", found=found, sample=False)
        # wrong widths are rejected
        for dw in (-2, -1, 1, 2, 3):
            w = len(flat) + dw
            if w <= 0:
                continue
            try:
                res = p["from_bits"][t](BV.sym("r", w))
                rej = False
            except Reject:
                rej = True
            run.ob(rej, "from_bits", file=cu.rel, line=cu.func("_FromBits.__call__").node.lineno, detail=f"{desc}.width{dw:+d}", expected="rejected (width != count_bits(T))", found="rejected" if rej else f"accepted a {w}-bit vector for a {len(flat)}-bit type", sample=False)
    # bool
    for val, exp in ((True, "1"), (False, "0")):
        bits = p["to_bits"](val)
        ok = isinstance(bits, BV) and [b.tok for b in bits.bits] == [exp]
        run.ob(ok, "to_bits", file=cu.rel, line=line, detail=f"bool={val}", expected=f'"{exp}"', found=repr(bits))
    run.end()


def rule_record(run):
    run.begin(
        "C17.record",
        "Record layout: field k occupies [lo(k)+w-1 : lo(k)] with lo(0) = 0 and lo(k+1) = lo(k)+w(k); the writer emits the "
        "fields in that arrangement; total == sum of field widths; the cached layout belongs to the class it was computed for",
        floor=10,
    )
    idx = run.idx
    rec = idx.mod(REC)
    p = core_prims(idx)
    widths_sets = [(1,), (2, 3), (3, 1, 2), (1, 1, 4, 2)]
    for ws in widths_sets:
        ann = {f"f{i}": c18._VecCtor("BitVector", width=w) for i, w in enumerate(ws)}
        cls = ClassModel("R", (), {"_cohdlstd_record_annotations": ann})
        Interp(rec, p).call_function("_make_serializable", cls)
        sm = cls._own.get("_cohdlstd_slice_map", {})
        total = cls._own.get("_cohdlstd_bitcount")
        lo = 0
        ok = True
        for i, w in enumerate(ws):
            s = sm.get(f"f{i}")
            if not (isinstance(s, slice) and (s.start, s.stop) == (lo + w - 1, lo)):
                ok = False
            lo += w
        run.ob(ok and total == sum(ws), "_make_serializable", file=rec.rel, line=rec.func("_make_serializable").node.lineno, detail=f"widths={ws}",
               expected="consecutive slices starting at bit 0 in declaration order, total = sum", found=f"{ {k: (v.start, v.stop) for k, v in sm.items()} }, total={total}")
        # writer agrees with the slice map
        # the instance stores its fields in the REVERSE of the declaration order (a record constructed with keyword
        # arguments in another order): the layout follows the declaration, never the construction order
        inst = type("_RecInst", (), {"_cohdlstd_record_annotations": ann, "__module__": __name__})()
        fields = {}
        for i, w in enumerate(ws):
            fields[f"f{i}"] = BV.sym(f"f{i}", w)
        for k in reversed(list(fields)):
            setattr(inst, k, fields[k])
        pp = dict(p)
        pp["type"] = lambda x: cls
        pp["_make_serializable"] = lambda c: None
        bits = Interp(rec, pp).call_function("Record._to_bits_", inst)
        ok = isinstance(bits, BV)
        if ok:
            for name, s in sm.items():
                ok = ok and list(bits.bits[s.stop:s.start + 1]) == list(fields[name].bits)
        run.ob(ok, "Record._to_bits_", file=rec.rel, line=rec.func("Record._to_bits_").node.lineno, detail=f"widths={ws}", expected="bits[slice_map[name]] == field value for every field", found=repr(bits)[:120])
    # per-class cache: a derived record must not reuse the layout of its (already serialised) base
    base_ann = {"a": c18._VecCtor("BitVector", width=2)}
    base = ClassModel("Base", (), {"_cohdlstd_record_annotations": base_ann})
    Interp(rec, p).call_function("_make_serializable", base)
    der_ann = {**base_ann, "b": c18._VecCtor("BitVector", width=3)}
    der = ClassModel("Derived", (base,), {"_cohdlstd_record_annotations": der_ann})
    Interp(rec, p).call_function("_make_serializable", der)
    ok = der._own.get("_cohdlstd_bitcount") == 5 and set(der._own.get("_cohdlstd_slice_map", {})) == {"a", "b"}
    run.ob(ok, "_make_serializable", file=rec.rel, line=rec.func("_make_serializable").node.lineno, detail="derived-after-base",
           expected="Derived gets its own layout (5 bits, fields a and b) although Base was serialised before", found=f"own bitcount {der._own.get('_cohdlstd_bitcount')} (inherited: {der.lookup('_cohdlstd_bitcount')[1]})")
    # every entry point that relies on the cached layout must (re)establish it for ITS class: count_bits of a fresh
    # derived class after the base was counted
    der2 = ClassModel("Derived2", (base,), {"_cohdlstd_record_annotations": der_ann})
    try:
        pc = dict(p)
        pc["_make_serializable"] = lambda c: Interp(rec, p).call_function("_make_serializable", c)
        cnt = Interp(rec, pc).call_function("Record._count_bits_", der2)
    except Reject as e:
        cnt = f"rejected: {e}"
    run.ob(cnt == 5, "Record._count_bits_", file=rec.rel, line=rec.func("Record._count_bits_").node.lineno, detail="derived-after-base",
           expected="count_bits(Derived) == 5 although Base (2 bits) was counted before", found=str(cnt))
    # calling twice is idempotent
    Interp(rec, p).call_function("_make_serializable", der)
    run.ob(der._own.get("_cohdlstd_bitcount") == 5, "_make_serializable", file=rec.rel, line=rec.func("_make_serializable").node.lineno, detail="idempotent", expected="second call keeps the layout", found=str(der._own.get("_cohdlstd_bitcount")))
    fb = rec.func("Record._from_bits_")
    t = P.T(fb.node)
    ok = "assert bits.width == cls._count_bits_()" in t and P.has(
        fb.node, "{__n: from_bits[__t](bits[cls._cohdlstd_slice_map[__n]], qualifier) for __n, __t in cls._cohdlstd_record_annotations.items()}")
    run.ob(ok, "Record._from_bits_", file=rec.rel, line=fb.node.lineno, detail="reader", expected="every field read from its slice of the map with its own type; width checked", found="ok" if ok else "changed")
    rec.func("_get_reverse_elem_list")   # anchor; its order is decided by the abstract evaluation of Record._to_bits_ above (instance stores the fields in reverse order)
    run.end()


def rule_std_array(run):
    run.begin("C17.array", "std.Array: writer puts element 0 in the least significant bits, reader takes element nr from [w*(nr+1)-1 : w*nr], count_bits = count * element width", floor=8)
    idx = run.idx
    ut = idx.mod(UT)
    p = core_prims(idx)
    for w, n in itertools.product((1, 2, 3), (1, 2, 3)):
        elems = [BV.sym(f"e{i}", w) for i in range(n)]
        inst = {"_content": elems}
        bits = Interp(ut, p).call_function("Array._to_bits_", inst)
        flat = [b for e in elems for b in e.bits]
        ok = isinstance(bits, BV) and list(bits.bits) == flat
        run.ob(ok, "std.Array._to_bits_", file=ut.rel, line=ut.func("Array._to_bits_").node.lineno, detail=f"w={w},n={n}", expected="element 0 in the least significant bits", found=repr(bits)[:100], sample=(w, n) == (2, 2))
        et = c18._VecCtor("BitVector", width=w)
        got = {}

        class Cls(dict):
            def __call__(self, content, _qualifier_=None):
                got["content"] = content
                return content
        cls = Cls({"_count_": n, "_elemtype_": et})
        raw = BV.sym("r", w * n)
        res = Interp(ut, p).call_function("Array._from_bits_", cls, raw, None)
        exp = [list(raw.bits[k * w:(k + 1) * w]) for k in range(n)]
        ok = isinstance(res, list) and [list(e.bits) for e in res] == exp
        run.ob(ok, "std.Array._from_bits_", file=ut.rel, line=ut.func("Array._from_bits_").node.lineno, detail=f"w={w},n={n}", expected="element nr = bits[w*(nr+1)-1 : w*nr]", found=repr(res)[:100], sample=False)
    cb = ut.func("Array._count_bits_")
    ok = P.T(cb.node.body[-1]) == "return cls._count_ * count_bits(cls._elemtype_)"
    run.ob(ok, "std.Array._count_bits_", file=ut.rel, line=cb.node.lineno, detail="count", expected="cls._count_ * count_bits(cls._elemtype_)", found=src(cb.node.body[-1]))
    run.end()


def rule_bitfield(run):
    run.begin("C17.bitfield", "a nested BitField placed with Inner[hi:lo] gets offset lo (and width hi-lo+1 must equal its declared width); Inner[k] gets offset k", floor=6)
    idx = run.idx
    bf = idx.mod(BF)
    p = core_prims(idx)
    p["type"] = lambda name, bases, d: dict(d)
    for w, lo in itertools.product((1, 3, 8), (0, 2, 8)):
        base = {"marker": "base"}
        cls = {"_width_": w, "_cohdlstd_subclasses": {None: base}, "__name__": "Inner"}
        hi = lo + w - 1
        try:
            res = Interp(bf, p).call_function("_BitFieldInst.__class_getitem__", cls, slice(hi, lo))
            ok = isinstance(res, dict) and res.get("_offset_") == lo
            found = f"offset {res.get('_offset_') if isinstance(res, dict) else res!r}"
        except Reject as r:
            ok, found = False, f"rejected: {r}"
        run.ob(ok, "_BitFieldInst.__class_getitem__", file=bf.rel, line=bf.func("_BitFieldInst.__class_getitem__").node.lineno, detail=f"[{hi}:{lo}],width={w}", expected=f"offset {lo}", found=found)
        cls2 = {"_width_": w, "_cohdlstd_subclasses": {None: base}, "__name__": "Inner"}
        res = Interp(bf, p).call_function("_BitFieldInst.__class_getitem__", cls2, lo)
        run.ob(isinstance(res, dict) and res.get("_offset_") == lo, "_BitFieldInst.__class_getitem__", file=bf.rel, line=bf.func("_BitFieldInst.__class_getitem__").node.lineno, detail=f"[{lo}],width={w}", expected=f"offset {lo}", found=str(res.get("_offset_") if isinstance(res, dict) else res), sample=False)
        # wrong slice width is rejected
        try:
            Interp(bf, p).call_function("_BitFieldInst.__class_getitem__", {"_width_": w, "_cohdlstd_subclasses": {None: base}, "__name__": "Inner"}, slice(hi + 1, lo))
            rej = False
        except Reject:
            rej = True
        run.ob(rej, "_BitFieldInst.__class_getitem__", file=bf.rel, line=bf.func("_BitFieldInst.__class_getitem__").node.lineno, detail=f"[{hi + 1}:{lo}],width={w}", expected="rejected", found="rejected" if rej else "accepted", sample=False)
    run.end()


def rule_adapters(run):
    run.begin("C17.adapters", "Enum / SFixed / UFixed / BitField / Serialized (de)serialise through their underlying vector without rearranging bits", floor=10)
    idx = run.idx
    en = idx.mod(EN)
    for q, needle in (("Enum._count_bits_", "return count_bits(cls._underlying_)"), ("Enum._to_bits_", "return to_bits(self._val)")):
        f = en.func(q)
        run.ob(src(f.node.body[-1]) == needle, q, file=en.rel, line=f.node.lineno, detail="delegates", expected=needle, found=src(f.node.body[-1]))
    f = en.func("Enum._from_bits_")
    ok = "from_bits[cls._underlying_](bits, qualifier)" in P.T(f.node)
    run.ob(ok, "Enum._from_bits_", file=en.rel, line=f.node.lineno, detail="delegates", expected="from_bits[cls._underlying_](bits, qualifier)", found="ok" if ok else "changed")
    fx = idx.mod(FX)
    for cls, view in (("SFixed", "signed"), ("UFixed", "unsigned")):
        f = fx.func(f"{cls}._count_bits_")
        run.ob(P.T(f.node.body[-1]) == "return cls._width", f"{cls}._count_bits_", file=fx.rel, line=f.node.lineno, detail="width", expected="return cls._width", found=src(f.node.body[-1]))
        f = fx.func(f"{cls}._from_bits_")
        ok = P.T(f.node.body[-1]) == f"return cls(raw=bits.{view}, _qualifier_=qualifier)"
        run.ob(ok, f"{cls}._from_bits_", file=fx.rel, line=f.node.lineno, detail="raw-view", expected=f"cls(raw=bits.{view}, ...)", found=src(f.node.body[-1]))
        f = fx.func(f"{cls}._to_bits_")
        ok = P.T(f.node.body[-1]) == "return Value(self._val.bitvector)"
        run.ob(ok, f"{cls}._to_bits_", file=fx.rel, line=f.node.lineno, detail="raw-bits", expected="Value(self._val.bitvector)", found=src(f.node.body[-1]))
    bf = idx.mod(BF)
    f = bf.func("BitField._count_bits_")
    run.ob(P.T(f.node.body[-1]) == "return cls._width_", "BitField._count_bits_", file=bf.rel, line=f.node.lineno, detail="width", expected="return cls._width_", found=src(f.node.body[-1]))
    ut = idx.mod(UT)
    f = ut.func("Serialized.value")
    ok = P.T(f.node.body[-1]) == "return from_bits[self._elemtype_](self._raw, qualifier)"
    run.ob(ok, "Serialized.value", file=ut.rel, line=f.node.lineno, detail="reader", expected="from_bits[self._elemtype_](self._raw, qualifier)", found=src(f.node.body[-1]))
    f = ut.func("Serialized.__init__")
    t = P.T(f.node)
    ok = "bit_count = count_bits(elem_type)" in t and "assert bit_count == raw.width" in t and "self._raw = to_bits(raw)" in t
    run.ob(ok, "Serialized.__init__", file=ut.rel, line=f.node.lineno, detail="writer", expected="raw width checked against count_bits; values stored as to_bits(raw)", found="ok" if ok else "changed")
    run.end()


def rule_template(run):
    run.begin("C17.template", "templated (and inherited) records collect their annotations base class first, so inherited fields keep the least significant bits", floor=2)
    tp = run.idx.mod(TP)
    f = tp.func("class_getitem_specialize")
    loops = [l for l in walk_local(f.node) if isinstance(l, ast.For) and "__mro__" in P.T(l.iter)]
    ok = len(loops) == 1 and P.T(loops[0].iter) == "reversed(cls.__mro__)"
    run.ob(ok, "class_getitem_specialize", file=tp.rel, line=(loops[0].lineno if loops else f.node.lineno), detail="mro-order", expected="for base in reversed(cls.__mro__)  (most basic class first)", found=src(loops[0].iter) if loops else "missing")
    rec = run.idx.mod(REC)
    isc = rec.func("Record.__init_subclass__")
    ok = "annotations = {**cls._cohdlstd_record_annotations, **annotations}" in P.T(isc.node)
    run.ob(ok, "Record.__init_subclass__", file=rec.rel, line=isc.node.lineno, detail="inherited-first", expected="{**inherited, **own}", found="ok" if ok else "changed")
    run.end()


def rule_value_qualifier(run):
    run.begin(
        "C17.value",
        "std.Value[T](x) (the default qualifier of from_bits) yields an object of type T: a run-time operand is passed "
        "through unchanged only when it already is a Temporary[T]; otherwise it is converted to Temporary[T]",
        floor=2,
    )
    cu = run.idx.mod(CU)
    f = cu.func("_Value.__call__")
    from .c07 import guards as _guards
    n = 0
    tv = [b["__t"] for _n, b in P.find(f.node, "__t = self._T")]
    tname = tv[0] if tv else "T"
    for r in walk_local(f.node):
        if isinstance(r, ast.Return) and isinstance(r.value, ast.Name) and r.value.id == "arg":
            n += 1
            g = _guards(f.node, r, cu.parents)
            ok = any(str(x) == f"if isinstance(arg, Temporary[{tname}])" for x in g)
            run.ob(ok, "_Value.__call__", file=cu.rel, line=r.lineno, detail=f"pass-through#{n}", expected="returned unchanged only if isinstance(arg, Temporary[T])", found=str([str(x) for x in g][-2:]))
    conv = [c for c in calls_in(f.node) if src(c.func) == f"Temporary[{tname}]"]
    run.ob(len(conv) >= 2 and n >= 1, "_Value.__call__", file=cu.rel, line=f.node.lineno, detail="converts", expected="run-time operands of another type are converted with Temporary[T](arg)", found=f"{len(conv)} conversions, {n} pass-through")
    run.end()


def rule_views(run):
    from ..rules import views
    views.run_rule(run, "F-VIEW")   # nested records / bit fields are slices of slices: offsets must accumulate


def rule_template_arg(run):
    from ..rules import eqhash
    eqhash.run_rule(run, "F-EQ", ["cohdl/std/_fixed.py", "cohdl/std/_template.py", "cohdl/std/utility.py", "cohdl/std/enum.py", "cohdl/std/bitfield.py"])   # fixed-point formats are cache keys of the serialised types


def rule_bitfield_views(run):
    run.begin(
        "C17.bitfield-views",
        "the members of a BitField are VIEWS of its vector: bit / vector fields are built over self._vec itself and a nested "
        "BitField over a slice of it with the Ref qualifier (whatever qualifier the parent has - a Signal/Variable built "
        "from the slice would be a detached copy: writes to the nested fields never reach the parent's bits, to_bits misses them)",
        floor=2,
    )
    bf = run.idx.mod(BF)
    f = bf.func("BitField.__init__")
    n = 0
    for c in walk_local(f.node):
        if not (isinstance(c, ast.Call) and dotted(c.func) == "setattr" and len(c.args) == 3 and isinstance(c.args[2], ast.Call)):
            continue
        ctor = c.args[2]
        if not ctor.args:
            continue
        arg = ctor.args[0]
        # where does the constructor argument come from?
        origin = src(arg)
        if isinstance(arg, ast.Name):
            asg = [a for a in walk_local(f.node) if isinstance(a, ast.Assign) and dotted(a.targets[0]) == arg.id]
            origin = src(asg[0].value) if asg else origin
        if "self._vec" not in origin:
            continue
        n += 1
        whole = origin == "self._vec"
        q = [k for k in ctor.keywords if k.arg == "_qualifier_"]
        if whole:
            ok = not q or dotted(q[0].value) == "Ref"
            exp = "the field class is built over self._vec itself (field classes slice by reference)"
        else:
            ok = bool(q) and dotted(q[0].value) == "Ref"
            exp = "_qualifier_=Ref for a nested BitField over a slice of self._vec"
        run.ob(ok, "BitField.__init__", file=bf.rel, line=c.lineno, detail=f"member<-{origin[:40]}", expected=exp, found=src(ctor)[:70])
    if n < 2:
        raise AnalysisError("BitField.__init__: member construction not recognised")
    run.end()


RULES = [rule_core, rule_record, rule_std_array, rule_bitfield, rule_adapters, rule_template, rule_value_qualifier, rule_views, rule_template_arg, rule_bitfield_views]
LEVEL = "other"
EXPLANATION = (
    "Serialisers are interpreted abstractly over symbolic bits (sa/absint.py; cohdl is never imported): for Bit, the "
    "vector types, bool, cohdl.Array and std.Array of widths/counts 1..3 the round trips hold bit for bit, the width "
    "equals count_bits, element/field 0 sits in the least significant bits and every other width is rejected; the "
    "Record slice map and writer agree and the cached layout is per class; nested BitField offsets; adapters delegate "
    "without rearranging; templated records keep base-first order. NOT decided: value equality through the Value/Ref "
    "qualifier plumbing, nesting deeper than one level, emitted logic."
)
ASSUMPTIONS = [
    "models of the primitives (`@` left operand on top, inclusive downto slices, qualifiers do not move bits)",
    "widths and element counts enumerated in 1..3 (record fields up to 4)",
]
