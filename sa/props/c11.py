"""C11 - compilation is a pure function of the design, independent of history.

Decided (structural necessary conditions, for every site of the current tree):
  F-STATE.pairing   every mutation of compiler-global state that can survive a
                    rejected compile is undone on the exception path
  F-STATE.kinds     every other mutated global is of a reviewed harmless kind and
                    still has the shape that makes it harmless
  C11.b             per-compilation attributes stashed on EntityInfo are discarded
  C11.ret           the return stack is only entered through `with`
  F-ORDER           no order-sensitive iteration over a set-like value
"""

from __future__ import annotations

import ast
import json
import os

from ..astutil import AnalysisError, dotted, walk_local, src, calls_in
from .. import pattern as P
from ..rules.state import Inventory, Pairing, class_attrs, module_globals
from ..rules import order as order_rule

TABLES = os.path.join(os.path.dirname(os.path.dirname(os.path.abspath(__file__))), "tables")

DEFINITION_TIME_FUNCS = {"__init_subclass__", "__class_getitem__", "_template_specialize_", "__set_name__"}


def _table():
    with open(os.path.join(TABLES, "global_state.json")) as fh:
        return json.load(fh)["entries"]


def _short(binding: str) -> str:
    return binding.split("::", 1)[1]


def _is_definition_time(sites) -> bool:
    for s in sites:
        name = s.func.qualname.rsplit(".", 1)[-1].split("#")[0]
        if name not in DEFINITION_TIME_FUNCS:
            return False
    return True


def _loads_of(inv, binding) -> list:
    cache = inv.__dict__.setdefault("_loads_cache", None)
    if cache is None:
        cache = inv._loads_cache = _all_loads(inv)
    return cache.get(binding, [])


def _all_loads(inv) -> dict:
    """binding -> (module, func, node) of every read inside functions (approximate: by resolver)."""
    from ..rules.state import _local_names

    out = {}
    for m in inv.mods:
        for q, f in m.functions.items():
            shadow = _local_names(f.node)
            a = f.node.args
            allargs = a.posonlyargs + a.args
            first = allargs[0].arg if (f.cls is not None and allargs) else None
            for n in walk_local(f.node, include_self=False):
                if isinstance(n, (ast.Name, ast.Attribute)) and isinstance(getattr(n, "ctx", None), ast.Load):
                    b = inv._binding_of(m, f, n, shadow, first)
                    if b is not None:
                        out.setdefault(b, []).append((m, f, n))
    return out


def _loads_of_slow(inv, binding) -> list:
    from ..rules.state import _local_names

    out = []
    for m in inv.mods:
        for q, f in m.functions.items():
            shadow = _local_names(f.node)
            a = f.node.args
            allargs = a.posonlyargs + a.args
            first = allargs[0].arg if (f.cls is not None and allargs) else None
            for n in walk_local(f.node, include_self=False):
                if isinstance(n, (ast.Name, ast.Attribute)) and isinstance(getattr(n, "ctx", None), ast.Load):
                    if inv._binding_of(m, f, n, shadow, first) == binding:
                        out.append((m, f, n))
    return out


# ----------------------------------------------------------------------------- rules
def rule_pairing(run):
    run.begin(
        "F-STATE.pairing",
        "every SET of scoped compiler-global state is restored on the exception path: finally / "
        "except-all+re-raise / host context manager / all callers protected / compile-boundary restore",
        floor=8,
    )
    inv = Inventory(run.idx)
    pairing = Pairing(inv)
    run._c11 = (inv, pairing)
    table = _table()
    by = inv.by_binding()
    for binding in sorted(by):
        sites = by[binding]
        entry = table.get(binding)
        if entry is not None and entry["kind"] != "paired":
            continue
        if _is_definition_time(sites):
            continue
        results = pairing.check_binding(binding)
        # scoped-object rule: in-place mutation of a binding all of whose rebinds are protected
        rebind_ok = [r for r in results if r[0].kind == "rebind" and r[1] != "unprotected"]
        rebind_bad = [r for r in results if r[0].kind == "rebind" and r[1] == "unprotected"]
        for s, status, how in results:
            ok = status != "unprotected"
            if (
                not ok
                and s.kind.startswith("mutate:")
                and not rebind_bad
                and any(r[0].func is s.func for r in rebind_ok)
            ):
                ok = True
                how = "mutates the scoped object installed by a protected rebind"
            if not ok and f"{binding}@{s.func.qualname}" in table:
                continue  # verified by F-STATE.kinds
            if ok and status == "boundary":
                allowed = list(table.get("boundary_guards:" + binding, {}).get("guards", []))
                extra = sorted({str(g) for g in pairing.boundary_guards(binding) if not any(g == a for a in allowed)})
                if extra:
                    ok = False
                    how = f"the compile-boundary restore is conditional on: {extra}"
            run.ob(
                ok,
                _short(binding),
                file=s.module.rel,
                line=s.node.lineno,
                detail=s.func.qualname,
                expected="restored on every exception path (finally / boundary)",
                found=f"{status}: {how}" if ok else f"state can survive a rejected compile ({how})",
                message="" if ok else f"{s.kind} of {_short(binding)} in {s.func.qualname}",
            )
    run.end()


def _verify_hook(run, inv, name, binding):
    idx = run.idx
    if name == "aliasscope_private_class":
        f = idx.func("cohdl/_compiler/backend/vhdl/_vhdl_repr.py", "AliasScope.__init__")
        ok = False
        line = f.node.lineno
        for n in walk_local(f.node):
            if isinstance(n, ast.Assign) and any(
                isinstance(t, ast.Attribute) and t.attr == "__class__" for t in n.targets
            ) and isinstance(n.value, ast.Call) and dotted(n.value.func) == "type":
                # must precede the assignment of _alias_map_
                ok = True
                line = n.lineno
                break
        return ok, line, "self.__class__ = type(...) creates a private class before _alias_map_ is stored"
    if name == "prefix_reset_on_entity_change":
        f = idx.func("cohdl/std/_prefix.py", "_Prefix.__init__")
        ok = False
        line = f.node.lineno
        # names bound directly to the result of current_entity()
        direct = set()
        for n in walk_local(f.node):
            if isinstance(n, ast.Assign) and isinstance(n.value, ast.Call) and dotted(n.value.func) == "current_entity" and not n.value.args:
                direct |= {t.id for t in n.targets if isinstance(t, ast.Name)}
        found = "identity test against current_entity() not found"
        for n in walk_local(f.node):
            if isinstance(n, ast.If) and isinstance(n.test, ast.Compare) and len(n.test.ops) == 1 and isinstance(n.test.ops[0], ast.IsNot):
                sides = [n.test.left, n.test.comparators[0]]
                has_state = any(dotted(x) == "_Prefix._current_entity" for x in sides)
                cur = [x for x in sides if (isinstance(x, ast.Name) and x.id in direct)
                       or (isinstance(x, ast.Call) and dotted(x.func) == "current_entity")]
                if has_state and cur:
                    body = "\n".join(src(b) for b in n.body)
                    stores = f"_Prefix._current_entity = {src(cur[0])}" in body
                    if "_Prefix._existing_prefix = {}" in body and stores:
                        ok = True
                        line = n.lineno
                        found = "counters re-initialised when the identity of current_entity() changes"
        return ok, line, found
    if name.startswith("no_callers:"):
        fname = name.split(":")[1]
        callers = []
        for m in inv.mods:
            for n in ast.walk(m.tree):
                if isinstance(n, ast.Call) and (dotted(n.func) or "").split(".")[-1] == fname:
                    callers.append(f"{m.rel}:{n.lineno}")
        return (not callers), 0, f"callers of {fname}: {callers or 'none'}"
    raise AnalysisError(f"unknown verify hook {name}")


def rule_kinds(run):
    run.begin(
        "F-STATE.kinds",
        "every mutated global that is exempt from pairing still has the shape of its reviewed kind "
        "(cache / registry / counter / setting / definition-time / reviewed exception)",
        floor=12,
    )
    inv, pairing = run._c11
    table = _table()
    by = inv.by_binding()
    for binding in sorted(by):
        sites = by[binding]
        entry = table.get(binding)
        f0 = sites[0]
        if entry is None:
            if _is_definition_time(sites):
                run.ob(True, _short(binding), file=f0.module.rel, line=f0.node.lineno, detail="definition-time",
                       expected="mutated only from class-definition hooks", found="definition-time", sample=False)
            continue
        kind = entry["kind"]
        kinds = sorted({s.kind for s in sites})
        ok, found = True, f"{kind}: {kinds}"
        if kind == "cache":
            bad = [s for s in sites if s.kind != "setitem"]
            ok = not bad
            if ok:
                for s in sites:
                    # a lookup of the same binding must exist in the same function
                    loads = [1 for (m, f, n) in _loads_of(inv, binding) if f is s.func]
                    if len(loads) < 1:
                        ok, found = False, "cache filled without lookup in " + s.func.qualname
            else:
                found = f"non-cache mutation {bad[0].kind} in {bad[0].func.qualname}"
        elif kind == "registry":
            bad = [s for s in sites if not (s.kind in ("setitem", "mutate:append"))]
            ok = not bad
            if bad:
                found = f"registry mutated by {bad[0].kind} in {bad[0].func.qualname}"
        elif kind == "counter":
            loads = _loads_of(inv, binding)
            for (m, f, n) in loads:
                st = m.parents.enclosing_stmt(n)
                own = any(s.stmt is st for s in sites)
                if not own and not isinstance(st, ast.Assert):
                    ok, found = False, f"counter read at {m.rel}:{n.lineno} in {f.qualname}"
        elif kind == "setting":
            setter = entry["setter"]
            callers = []
            for m in inv.mods:
                for n in ast.walk(m.tree):
                    if isinstance(n, ast.Call) and (dotted(n.func) or "").split(".")[-1] == setter:
                        callers.append(f"{m.rel}:{n.lineno}")
            bad = [s for s in sites if s.func.qualname.rsplit(".", 1)[-1] != setter]
            ok = not callers and not bad
            found = f"setter {setter}; internal callers: {callers or 'none'}; other writers: {[b.func.qualname for b in bad] or 'none'}"
        elif kind == "exception":
            if "verify" in entry:
                ok, line, found = _verify_hook(run, inv, entry["verify"], binding)
        run.ob(ok, _short(binding), file=f0.module.rel, line=f0.node.lineno, detail=kind,
               expected=f"{kind} ({entry['reason'][:80]})", found=found)
    # keyed exceptions binding@function
    for key, entry in table.items():
        if "@" in key and "verify" in entry:
            ok, line, found = _verify_hook(run, inv, entry["verify"], key)
            run.ob(ok, _short(key), file=key.split("::")[0], line=line, detail="exception",
                   expected=entry["reason"][:80], found=found)
    run.end()


def rule_entityinfo(run):
    run.begin(
        "C11.b",
        "per-compilation attributes of EntityInfo (instantiated, instantiated_template) are discarded: "
        "on failure inside Entity.__init__ and at the end of the compilation for every registered info",
        floor=3,
    )
    idx = run.idx
    ctx = idx.mod("cohdl/_core/_context.py")
    # 1. _discard_instantiation resets both attributes
    disc = ctx.func("EntityInfo._discard_instantiation")
    reset = set()
    for n in walk_local(disc.node):
        if isinstance(n, ast.Assign) and isinstance(n.value, ast.Constant) and n.value.value is None:
            for t in n.targets:
                if isinstance(t, ast.Attribute) and dotted(t.value) == "self":
                    reset.add(t.attr)
    need = {"instantiated", "instantiated_template"}
    run.ob(need <= reset, "EntityInfo._discard_instantiation", file=ctx.rel, line=disc.node.lineno,
           detail="resets", expected=f"resets {sorted(need)} to None", found=f"resets {sorted(reset)}")
    # 2. Entity.__init__: the assignment info.instantiated = X is protected
    init = ctx.func("Entity.__init__")
    sets = [n for n in walk_local(init.node) if isinstance(n, ast.Assign)
            and any(isinstance(t, ast.Attribute) and t.attr == "instantiated" for t in n.targets)]
    if not sets:
        raise AnalysisError("anchor vanished: assignment to info.instantiated in Entity.__init__")
    pm = ctx.parents
    for st in sets:
        how = None
        for anc in pm.ancestors(st):
            if isinstance(anc, ast.Try) and any(st is b or any(x is st for x in ast.walk(b)) for b in anc.body):
                def resets(stmts):
                    for s in stmts:
                        for c in calls_in(s):
                            if isinstance(c.func, ast.Attribute) and c.func.attr == "_discard_instantiation":
                                return True
                        for a in walk_local(s):
                            if isinstance(a, ast.Assign) and isinstance(a.value, ast.Constant) and a.value.value is None and any(
                                isinstance(t, ast.Attribute) and t.attr == "instantiated" for t in a.targets
                            ):
                                return True
                    return False
                if anc.finalbody and resets(anc.finalbody):
                    how = "finally"
                for h in anc.handlers:
                    if (h.type is None or dotted(h.type) == "BaseException") and h.body and isinstance(h.body[-1], ast.Raise) and h.body[-1].exc is None and resets(h.body):
                        how = "except-all + re-raise"
        # alternative: registration with the cleanup handler precedes the assignment
        if how is None:
            block = getattr(pm.of(st), pm.field_of(st))
            before = block[: block.index(st)]
            if any("_entity_instantiation_handler(" in P.T(b) for b in before):
                how = "registered for cleanup before the assignment"
        run.ob(how is not None, "Entity.__init__", file=ctx.rel, line=st.lineno, detail="info.instantiated",
               expected="discarded when the architecture raises", found=how or "stale instance survives a failing architecture")
    # 3. ConvertPythonInstance.__exit__ discards every registered info, unconditionally
    pa = idx.mod("cohdl/_compiler/frontend/_prepare_ast.py")
    ex = pa.func("ConvertPythonInstance.__exit__")
    ok = False
    line = ex.node.lineno
    for st in ex.node.body:  # top level of the body only: must not be conditional
        if isinstance(st, ast.For) and "_entity_infos" in P.T(st.iter):
            # the call is a direct statement of the loop body: every registered info is discarded, whatever its state
            if any(isinstance(x, ast.Expr) and isinstance(x.value, ast.Call) and isinstance(x.value.func, ast.Attribute) and x.value.func.attr == "_discard_instantiation" for x in st.body):
                ok = True
                line = st.lineno
    early_exit = any(isinstance(n, ast.Return) for n in walk_local(ex.node))
    run.ob(ok and not early_exit, "ConvertPythonInstance.__exit__", file=pa.rel, line=line, detail="discard loop",
           expected="unconditional loop over self._entity_infos calling _discard_instantiation, no early return",
           found=("loop present" if ok else "loop missing") + (", early return present" if early_exit else ""))
    # 4. the handler that registers infos appends to the same list
    h = pa.func("ConvertPythonInstance._entity_instantiation_handler")
    ok = any(isinstance(c.func, ast.Attribute) and c.func.attr == "append" and "_entity_infos" in P.T(c.func.value) for c in calls_in(h.node))
    run.ob(ok, "ConvertPythonInstance._entity_instantiation_handler", file=pa.rel, line=h.node.lineno, detail="register",
           expected="appends the info to self._entity_infos", found="ok" if ok else "does not register")
    run.end()


def rule_return_stack(run):
    run.begin(
        "C11.ret",
        "the return stack of the tracer is entered only as a `with` item and its entry class pops in __exit__",
        floor=3,
    )
    pa = run.idx.mod("cohdl/_compiler/frontend/_prepare_ast.py")
    ent = pa.func("_ReturnStack._NewEntry.__enter__")
    ext = pa.func("_ReturnStack._NewEntry.__exit__")
    push = any(isinstance(c.func, ast.Attribute) and c.func.attr == "append" for c in calls_in(ent.node))
    pop = any(isinstance(n, ast.Delete) for n in walk_local(ext.node)) or any(
        isinstance(c.func, ast.Attribute) and c.func.attr == "pop" for c in calls_in(ext.node))
    run.ob(push and pop, "_ReturnStack._NewEntry", file=pa.rel, line=ent.node.lineno, detail="enter/exit",
           expected="__enter__ pushes, __exit__ pops", found=f"push={push} pop={pop}")
    n_sites = 0
    for q, f in pa.functions.items():
        for c in calls_in(f.node):
            if isinstance(c.func, ast.Attribute) and c.func.attr == "enter" and dotted(c.func.value) == "_return_stack":
                par = pa.parents.of(c)
                ok = isinstance(par, ast.withitem)
                n_sites += 1
                run.ob(ok, f.qualname, file=pa.rel, line=c.lineno, detail=f"_return_stack.enter#{n_sites}",
                       expected="used as with-item", found="with-item" if ok else "bare call")
    run.end()


def _order_exceptions():
    with open(os.path.join(TABLES, "unordered_iteration.json")) as fh:
        return json.load(fh)["entries"]


def rule_order(run):
    run.begin(
        "F-ORDER",
        "no order-sensitive consumption (for / comprehension / list / tuple / join / *-unpack) of a "
        "set-like value in cohdl/, except reviewed latent sites whose reason is re-derived",
        floor=4,
    )
    exc = _order_exceptions()
    idx = run.idx
    seen = set()
    all_calls = None
    facts = order_rule.global_kinds(idx)   # which functions return sets / which parameters receive sets from a caller
    for m in idx.all_modules("cohdl/"):
        for q, f in m.functions.items():
            for n, kind, it in order_rule.find_sites(m, f, facts):
                key = f"{m.rel}::{q}::{it}"
                line = getattr(n, "lineno", None) or getattr(getattr(n, "iter", None), "lineno", 0)
                e = exc.get(key)
                if e is None:
                    run.ob(False, f"{m.rel}::{q}", file=m.rel, line=line, detail=it,
                           expected="ordered iteration (sorted(...) or an insertion-ordered container)",
                           found=f"{kind} over set-like value `{it}`",
                           message="iteration order depends on hash seed / object addresses")
                    continue
                seen.add(key)
                ok, found = True, e["reason"][:100]
                if "callers_of" in e:
                    # re-derive: the only callers are the expected (dead / order-free) ones
                    callers = set()
                    for m2 in idx.all_modules("cohdl/"):
                        for q2, f2 in m2.functions.items():
                            for c in calls_in(f2.node):
                                nm = dotted(c.func) or ""
                                if nm.split(".")[-1] in e["callers_of"]:
                                    callers.add(f"{m2.rel}::{q2}")
                        for c in [x for x in ast.walk(m2.tree) if isinstance(x, ast.Call)]:
                            pass
                    unexpected = sorted(callers - set(e.get("expected_callers", [])))
                    ok = not unexpected
                    found = f"callers: {sorted(callers) or 'none'}" + (f"; unexpected: {unexpected}" if unexpected else "")
                if e.get("verify") == "keyed_writes_only" and isinstance(n, ast.For):
                    lv = n.target.id if isinstance(n.target, ast.Name) else None
                    ok = all(isinstance(st, ast.Assign) and isinstance(st.targets[0], ast.Subscript) and dotted(st.targets[0].slice) == lv and not any(isinstance(x, ast.Name) and x.id == lv for x in ast.walk(st.value)) for st in n.body)
                    found = "loop body: keyed writes only" if ok else "loop body changed: " + "; ".join(src(st)[:40] for st in n.body)
                elif (e.get("verify") or "").startswith("calls_only:") and isinstance(n, ast.For):
                    allowed_call = e["verify"].split(":", 1)[1]
                    ok = all(isinstance(st, ast.Expr) and isinstance(st.value, ast.Call) and isinstance(st.value.func, ast.Attribute) and st.value.func.attr == allowed_call for st in n.body)
                    found = f"loop body: only {allowed_call}(..) calls" if ok else "loop body changed: " + "; ".join(src(st)[:40] for st in n.body)
                run.ob(ok, f"{m.rel}::{q}", file=m.rel, line=line, detail=it,
                       expected="reviewed latent site: " + e["reason"][:80], found=found)
    for key in exc:
        if key not in seen:
            run.note(f"reviewed unordered-iteration site no longer present: {key}")
    # positive control: the detector must fire on a known-bad snippet
    import textwrap
    from ..index import ModuleInfo
    ctl = ModuleInfo("control.py", textwrap.dedent('''
        def emit(names):
            pending = set(names)
            return ", ".join([n for n in pending])
    '''))
    hits = order_rule.find_sites(ctl, ctl.functions["emit"])
    if len(hits) != 1:
        raise AnalysisError("F-ORDER positive control did not fire")
    run.end()


def rule_dynamic_ports(run):
    run.begin(
        "C11.ports",
        "ports added while an architecture is evaluated (std.add_entity_port) are removed before the next build: the "
        "snapshot of the static ports lives from its creation until _discard_dynamic_ports consumes it - nothing else "
        "clears or replaces it; the restore deletes exactly the ports that are not in the snapshot",
        floor=5,
    )
    idx = run.idx
    ctx = idx.mod("cohdl/_core/_context.py")
    ddp = ctx.func("EntityInfo._discard_dynamic_ports")
    # which attribute is the snapshot: the one _discard_dynamic_ports tests membership against
    snaps = {b["__s"] for _n, b in P.find(ddp.node, "__p in self.__s")} | {x.attr for x in ast.walk(ddp.node) if isinstance(x, ast.Attribute) and dotted(x.value) == "self" and "non_dynamic" in x.attr}
    snaps = {x for x in snaps if isinstance(x, str)}
    if len(snaps) != 1:
        raise AnalysisError(f"_discard_dynamic_ports: snapshot attribute not recognised ({snaps})")
    snap = next(iter(snaps))
    writers = []
    for m in idx.all_modules("cohdl/"):
        for q, g in m.functions.items():
            for a in walk_local(g.node):
                tg = a.targets if isinstance(a, ast.Assign) else [a.target] if isinstance(a, (ast.AnnAssign, ast.AugAssign)) else []
                for t in tg:
                    if isinstance(t, ast.Attribute) and t.attr == snap:
                        writers.append((m, q, a))
    allowed = {"EntityInfo.__init__": "initial None", "EntityInfo._discard_dynamic_ports": "consumed", "Entity.__init__": "created before the architecture runs"}
    for m, q, a in writers:
        ok = m is ctx and q in allowed
        run.ob(ok, f"{m.rel.split('/')[-1]}::{q}", file=m.rel, line=a.lineno, detail=f"writes-{snap}", expected="only the initialiser, the creator (Entity.__init__) and the consumer write the snapshot",
               found=allowed.get(q, "the snapshot is cleared/replaced before _discard_dynamic_ports can use it: dynamic ports survive into the next build"))
    init = ctx.func("Entity.__init__")
    crt = [a for m, q, a in writers if q == "Entity.__init__"]
    ok = len(crt) == 1 and isinstance(crt[0].value, ast.Call) and dotted(crt[0].value.func) in ("set", "list", "frozenset", "tuple") and src(crt[0].value.args[0]).endswith(".ports")
    run.ob(ok, "Entity.__init__", file=ctx.rel, line=(crt[0].lineno if crt else init.node.lineno), detail="snapshot-created", expected=f"info.{snap} = set(info.ports) (a copy of the static port names)", found=src(crt[0]) if crt else "missing")
    if crt:
        calls = [c for c in calls_in(init.node) if isinstance(c.func, ast.Attribute) and c.func.attr == "_discard_dynamic_ports"]
        ok = len(calls) == 1 and calls[0].lineno < crt[0].lineno
        run.ob(ok, "Entity.__init__", file=ctx.rel, line=init.node.lineno, detail="restore-before-snapshot", expected="ports of an earlier build are removed before the new snapshot is taken", found="ok" if ok else "order changed / missing")
        # the snapshot describes the STATIC interface: it is taken before the architecture (which adds the dynamic ports) runs
        arch = [c for c in calls_in(init.node) if isinstance(c.func, ast.Attribute) and c.func.attr == "architecture"]
        if not arch:
            raise AnalysisError("anchor vanished: info.architecture(...) call in Entity.__init__")
        ok = all(crt[0].lineno < c.lineno for c in arch)
        run.ob(ok, "Entity.__init__", file=ctx.rel, line=crt[0].lineno, detail="snapshot-before-architecture", expected="the snapshot is taken before info.architecture(...) adds dynamic ports",
               found="ok" if ok else "taken after the architecture ran: dynamic ports count as static and survive into the next build")
    # the consumer: deletes every port not in the snapshot, then clears the snapshot
    dels = [d for d in walk_local(ddp.node) if isinstance(d, ast.Delete) and any("ports[" in src(t) for t in d.targets)]
    ok = False
    if dels:
        from .c07 import guards as _guards
        g = _guards(ddp.node, dels[0], ctx.parents)
        ok = any(x == f"if self.{snap} is not None" for x in g) and (any(x == f"unless port_name in self.{snap}" for x in g) or any(x == f"if port_name not in self.{snap}" for x in g)) and len(g) == 2
        found = str([str(x) for x in g])
    else:
        found = "no deletion"
    run.ob(ok, "EntityInfo._discard_dynamic_ports", file=ctx.rel, line=ddp.node.lineno, detail="restore", expected="delete every port that is not in the snapshot (when a snapshot exists)", found=found)
    loops = [l for l in walk_local(ddp.node) if isinstance(l, ast.For)]
    ok = bool(loops) and isinstance(loops[0].iter, ast.Call) and dotted(loops[0].iter.func) in ("list", "tuple") and src(loops[0].iter.args[0]) == "self.ports"
    run.ob(ok, "EntityInfo._discard_dynamic_ports", file=ctx.rel, line=ddp.node.lineno, detail="iterates-copy", expected="for port_name in list(self.ports) (all ports, over a copy)", found=src(loops[0].iter) if loops else "no loop")
    run.end()


def rule_definition_purge(run):
    run.begin(
        "C11.purge",
        "function definitions cached during a compilation are removed at its end: the purge examines EVERY entry of the "
        "cache that was not in the snapshot taken at the start (iterating the cache, or the difference cache - snapshot)",
        floor=3,
    )
    idx = run.idx
    pa = idx.mod("cohdl/_compiler/frontend/_prepare_ast.py")
    ex = pa.func("ConvertPythonInstance.__exit__")
    en = pa.func("ConvertPythonInstance.__enter__")
    CACHE = "FunctionDefinition._known_definitions"
    snap = [dotted(a.targets[0]) for a in walk_local(en.node) if isinstance(a, ast.Assign) and CACHE in src(a.value) and (dotted(a.targets[0]) or "").startswith("self.")]
    if len(snap) != 1:
        raise AnalysisError("ConvertPythonInstance.__enter__: snapshot of the definition cache not found")
    snap = snap[0]
    sv = [a.value for a in walk_local(en.node) if isinstance(a, ast.Assign) and dotted(a.targets[0]) == snap][0]
    ok = isinstance(sv, ast.Call) and dotted(sv.func) in ("set", "frozenset", "list", "dict", "tuple") and dotted(sv.args[0]) == CACHE
    run.ob(ok, "ConvertPythonInstance.__enter__", file=pa.rel, line=en.node.lineno, detail="snapshot-is-copy", expected=f"{snap} = set({CACHE})", found=src(sv)[:80])
    dels = [d for d in walk_local(ex.node) if isinstance(d, ast.Delete) and any(CACHE in src(t) for t in d.targets)]
    if len(dels) != 1:
        raise AnalysisError("ConvertPythonInstance.__exit__: purge of the definition cache not found")
    loop = None
    for anc in pa.parents.ancestors(dels[0]):
        if isinstance(anc, ast.For):
            loop = anc
            break
    if loop is None:
        raise AnalysisError("purge loop not found")

    def domain(e, depth=0):
        """'cache' (all current entries) | 'new' (cache - snapshot) | 'wrong: ...'"""
        if isinstance(e, ast.Call) and dotted(e.func) in ("list", "tuple", "set", "sorted") and e.args:
            return domain(e.args[0], depth)
        if isinstance(e, ast.Call) and isinstance(e.func, ast.Attribute) and e.func.attr in ("items", "keys", "copy"):
            return domain(e.func.value, depth)
        if dotted(e) == CACHE:
            return "cache"
        if dotted(e) == snap:
            return "wrong: iterates the snapshot (entries that existed BEFORE the compilation)"
        if isinstance(e, ast.BinOp) and isinstance(e.op, ast.Sub):
            l, r = domain(e.left, depth), domain(e.right, depth)
            if l == "cache" and r.startswith("wrong: iterates the snapshot"):
                return "new"
            return f"wrong: {src(e)[:70]} is not `cache - snapshot`"
        if isinstance(e, ast.Name) and depth < 3:
            defs = [a.value for a in walk_local(ex.node) if isinstance(a, ast.Assign) and dotted(a.targets[0]) == e.id]
            if len(defs) == 1:
                return domain(defs[0], depth + 1)
        return f"wrong: {src(e)[:70]} not recognised"
    d = domain(loop.iter)
    run.ob(d in ("cache", "new"), "ConvertPythonInstance.__exit__", file=pa.rel, line=loop.lineno, detail="purge-domain", expected="every current cache entry (or cache - snapshot) is examined", found=d)
    from .c07 import guards as _guards
    g = _guards(ex.node, dels[0], pa.parents)
    allowed = [f"if definition_id not in {snap}", "if not inspect.iscoroutine(captured)"]
    extra = [str(x) for x in g if not any(x == a for a in allowed)]
    run.ob(not extra, "ConvertPythonInstance.__exit__", file=pa.rel, line=dels[0].lineno, detail="purge-exemptions", expected="only coroutine objects (kept alive on purpose) are exempt from the purge", found=str(extra) if extra else "ok")
    if d == "cache":
        ok = any(x == f"if definition_id not in {snap}" for x in g)
        run.ob(ok, "ConvertPythonInstance.__exit__", file=pa.rel, line=dels[0].lineno, detail="purge-selects-new", expected=f"entries not in {snap} are deleted", found=str([str(x) for x in g]))
    run.end()


def rule_snapshot(run):
    from ..rules import snapshot
    snapshot.run_rule(run, "F-SNAPSHOT")


def rule_alias(run):
    from ..rules import snapshot
    snapshot.run_alias_rule(run, "F-ALIAS")


RULES = [rule_pairing, rule_kinds, rule_entityinfo, rule_return_stack, rule_order, rule_dynamic_ports, rule_definition_purge, rule_snapshot, rule_alias]

LEVEL = "other"
EXPLANATION = (
    "Static pairing/ordering analysis over every mutation site of module- and class-level state in cohdl/. "
    "Decides: (1) each SET of scoped compiler-global state is undone on every exception path (finally, "
    "except-all+re-raise, host context manager, all resolvable callers protected, or a restore in the "
    "compile-boundary guards VhdlCompiler.to_ir/to_vhdl_library/generate_internal_representation); "
    "(2) each remaining mutated global keeps the shape of its reviewed harmless kind; (3) per-compilation "
    "attributes of EntityInfo are discarded on failure and at compile exit; (4) the tracer's return stack is "
    "only entered via `with`; (5) no order-sensitive iteration over set-like values. NOT decided: state "
    "outside cohdl/ (user modules), CPython-level nondeterminism, byte-identity of the output itself."
)
ASSUMPTIONS = [
    "exceptions are the only way a compilation is abandoned (no os._exit / signals)",
    "call resolution is name/class based; unresolved dynamic calls are treated as 'no host caller' (conservative: unprotected unless a boundary restore exists)",
    "a restore reachable from the compile-boundary guards runs for every compilation started through std.VhdlCompiler",
    "reviewed exceptions in sa/tables/global_state.json and unordered_iteration.json (one reason each)",
]
