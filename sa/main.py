"""Launcher: `python -m sa.main <PROPERTY> [--tier quick|thorough] [--repo PATH]`.

exit 0 = every obligation discharged (or only listed known findings),
exit 1 = VIOLATION, exit 2 = ANALYSIS-ERROR (cannot decide; never a silent pass).
"""

from __future__ import annotations

import argparse
import importlib
import json
import os
import sys
import traceback

from .astutil import AnalysisError
from .index import Index
from .report import Run, finish


def run_property(prop: str, tier: str, repo: str, overrides=None, quiet=False):
    mod = importlib.import_module(f"sa.props.{prop.lower()}")
    idx = Index(repo, overrides)
    run = Run(prop, idx, tier)
    for rule in mod.RULES:
        rule(run)
        if run._cur is not None:
            run.end()
    if tier == "thorough":
        for rule in getattr(mod, "THOROUGH_RULES", []):
            rule(run)
            if run._cur is not None:
                run.end()
    for ctl in getattr(mod, "CONTROLS", []):
        ctl(run)
    return mod, run


def main(argv=None) -> int:
    ap = argparse.ArgumentParser()
    ap.add_argument("property")
    ap.add_argument("--tier", default=os.environ.get("VERIF_TIER") or "quick")
    ap.add_argument("--repo", default=os.environ.get("VERIF_REPO") or "/repo")
    ap.add_argument("--replay", default=None, help="print a stored violations file")
    args = ap.parse_args(argv)
    prop = args.property.upper()
    if args.replay:
        with open(args.replay) as fh:
            for f in json.load(fh):
                print(json.dumps(f))
        # a replay re-runs the check itself: the verdict comes from the current tree
    tier = args.tier if args.tier in ("quick", "thorough") else "quick"
    try:
        mod, run = run_property(prop, tier, args.repo)
        return finish(
            run,
            getattr(mod, "LEVEL", "other"),
            mod.EXPLANATION,
            getattr(mod, "ASSUMPTIONS", []),
            f"./check {prop} --tier {tier}",
        )
    except AnalysisError as e:
        print(f"ANALYSIS-ERROR property={prop}: {e}")
        return 2
    except Exception:
        print(f"ANALYSIS-ERROR property={prop}: internal error")
        traceback.print_exc()
        return 2


if __name__ == "__main__":
    sys.exit(main())
