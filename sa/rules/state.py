"""F-STATE - inventory of compiler-global state and its mutation sites.

A *state binding* is a module-level name or a class-level attribute of a class
defined in cohdl/.  A *mutation site* is a statement inside a function that
rebinds it or mutates the object it holds.
"""

from __future__ import annotations

import ast
from dataclasses import dataclass, field

from ..astutil import FUNC_TYPES, dotted, walk_local, src, norm, short_hash, decorator_names

MUTATORS = {
    "append", "extend", "pop", "clear", "update", "add", "remove", "insert",
    "setdefault", "discard", "popitem", "sort", "reverse", "add_entry", "appendleft",
}


@dataclass
class Site:
    binding: str  # "rel::NAME" or "rel::Class.attr"
    kind: str  # rebind | mutate | setitem | delitem | augassign
    module: object
    func: object  # FuncInfo
    stmt: ast.stmt
    node: ast.AST
    value: ast.AST | None = None

    @property
    def where(self):
        return f"{self.module.rel}:{self.node.lineno}"


_LOCAL_CACHE: dict[int, tuple] = {}


def _local_names(fn: ast.AST) -> set[str]:
    """names that are local to fn (assigned / params) and not declared global/nonlocal."""
    hit = _LOCAL_CACHE.get(id(fn))
    if hit is not None and hit[0] is fn:
        return hit[1]
    res = _local_names_uncached(fn)
    _LOCAL_CACHE[id(fn)] = (fn, res)
    return res


def _local_names_uncached(fn: ast.AST) -> set[str]:
    glob = set()
    local = set()
    a = fn.args
    for arg in a.posonlyargs + a.args + a.kwonlyargs:
        local.add(arg.arg)
    if a.vararg:
        local.add(a.vararg.arg)
    if a.kwarg:
        local.add(a.kwarg.arg)
    for n in walk_local(fn, include_self=False):
        if isinstance(n, (ast.Global, ast.Nonlocal)):
            glob.update(n.names)
        elif isinstance(n, ast.Name) and isinstance(n.ctx, (ast.Store, ast.Del)):
            local.add(n.id)
        elif isinstance(n, FUNC_TYPES + (ast.ClassDef,)) and n is not fn:
            local.add(n.name)
        elif isinstance(n, (ast.Import, ast.ImportFrom)):
            for al in n.names:
                local.add((al.asname or al.name).split(".")[0])
        elif isinstance(n, ast.ExceptHandler) and n.name:
            local.add(n.name)
    return local - glob


def module_globals(mod) -> dict[str, ast.AST]:
    """module-level assigned names -> value node (last assignment)."""
    out = {}
    for s in mod.tree.body:
        if isinstance(s, ast.Assign):
            for t in s.targets:
                if isinstance(t, ast.Name):
                    out[t.id] = s.value
        elif isinstance(s, ast.AnnAssign) and isinstance(s.target, ast.Name):
            out[s.target.id] = s.value
    return out


def class_attrs(cls: ast.ClassDef) -> dict[str, ast.AST]:
    out = {}
    for s in cls.body:
        if isinstance(s, ast.Assign):
            for t in s.targets:
                if isinstance(t, ast.Name):
                    out[t.id] = s.value
        elif isinstance(s, ast.AnnAssign) and isinstance(s.target, ast.Name):
            out[s.target.id] = s.value
    return out


class Inventory:
    def __init__(self, idx, prefix="cohdl/"):
        self.idx = idx
        self.sites: list[Site] = []
        self.bindings: dict[str, dict] = {}
        self.mods = idx.all_modules(prefix)
        # class name -> (module, ClassDef) for top-level classes (unique names preferred)
        self.class_by_name: dict[str, list] = {}
        for m in self.mods:
            for q, c in m.classes.items():
                self.class_by_name.setdefault(q.split(".")[-1], []).append((m, q, c))
        for m in self.mods:
            self._scan_module(m)

    # -- resolution ------------------------------------------------------------
    def _resolve_global(self, mod, name):
        """-> binding id for module global `name` used in `mod` (following import aliases)."""
        g = module_globals(mod)
        if name in g:
            return f"{mod.rel}::{name}", mod
        r = self.idx.resolve_import(mod, name)
        if r is not None:
            m2, n2 = r
            if n2 in module_globals(m2):
                return f"{m2.rel}::{n2}", m2
        return None, None

    def _resolve_class(self, mod, name):
        if name in mod.classes:
            return mod, name, mod.classes[name]
        r = self.idx.resolve_import(mod, name)
        if r is not None:
            m2, n2 = r
            if n2 in m2.classes:
                return m2, n2, m2.classes[n2]
        return None

    def _scan_module(self, mod):
        for q, f in mod.functions.items():
            fn = f.node
            local = _local_names(fn)
            # enclosing function locals shadow as well
            parts = q.split(".<locals>.")
            enclosing_locals = set()
            for i in range(1, len(parts)):
                outer = mod.functions.get(".<locals>.".join(parts[:i]))
                if outer is not None:
                    enclosing_locals |= _local_names(outer.node)
            shadow = local | enclosing_locals
            first_arg = None
            a = fn.args
            allargs = a.posonlyargs + a.args
            if f.cls is not None and allargs:
                first_arg = allargs[0].arg
            for stmt_node in walk_local(fn, include_self=False):
                self._scan_node(mod, f, stmt_node, shadow, first_arg)

    def _binding_of(self, mod, f, target: ast.AST, shadow, first_arg):
        """resolve an expression that denotes a state binding.  -> (binding id, kind-of-holder)"""
        if isinstance(target, ast.Name):
            if target.id in shadow:
                return None
            b, _ = self._resolve_global(mod, target.id)
            return b
        if isinstance(target, ast.Attribute):
            base = target.value
            # Cls.attr
            if isinstance(base, ast.Name) and base.id not in shadow:
                r = self._resolve_class(mod, base.id)
                if r is not None:
                    m2, q2, c2 = r
                    return f"{m2.rel}::{q2}.{target.attr}"
                # module alias: mod.NAME
                tgt = mod.imports.get(base.id)
                if tgt is not None:
                    m, _, n = tgt.partition(":")
                    full = (m + "." + n) if n else m
                    for cand in (full.replace(".", "/") + ".py", full.replace(".", "/") + "/__init__.py"):
                        if cand in self.idx.modules:
                            m2 = self.idx.modules[cand]
                            if target.attr in module_globals(m2):
                                return f"{m2.rel}::{target.attr}"
                # instance held in a module global: G.attr  (e.g. _return_stack._stack)
                b, m2 = self._resolve_global(mod, base.id)
                if b is not None:
                    return b + "." + target.attr
            # mod.Cls.attr  (e.g. ir.Statement._current_frame)
            if isinstance(base, ast.Attribute) and isinstance(base.value, ast.Name) and base.value.id not in shadow:
                cands = self.class_by_name.get(base.attr, [])
                tgt = mod.imports.get(base.value.id)
                if tgt is not None and cands:
                    mname, _, sub = tgt.partition(":")
                    path = ((mname + "." + sub) if sub else mname).replace(".", "/")
                    near = [c for c in cands if c[0].rel.startswith(path + "/") or c[0].rel == path + ".py"]
                    if len(near) == 1:
                        m2, q2, c2 = near[0]
                        return f"{m2.rel}::{q2}.{target.attr}"
            # self.attr where attr is a mutable class-level container never rebound per instance
            if (
                f.cls is not None
                and isinstance(base, ast.Name)
                and base.id == first_arg
                and first_arg == "self"
            ):
                init = class_attrs(f.cls).get(target.attr)
                if isinstance(init, (ast.List, ast.Dict, ast.Set)) or (
                    isinstance(init, ast.Call) and dotted(init.func) in ("list", "dict", "set", "IdMap", "IdSet")
                ):
                    rebound = False
                    for n in ast.walk(f.cls):
                        if isinstance(n, (ast.Assign, ast.AnnAssign)):
                            tg = n.targets if isinstance(n, ast.Assign) else [n.target]
                            for t in tg:
                                if isinstance(t, ast.Attribute) and t.attr == target.attr and isinstance(t.value, ast.Name) and t.value.id == "self":
                                    rebound = True
                    if not rebound:
                        cq = f.qualname.rsplit(".", 1)[0].split("#")[0]
                        return f"{mod.rel}::{cq}.{target.attr}"
            # cls.attr in classmethod / self.__class__.attr / type(self).attr
            if f.cls is not None:
                is_cls = False
                if isinstance(base, ast.Name) and base.id == first_arg and (
                    "classmethod" in [dotted(d) for d in f.node.decorator_list if dotted(d)]
                    or first_arg in ("cls", "mcs")
                ):
                    is_cls = True
                if isinstance(base, ast.Attribute) and base.attr == "__class__":
                    is_cls = True
                if isinstance(base, ast.Call) and dotted(base.func) == "type" and len(base.args) == 1:
                    is_cls = True
                if is_cls:
                    cq = f.qualname.rsplit(".", 1)[0].split("#")[0]
                    return f"{mod.rel}::{cq}.{target.attr}"
        return None

    def _add(self, binding, kind, mod, f, node, value=None):
        stmt = mod.parents.enclosing_stmt(node)
        self.sites.append(Site(binding, kind, mod, f, stmt, node, value))

    def _scan_node(self, mod, f, n, shadow, first_arg):
        if isinstance(n, ast.Assign):
            for t in n.targets:
                self._scan_target(mod, f, t, n, shadow, first_arg, n.value)
        elif isinstance(n, ast.AnnAssign) and n.value is not None:
            self._scan_target(mod, f, n.target, n, shadow, first_arg, n.value)
        elif isinstance(n, ast.AugAssign):
            b = None
            t = n.target
            if isinstance(t, ast.Name):
                # only a mutation of a global when declared global (otherwise local)
                if t.id not in shadow:
                    b, _ = self._resolve_global(mod, t.id)
            elif isinstance(t, ast.Attribute):
                b = self._binding_of(mod, f, t, shadow, first_arg)
            elif isinstance(t, ast.Subscript):
                b = self._binding_of(mod, f, t.value, shadow, first_arg)
            if b:
                self._add(b, "augassign", mod, f, n, n.value)
        elif isinstance(n, ast.Delete):
            for t in n.targets:
                if isinstance(t, ast.Subscript):
                    b = self._binding_of(mod, f, t.value, shadow, first_arg)
                    if b:
                        self._add(b, "delitem", mod, f, n)
        elif isinstance(n, ast.Call) and isinstance(n.func, ast.Attribute) and n.func.attr in MUTATORS:
            b = self._binding_of(mod, f, n.func.value, shadow, first_arg)
            if b:
                self._add(b, "mutate:" + n.func.attr, mod, f, n)

    def _scan_target(self, mod, f, t, stmt, shadow, first_arg, value):
        if isinstance(t, (ast.Tuple, ast.List)):
            for e in t.elts:
                self._scan_target(mod, f, e, stmt, shadow, first_arg, None)
            return
        if isinstance(t, ast.Name):
            # rebinding a module global requires `global` (then it is not in shadow)
            if t.id in shadow:
                return
            declared = any(
                isinstance(g, ast.Global) and t.id in g.names for g in walk_local(f.node, include_self=False)
            )
            if not declared:
                return
            b, _ = self._resolve_global(mod, t.id)
            if b is None:
                b = f"{mod.rel}::{t.id}"
            self._add(b, "rebind", mod, f, stmt, value)
        elif isinstance(t, ast.Attribute):
            b = self._binding_of(mod, f, t, shadow, first_arg)
            if b:
                self._add(b, "rebind", mod, f, stmt, value)
        elif isinstance(t, ast.Subscript):
            b = self._binding_of(mod, f, t.value, shadow, first_arg)
            if b:
                self._add(b, "setitem", mod, f, stmt, value)

    def by_binding(self) -> dict[str, list[Site]]:
        out: dict[str, list[Site]] = {}
        for s in self.sites:
            out.setdefault(s.binding, []).append(s)
        return out


# =============================================================================
# pairing analysis (Engler set/reset rule with one-level wrapper lifting)
# =============================================================================

RESET_MUTATORS = {"pop", "clear", "remove", "discard", "popitem"}
COPY_CALLS = {"list", "set", "dict", "tuple", "frozenset"}
BOUNDARY_FUNCS = [
    ("cohdl/std/_compile.py", "VhdlCompiler.to_ir"),
    ("cohdl/std/_compile.py", "VhdlCompiler.to_vhdl_library"),
    ("cohdl/_compiler/frontend/_frontend.py", "generate_internal_representation"),
]


def _is_neutral(v: ast.AST | None, initial: ast.AST | None) -> bool:
    if v is None:
        return False
    if isinstance(v, ast.Constant) and v.value in (None, 0, False):
        return True
    if isinstance(v, (ast.List, ast.Dict, ast.Set, ast.Tuple)) and not (
        getattr(v, "elts", None) or getattr(v, "keys", None)
    ):
        return True
    if isinstance(v, ast.Call) and dotted(v.func) in COPY_CALLS | {"IdMap", "IdSet"} and not v.args:
        return True
    if initial is not None and norm(v) == norm(initial) and not isinstance(v, ast.Name):
        return True
    return False


class Pairing:
    def __init__(self, inv: Inventory):
        self.inv = inv
        self.idx = inv.idx
        self.sites_by_binding = inv.by_binding()
        self._initial: dict[str, ast.AST | None] = {}
        self.polarity: dict[int, str] = {}  # id(site) -> SET / RESET
        self.setters: dict[str, dict[str, list[Site]]] = {}
        self.resetters: dict[str, set[str]] = {}
        self.param_wrappers: dict[str, dict[str, int]] = {}
        self.func_by_key: dict[str, object] = {}
        for m in inv.mods:
            for q, f in m.functions.items():
                self.func_by_key[f"{m.rel}::{q}"] = f
        self._calls_cache = None
        for b in self.sites_by_binding:
            self._classify_binding(b)
        self._boundary_cache: dict[str, list[str]] = {}
        self._boundary_guards: dict[str, list[str]] = {}

    # ---------------------------------------------------------------- basics
    def initial(self, binding: str):
        if binding in self._initial:
            return self._initial[binding]
        rel, name = binding.split("::")
        mod = self.idx.modules.get(rel)
        val = None
        if mod is not None:
            if "." in name:
                cq, attr = name.rsplit(".", 1)
                c = mod.classes.get(cq)
                if c is not None:
                    val = class_attrs(c).get(attr)
            else:
                val = module_globals(mod).get(name)
        self._initial[binding] = val
        return val

    @staticmethod
    def fkey(f) -> str:
        return f"{f.module.rel}::{f.qualname}"

    def _denotes(self, mod, f, expr, binding) -> bool:
        """expr is the binding itself or a shallow copy of it."""
        if expr is None:
            return False
        if isinstance(expr, ast.Call):
            fn = dotted(expr.func)
            if fn in COPY_CALLS and len(expr.args) == 1:
                return self._denotes(mod, f, expr.args[0], binding)
            if isinstance(expr.func, ast.Attribute) and expr.func.attr == "copy" and not expr.args:
                return self._denotes(mod, f, expr.func.value, binding)
            return False
        if isinstance(expr, ast.Starred):
            return self._denotes(mod, f, expr.value, binding)
        if isinstance(expr, ast.List) and len(expr.elts) == 1 and isinstance(expr.elts[0], ast.Starred):
            return self._denotes(mod, f, expr.elts[0].value, binding)
        a = f.node.args
        allargs = a.posonlyargs + a.args
        first_arg = allargs[0].arg if (f.cls is not None and allargs) else None
        shadow = _local_names(f.node)
        b = self.inv._binding_of(mod, f, expr, shadow, first_arg)
        return b == binding

    def _saved_names(self, mod, f, binding) -> set[str]:
        key = (id(f.node), binding)
        c = self.__dict__.setdefault("_saved_cache", {})
        if key not in c:
            c[key] = self._saved_names_uncached(mod, f, binding)
        return c[key]

    def _saved_names_uncached(self, mod, f, binding) -> set[str]:
        """names / self-attributes that hold a snapshot of the binding (`prev = S`)."""
        out = set()
        scopes = [f]
        if f.cls is not None:
            cq = f.qualname.rsplit(".", 1)[0]
            scopes = [g for k, g in mod.functions.items() if k.rsplit(".", 1)[0] == cq and g.cls is f.cls]
        for g in scopes:
            for n in walk_local(g.node, include_self=False):
                if isinstance(n, ast.Assign) and len(n.targets) == 1:
                    t = n.targets[0]
                    if self._denotes(mod, g, n.value, binding):
                        if isinstance(t, ast.Name) and g is f:
                            out.add(t.id)
                        elif isinstance(t, ast.Attribute) and dotted(t):
                            out.add(dotted(t))
                    elif isinstance(t, ast.Tuple) and isinstance(n.value, ast.Tuple):
                        for tt, vv in zip(t.elts, n.value.elts):
                            if self._denotes(mod, g, vv, binding):
                                if isinstance(tt, ast.Name) and g is f:
                                    out.add(tt.id)
                                elif dotted(tt):
                                    out.add(dotted(tt))
        return out

    def _classify_binding(self, binding):
        sites = self.sites_by_binding[binding]
        init = self.initial(binding)
        self.setters[binding] = {}
        self.resetters[binding] = set()
        self.param_wrappers[binding] = {}
        for s in sites:
            pol = self._site_polarity(s, binding, init)
            self.polarity[id(s)] = pol
            k = self.fkey(s.func)
            if pol == "SET":
                self.setters[binding].setdefault(k, []).append(s)
            elif pol == "RESET":
                self.resetters[binding].add(k)
            elif pol.startswith("PARAM:"):
                self.param_wrappers[binding][k] = int(pol.split(":")[1])

    def _site_polarity(self, s: Site, binding, init) -> str:
        kind = s.kind
        if kind.startswith("mutate:"):
            return "RESET" if kind.split(":")[1] in RESET_MUTATORS else "SET"
        if kind == "delitem":
            return "RESET"
        if kind == "augassign":
            return "SET"
        v = s.value
        full_slice = False
        if kind == "setitem":
            tgt = s.stmt.targets[0] if isinstance(s.stmt, ast.Assign) else None
            if isinstance(tgt, ast.Subscript) and isinstance(tgt.slice, ast.Slice) and (
                tgt.slice.lower is None and tgt.slice.upper is None
            ):
                full_slice = True
            else:
                return "SET"
        if kind == "rebind" or full_slice:
            if v is None:
                return "SET"
            if _is_neutral(v, init):
                return "RESET"
            saved = self._saved_names(s.module, s.func, binding)
            d = dotted(v)
            if d is not None and d in saved:
                return "RESET"
            # parameter passed through: polarity decided at the call site
            if isinstance(v, ast.Name):
                a = s.func.node.args
                names = [x.arg for x in a.posonlyargs + a.args]
                if v.id in names:
                    return f"PARAM:{names.index(v.id)}"
            return "SET"
        return "SET"

    # ---------------------------------------------------------------- calls
    def all_calls(self):
        """(module, enclosing FuncInfo, Call node) for every call inside a function."""
        if self._calls_cache is None:
            out = []
            for m in self.inv.mods:
                for q, f in m.functions.items():
                    for n in walk_local(f.node, include_self=False):
                        if isinstance(n, ast.Call):
                            out.append((m, f, n))
            self._calls_cache = out
        return self._calls_cache

    def resolve_call(self, mod, f, call: ast.Call, candidates: set[str]):
        """resolve a call to one of `candidates` (function keys); conservative by-name fallback."""
        fn = call.func
        name = None
        if isinstance(fn, ast.Name):
            name = fn.id
            if name in mod.functions:
                k = f"{mod.rel}::{name}"
                return k if k in candidates else None
            # nested helper defined in the same function
            r = self.idx.resolve_import(mod, name)
            if r is not None:
                m2, n2 = r
                k = f"{m2.rel}::{n2}"
                return k if k in candidates else None
            return None
        if isinstance(fn, ast.Attribute):
            meth = fn.attr
            base = fn.value
            # Class.method / mod.Class.method
            cname = None
            if isinstance(base, ast.Name):
                cname = base.id
            elif isinstance(base, ast.Attribute):
                cname = base.attr
            hits = [k for k in candidates if k.split("::")[1].split(".")[-1].split("#")[0] == meth]
            if not hits:
                return None
            if cname is not None:
                exact = [k for k in hits if k.split("::")[1].rsplit(".", 1)[0].split(".")[-1] == cname]
                if exact:
                    return exact[0]
            if isinstance(base, ast.Name) and base.id in ("self", "cls") and f.cls is not None:
                cq = f.qualname.rsplit(".", 1)[0]
                own = [k for k in hits if k == f"{mod.rel}::{cq}.{meth}"]
                if own:
                    return own[0]
                if f"{cq}.{meth}" in mod.functions:
                    return None  # resolves to a method of the own class that is no candidate
            # by-name fallback only when the method name is unique in the whole package
            if meth not in MUTATORS and not meth.startswith("__"):
                allnamed = self._by_method_name().get(meth, [])
                if len(allnamed) == 1 and allnamed[0] in candidates:
                    return allnamed[0]
        return None

    def _by_method_name(self):
        if getattr(self, "_mn", None) is None:
            self._mn = {}
            for k in self.func_by_key:
                self._mn.setdefault(k.split("::")[1].split(".")[-1].split("#")[0], []).append(k)
        return self._mn

    # ------------------------------------------------------------ reset detection
    def _stmts_have_reset(self, mod, f, stmts, binding) -> bool:
        nodes = set()
        for st in stmts:
            for n in walk_local(st):
                nodes.add(id(n))
        for s in self.sites_by_binding.get(binding, []):
            if s.func is f and self.polarity[id(s)] == "RESET" and id(s.node) in nodes:
                return True
        cands = set(self.resetters[binding]) | set(self.param_wrappers[binding])
        for st in stmts:
            for n in walk_local(st):
                if isinstance(n, ast.Call):
                    k = self.resolve_call(mod, f, n, cands)
                    if k is None:
                        continue
                    if k in self.resetters[binding]:
                        return True
                    if k in self.param_wrappers[binding]:
                        i = self.param_wrappers[binding][k]
                        tgt = self.func_by_key[k]
                        off = 1 if (tgt.cls is not None and isinstance(n.func, ast.Attribute) and dotted(n.func.value) not in (None,) and not self._is_class_ref(mod, n.func.value)) else 0
                        j = i - off
                        if 0 <= j < len(n.args) and _is_neutral(n.args[j], None):
                            return True
        return False

    def _is_class_ref(self, mod, expr) -> bool:
        d = dotted(expr)
        if d is None:
            return False
        last = d.split(".")[-1]
        return last in self.inv.class_by_name

    def protection(self, mod, f, node, binding) -> str | None:
        """how a SET occurrence at `node` inside f is protected against exceptions."""
        pm = mod.parents
        cur = node
        for anc in pm.ancestors(node):
            if anc is f.node:
                break
            if isinstance(anc, ast.Try):
                in_body = any(cur is b or self._contains(b, cur) for b in anc.body)
                if in_body:
                    if anc.finalbody and self._stmts_have_reset(mod, f, anc.finalbody, binding):
                        return "finally"
                    for h in anc.handlers:
                        catches_all = h.type is None or dotted(h.type) in ("BaseException",)
                        if (
                            catches_all
                            and h.body
                            and isinstance(h.body[-1], ast.Raise)
                            and h.body[-1].exc is None
                            and self._stmts_have_reset(mod, f, h.body, binding)
                        ):
                            return "except-reraise"
            cur = anc
        # later sibling try with a resetting finally (prev = S; S = v; try: .. finally: S = prev)
        stmt = pm.enclosing_stmt(node)
        parent = pm.of(stmt)
        fieldname = pm.field_of(stmt)
        block = getattr(parent, fieldname, None) if fieldname else None
        if isinstance(block, list) and stmt in block:
            i = block.index(stmt)
            for later in block[i + 1:]:
                if isinstance(later, ast.Try):
                    if later.finalbody and self._stmts_have_reset(mod, f, later.finalbody, binding):
                        return "finally-sibling"
                    break
                # statements between the set and the try must not be able to raise
                if any(isinstance(n, (ast.Call, ast.Subscript, ast.Raise, ast.Assert)) for n in walk_local(later)):
                    # a plain `x = []` / `S2 = name` is fine; anything calling out is not
                    if not self._is_simple_store(later):
                        break
        # context-manager pair
        name = f.qualname.rsplit(".", 1)[-1].split("#")[0]
        if name in ("__enter__", "__aenter__") and f.cls is not None:
            cq = f.qualname.rsplit(".", 1)[0]
            ex = mod.functions.get(f"{cq}.__exit__") or mod.functions.get(f"{cq}.__aexit__")
            traced = {"_intrinsic", "pyeval", "_intrinsic.pyeval"}
            if ex is not None and not (set(decorator_names(f.node)) | set(decorator_names(ex.node))) & traced:
                if self._stmts_have_reset(mod, ex, ex.node.body, binding):
                    return "context-manager"
        return None

    @staticmethod
    def _is_simple_store(stmt) -> bool:
        if isinstance(stmt, ast.Assign):
            v = stmt.value
            return isinstance(v, (ast.Name, ast.Constant, ast.Attribute)) or (
                isinstance(v, (ast.List, ast.Dict, ast.Tuple)) and not list(ast.iter_child_nodes(v))[:-1]
            )
        return False

    @staticmethod
    def _contains(root, node) -> bool:
        return any(n is node for n in ast.walk(root))

    def reset_guards(self, mod, f, stmts, binding) -> list[str]:
        """conditions (normalised source of if-tests) under which the direct RESET sites in stmts run."""
        nodes = {}
        for st in stmts:
            for n in walk_local(st):
                nodes[id(n)] = n
        out = []
        for s in self.sites_by_binding.get(binding, []):
            if s.func is f and self.polarity[id(s)] == "RESET" and id(s.node) in nodes:
                cur = s.node
                # guards by early exit: `if c: continue/return/break` before the reset in an enclosing block
                chain = [mod.parents.enclosing_stmt(s.node)] + [a for a in mod.parents.ancestors(mod.parents.enclosing_stmt(s.node)) if isinstance(a, ast.stmt)]
                for st in chain:
                    if st is f.node:
                        break
                    par = mod.parents.of(st)
                    fld = mod.parents.field_of(st)
                    block = getattr(par, fld, None) if fld else None
                    if isinstance(block, list) and st in block:
                        for prev in block[: block.index(st)]:
                            if isinstance(prev, ast.If) and prev.body and isinstance(prev.body[-1], (ast.Continue, ast.Return, ast.Break, ast.Raise)):
                                out.append("unless " + src(prev.test))
                for anc in mod.parents.ancestors(s.node):
                    if anc is f.node:
                        break
                    if isinstance(anc, ast.If):
                        from ..pattern import T as _T
                        out.append(_T(anc.test))  # text that compares structurally (locals as metavariables)
                    elif isinstance(anc, (ast.While,)):
                        out.append("while " + src(anc.test))
                    elif isinstance(anc, ast.Try) and any(cur is h or self._contains(h, cur) for h in anc.handlers):
                        out.append("except-handler")
                    cur = anc
                # an early return before the reset makes it conditional as well
                for n in walk_local(f.node, include_self=False):
                    if isinstance(n, ast.Return) and n.lineno < s.node.lineno:
                        out.append("early return")
        return out

    # ---------------------------------------------------------------- boundary
    def boundary_guards(self, binding) -> list[str]:
        self.boundary_resets(binding)
        return self._boundary_guards.get(binding, [])

    def boundary_resets(self, binding) -> list[str]:
        """where the compile boundary resets/restores the binding (list of site descriptions)."""
        if binding in self._boundary_cache:
            return self._boundary_cache[binding]
        out = []
        for rel, q in BOUNDARY_FUNCS:
            mod = self.idx.modules.get(rel)
            if mod is None or q not in mod.functions:
                continue
            f = mod.functions[q]
            for n in walk_local(f.node, include_self=False):
                if isinstance(n, ast.Try) and n.finalbody:
                    if self._stmts_have_reset(mod, f, n.finalbody, binding):
                        out.append(f"{rel}::{q} finally")
                if isinstance(n, (ast.With, ast.AsyncWith)):
                    for item in n.items:
                        ce = item.context_expr
                        if isinstance(ce, ast.Call):
                            cname = dotted(ce.func)
                            if cname is None:
                                continue
                            r = self.inv._resolve_class(mod, cname.split(".")[-1])
                            if r is None:
                                continue
                            m2, q2, c2 = r
                            for exn in ("__exit__",):
                                ex = m2.functions.get(f"{q2}.{exn}")
                                if ex is not None and self._stmts_have_reset(m2, ex, ex.node.body, binding):
                                    out.append(f"{m2.rel}::{q2}.{exn}")
                                    self.__dict__.setdefault("_boundary_guards", {}).setdefault(binding, []).extend(
                                        self.reset_guards(m2, ex, ex.node.body, binding)
                                    )
        self._boundary_cache[binding] = out
        return out

    # ---------------------------------------------------------------- verdict
    def check_binding(self, binding, max_depth=3):
        """-> list of (site, status, detail). status in protected/boundary/unprotected."""
        results = []
        boundary = self.boundary_resets(binding)
        for fk, sites in sorted(self.setters[binding].items()):
            f = self.func_by_key[fk]
            for s in sites:
                how = self.protection(s.module, s.func, s.node, binding)
                if how:
                    results.append((s, "protected", how))
                    continue
                lifted = self._lift(fk, binding, max_depth, set())
                if lifted is True:
                    results.append((s, "protected", "callers"))
                elif boundary:
                    results.append((s, "boundary", "; ".join(boundary)))
                else:
                    results.append((s, "unprotected", lifted if isinstance(lifted, str) else "no caller protects it"))
        # parameter wrappers: every call with a non-neutral argument is a SET occurrence
        for fk, i in sorted(self.param_wrappers[binding].items()):
            tgt = self.func_by_key[fk]
            for (m, f, call) in self.all_calls():
                if self.resolve_call(m, f, call, {fk}) != fk:
                    continue
                j = i
                if j < len(call.args) and _is_neutral(call.args[j], None):
                    continue
                how = self.protection(m, f, call, binding)
                site = Site(binding, "call:" + tgt.qualname, m, f, m.parents.enclosing_stmt(call), call)
                if how:
                    results.append((site, "protected", how))
                elif boundary:
                    results.append((site, "boundary", "; ".join(boundary)))
                else:
                    results.append((site, "unprotected", "wrapper call without restore"))
        return results

    def _lift(self, fk, binding, depth, seen):
        """are all call sites of setter function fk protected?  True / reason string."""
        if depth == 0 or fk in seen:
            return "lifting depth exhausted"
        seen = seen | {fk}
        callers = [(m, f, c) for (m, f, c) in self.all_calls() if self.resolve_call(m, f, c, {fk}) == fk]
        if not callers:
            return "no resolvable host caller (called from traced code or externally)"
        for m, f, c in callers:
            how = self.protection(m, f, c, binding)
            if how:
                continue
            sub = self._lift(self.fkey(f), binding, depth - 1, seen)
            if sub is not True:
                return f"call in {f.qualname} ({m.rel}:{c.lineno}) is not protected"
        return True
