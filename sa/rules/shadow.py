"""F-SHADOW - a kind test that can never be reached.

In a chain of exclusive branches (if/elif, or consecutive `if` statements whose bodies leave the function) a test
`isinstance(v, A)` / `issubclass(v, A)` placed AFTER an unconditional test of the same variable for a superclass B of A
is dead: values of kind A take the B branch.  The class hierarchy is read from the package's own class definitions
(Unsigned, Signed < BitVector; Port < Signal; ...).  This is the contradiction pattern of Engler et al.: the later
branch states the belief that kind A needs its own treatment, the earlier branch makes that treatment unreachable."""

from __future__ import annotations

import ast

from ..astutil import AnalysisError, dotted, src, terminates


def hierarchy(idx):
    """simple class name -> set of (transitive) base simple names, over the whole package; ambiguous names are dropped"""
    direct: dict[str, set] = {}
    seen_in: dict[str, int] = {}
    for m in idx.all_modules("cohdl/"):
        for q, c in m.classes.items():
            name = q.split(".")[-1]
            bases = {(dotted(b) or "").split(".")[-1].split("[")[0] for b in c.bases if dotted(b) or isinstance(b, ast.Subscript)}
            for b in c.bases:
                if isinstance(b, ast.Subscript):
                    bases.add((dotted(b.value) or "").split(".")[-1])
            seen_in[name] = seen_in.get(name, 0) + 1
            direct.setdefault(name, set()).update(x for x in bases if x)
    ambiguous = {n for n, k in seen_in.items() if k > 1}
    out = {}
    for n in direct:
        if n in ambiguous:
            continue
        acc, todo = set(), list(direct[n])
        while todo:
            b = todo.pop()
            if b in acc or b in ambiguous:
                continue
            acc.add(b)
            todo.extend(direct.get(b, ()))
        out[n] = acc
    return out


def _kind_test(t):
    """-> (func, var, [class simple names]) for a bare isinstance/issubclass test, else None"""
    if isinstance(t, ast.Call) and dotted(t.func) in ("isinstance", "issubclass") and len(t.args) == 2:
        v = dotted(t.args[0]) or src(t.args[0])
        c = t.args[1]
        elts = c.elts if isinstance(c, ast.Tuple) else [c]
        names = []
        for e in elts:
            d = dotted(e)
            if d is None and isinstance(e, ast.Subscript):
                return None  # parametrised class: not a pure kind test
            if d is None:
                return None
            names.append(d.split(".")[-1])
        return dotted(t.func), v, names
    return None


def _conjuncts(t):
    if isinstance(t, ast.BoolOp) and isinstance(t.op, ast.And):
        return list(t.values)
    return [t]


def chains(fn):
    """exclusive branch sequences of a function: [(test, stmt)]"""
    out = []
    for node in ast.walk(fn):
        for fld in ("body", "orelse", "finalbody"):
            block = getattr(node, fld, None)
            if not isinstance(block, list) or not block or not isinstance(block[0], ast.stmt):
                continue
            cur = []
            for st in block:
                if isinstance(st, ast.If):
                    # unfold the elif chain
                    chain = []
                    n = st
                    while isinstance(n, ast.If):
                        chain.append((n.test, n))
                        n = n.orelse[0] if len(n.orelse) == 1 and isinstance(n.orelse[0], ast.If) else None
                    if len(chain) > 1:
                        out.append(chain)
                    # consecutive ifs whose bodies leave: still exclusive with what follows
                    if terminates(st.body) and not st.orelse:
                        cur.append((st.test, st))
                        continue
                if len(cur) > 1:
                    out.append(cur)
                cur = []
                if isinstance(st, ast.If) and terminates(st.body) and not st.orelse:
                    cur = [(st.test, st)]
            if len(cur) > 1:
                out.append(cur)
    return out


def shadowed(idx, modules):
    hier = hierarchy(idx)
    res, n_chains = [], 0
    for m in modules:
        for q, f in m.functions.items():
            for chain in chains(f.node):
                n_chains += 1
                earlier = []  # (func, var, names, node) of unconditional kind tests
                for test, node in chain:
                    for cj in _conjuncts(test):
                        k = _kind_test(cj)
                        if k is None:
                            continue
                        fn_, v, names = k
                        for (f0, v0, names0, node0) in earlier:
                            if f0 == fn_ and v0 == v and names and all(any(b in hier.get(a, ()) for b in names0) for a in names):
                                res.append((m, q, node, f"{fn_}({v}, {'/'.join(names)}) follows the test for its superclass {'/'.join(names0)} at line {node0.lineno}"))
                    k = _kind_test(test)
                    if k is not None:
                        earlier.append((*k, node))
    return res, n_chains


def run_rule(run, rule_id="F-SHADOW", prefixes=("cohdl/",)):
    run.begin(
        rule_id,
        "no kind test is shadowed: in a chain of exclusive branches a test for class A never follows an unconditional "
        "test of the same variable for a superclass of A (the A branch would be dead and A values would be treated as B)",
        floor=1,
    )
    mods = [m for p in prefixes for m in run.idx.all_modules(p)]
    res, n = shadowed(run.idx, mods)
    for m, q, node, why in res:
        run.ob(False, f"{m.rel.split('/')[-1]}::{q}", file=m.rel, line=node.lineno, detail=src(node.test)[:60], expected="reachable branch", found=why)
    run.ob(True, "package", file="cohdl/", line=0, detail="chains", expected="no shadowed kind test", found=f"{n} exclusive branch chains examined, {len(res)} shadowed tests")
    if n < 50:
        raise AnalysisError(f"{rule_id}: only {n} branch chains found")
    # positive control (expected count on the tree is zero): the rule must fire on a known-bad fragment on every run
    from ..index import ModuleInfo
    ctl = ModuleInfo("cohdl/_verif_control_shadow.py", CONTROL)
    cres, _ = shadowed(run.idx, [ctl])
    if len(cres) != 1:
        raise AnalysisError(f"{rule_id}: positive control did not fire ({len(cres)} reports)")
    run.note("positive control fired: " + cres[0][3])
    run.end()


CONTROL = """
def fmt(vhdl_type, value_type, s):
    if issubclass(vhdl_type, Signed):
        if issubclass(value_type, BitVector):
            return "std_logic_vector(" + s + ")"
        if issubclass(value_type, Unsigned):
            return "unsigned(std_logic_vector(" + s + "))"
    return s
"""
