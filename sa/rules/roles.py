"""F-ROLE - IR access roles.

For every IR statement class: which fields `visit_objects` presents to the callback
and with which flag; compared with the role the back-end assembler gives the same
field (vhdl.Target(..) => driven, vhdl.Value/Constant(..) => read).
"""

from __future__ import annotations

import ast

from ..astutil import AnalysisError, dotted, src, walk_local, calls_in

IRR = "cohdl/_core/_ir/_repr.py"
ASM = "cohdl/_compiler/backend/vhdl/_vhdl_assembler.py"


def flag_names(e: ast.AST):
    """AccessFlags.X -> ['X']; IfExp -> both arms; BinOp(|) -> ['X|Y'] (combined flag)."""
    d = dotted(e)
    if d and d.startswith("AccessFlags."):
        return [d.split(".")[1]]
    if isinstance(e, ast.IfExp):
        return flag_names(e.body) + flag_names(e.orelse)
    if isinstance(e, ast.BinOp) and isinstance(e.op, ast.BitOr):
        return ["|".join(flag_names(e.left) + flag_names(e.right))]
    if isinstance(e, ast.Name):
        return ["?" + e.id]
    return ["?"]


def field_of(arg: ast.AST, call: ast.Call, fn: ast.AST, pm) -> str:
    """which field of `self` the visited object comes from."""
    d = dotted(arg)
    if d and d.startswith("self."):
        return d.split(".", 1)[1]
    # element of an iteration over a field
    names = {n.id for n in ast.walk(arg) if isinstance(n, ast.Name)}
    for anc in pm.ancestors(call):
        gens = []
        if isinstance(anc, (ast.ListComp, ast.GeneratorExp, ast.SetComp)):
            gens = [(g.target, g.iter) for g in anc.generators]
        elif isinstance(anc, ast.For):
            gens = [(anc.target, anc.iter)]
        for tgt, it in gens:
            tnames = {n.id for n in ast.walk(tgt) if isinstance(n, ast.Name)}
            if names & tnames:
                base = dotted(it)
                if base and base.startswith("self."):
                    sub = d.split(".", 1)[1] if d and "." in d else ""
                    return base.split(".", 1)[1] + "[*]" + ("." + sub if sub else "")
                if isinstance(it, ast.Name):
                    # local alias of a field: signals = self._sensitivity.signals
                    for n in walk_local(fn):
                        if isinstance(n, ast.Assign) and dotted(n.targets[0]) == it.id and (dotted(n.value) or "").startswith("self."):
                            return dotted(n.value).split(".", 1)[1] + "[*]"
                    return it.id + "[*]"
        if anc is fn:
            break
    return src(arg)


def visit_table(idx):
    """-> {class: {"flags": {field: set(flags)}, "recurse": [field], "fn": FuncInfo, "bases": [...]}}"""
    m = idx.mod(IRR)
    out = {}
    for cname, c in m.classes.items():
        if "." in cname:
            continue
        vo = m.functions.get(f"{cname}.visit_objects")
        bases = [dotted(b) for b in c.bases if dotted(b)]
        entry = {"flags": {}, "recurse": [], "fn": vo, "bases": bases, "line": c.lineno, "super": False}
        if vo is not None:
            for n in ast.walk(vo.node):
                if isinstance(n, ast.Call):
                    f = dotted(n.func) or ""
                    if f == "operation" and len(n.args) == 2:
                        fld = field_of(n.args[0], n, vo.node, m.parents)
                        fl = n.args[1]
                        if isinstance(fl, ast.Name):
                            defs = [a.value for a in ast.walk(vo.node) if isinstance(a, ast.Assign) and dotted(a.targets[0]) == fl.id]
                            if len(defs) == 1:
                                fl = defs[0]
                        entry["flags"].setdefault(fld, set()).update(flag_names(fl))
                    elif isinstance(n.func, ast.Attribute) and n.func.attr == "visit_objects":
                        if isinstance(n.func.value, ast.Call) and dotted(n.func.value.func) == "super":
                            entry["super"] = True
                        else:
                            entry["recurse"].append(src(n.func.value))
        out[cname] = entry
    return m, out


def effective_flags(table, cname, field):
    """flags of a field including inherited visit_objects (Expression._result)."""
    seen = set()
    c = cname
    while c in table and c not in seen:
        seen.add(c)
        e = table[c]
        if field in e["flags"]:
            return e["flags"][field]
        if e["fn"] is not None and not e["super"] and c != cname:
            break
        nxt = [b for b in e["bases"] if b in table]
        if not nxt:
            break
        # a subclass that defines visit_objects without calling super() hides the base
        if e["fn"] is not None and not e["super"] and c == cname:
            return e["flags"].get(field, set())
        c = nxt[0]
    return set()


def assembler_roles(idx):
    """-> {ir class: {field: 'driven'|'read'}} from _StmtAssembler.apply"""
    m = idx.mod(ASM)
    f = m.func("_StmtAssembler.apply")
    out = {}
    for s in f.node.body:
        if not (isinstance(s, ast.If) and isinstance(s.test, ast.Call) and dotted(s.test.func) == "isinstance"):
            continue
        c = s.test.args[1]
        classes = [dotted(x) for x in ast.walk(c) if isinstance(x, ast.Attribute) and (dotted(x) or "").startswith("ir.")]
        roles = {}
        for n in ast.walk(ast.Module(body=s.body, type_ignores=[])):
            if isinstance(n, ast.Call):
                fn = dotted(n.func)
                if fn in ("vhdl.Target", "vhdl.Value", "vhdl.Constant") and n.args:
                    a = n.args[0]
                    d = dotted(a)
                    fld = None
                    if d and d.startswith("inp."):
                        fld = d.split(".", 1)[1]
                    elif isinstance(a, ast.Call) and dotted(a.func) == "inp.result":
                        fld = "_result"
                    if fld:
                        roles.setdefault(fld, set()).add("driven" if fn == "vhdl.Target" else "read")
                if fn == "assign_temporary" and n.args:
                    a = n.args[0]
                    if isinstance(a, ast.Call) and dotted(a.func) == "inp.result":
                        roles.setdefault("_result", set()).add("driven")
                    elif dotted(a) == "inp.result":
                        roles.setdefault("result", set()).add("driven")
        for cl in classes:
            out.setdefault(cl.split(".")[1], {}).update({k: set(v) for k, v in roles.items()})
    return m, out


# ---------------------------------------------------------------------------- write-back of visited objects
WRITEBACK_EXCEPTIONS = {
    # (class, field): reason  -- reviewed; each entry is re-verified structurally (the call must still have that shape)
    ("Sequential", "_sensitivity.signals[*]"): "sensitivity entries are root Signals of the entity; no rewriting callback maps a root Signal to another "
    "object (alias maps apply to reads inside CodeBlocks, temporaries cannot be sensitivity entries), so the dropped result is unobservable",
}


def _iter_root(fn, name, depth=0):
    """the field of self (or '<operand>' for a nested helper's parameter) whose elements the loop variable `name` ranges over"""
    if depth > 4:
        return None
    for l in ast.walk(fn):
        if isinstance(l, ast.For) and any(isinstance(x, ast.Name) and x.id == name for x in ast.walk(l.target)):
            d = dotted(l.iter) or ""
            if d.startswith("self."):
                return d.split(".", 1)[1].split(".")[0]
            base = d.split(".")[0]
            if base:
                for g in ast.walk(fn):
                    if isinstance(g, (ast.FunctionDef, ast.AsyncFunctionDef)) and g is not fn and base in [a.arg for a in g.args.args]:
                        return "<operand>"
                r = _iter_root(fn, base, depth + 1)
                if r is not None:
                    return r
    return None


def _mentions(e, names):
    return any(isinstance(n, ast.Name) and n.id in names for n in ast.walk(e))


def writeback_problems(idx):
    """visit_objects is a REWRITING traversal (alias redirection, temporary replacement, bool-cast removal all work
    by returning a different object from the callback).  The value of every `operation(<field>, flag)` must flow back
    into the field it was read from: directly (`self.F = operation(self.F, ..)`), through a comprehension over the
    field, or through locals / appended lists / a nested helper's return value that end in `self.F = ..`.
    -> (module, problems [(class, field, line, found)], number of calls whose value flows back)"""
    m = idx.mod(IRR)
    pm = m.parents
    out, n_ok = [], []
    for cname, c in m.classes.items():
        if "." in cname:
            continue
        vo = m.functions.get(f"{cname}.visit_objects")
        if vo is None:
            continue
        fn = vo.node
        for n in ast.walk(fn):
            if not (isinstance(n, ast.Call) and dotted(n.func) == "operation" and len(n.args) == 2):
                continue
            fld = field_of(n.args[0], n, fn, pm)
            is_self_field = not fld.split("[")[0].split(".")[0].isidentifier() or any(
                (dotted(a) or "").startswith("self." + fld.split("[")[0].split(".")[0]) for a in ast.walk(fn) if isinstance(a, ast.Attribute))
            base_field = fld.split("[")[0].split(".")[0]
            # forward flow of the call's value through names
            carriers = set()
            stores = set()   # self fields the value reaches
            stmt = pm.enclosing_stmt(n)

            def absorb(st, seed):
                """st consumes a carried value (seed: the call node itself for the first statement)"""
                carried = lambda e: (seed is not None and any(x is seed for x in ast.walk(e))) or _mentions(e, carriers)
                changed = False
                if isinstance(st, (ast.Assign, ast.AnnAssign)) and st.value is not None and carried(st.value):
                    tg = st.targets[0] if isinstance(st, ast.Assign) else st.target
                    d = dotted(tg)
                    if d and d.startswith("self."):
                        f_ = d.split(".", 1)[1].split(".")[0]
                        if f_ not in stores:
                            stores.add(f_); changed = True
                    elif isinstance(tg, ast.Name) and tg.id not in carriers:
                        carriers.add(tg.id); changed = True
                    elif isinstance(tg, ast.Attribute) and isinstance(tg.value, ast.Name):
                        # attribute of an element reached by iterating over a field (for x in self.F: x.attr = ..)
                        root = _iter_root(fn, tg.value.id)
                        if root is not None and root not in stores:
                            stores.add(root); changed = True
                    elif isinstance(tg, ast.Subscript):
                        dv = dotted(tg.value) or ""
                        if dv.startswith("self."):
                            f_ = dv.split(".", 1)[1].split(".")[0]
                            if f_ not in stores:
                                stores.add(f_); changed = True
                        elif isinstance(tg.value, ast.Name) and tg.value.id not in carriers:
                            carriers.add(tg.value.id); changed = True
                elif isinstance(st, ast.Expr) and isinstance(st.value, ast.Call) and isinstance(st.value.func, ast.Attribute) and st.value.func.attr in ("append", "extend", "add", "insert"):
                    if any(carried(a) for a in st.value.args):
                        d = dotted(st.value.func.value) or ""
                        if d.startswith("self."):
                            f_ = d.split(".", 1)[1].split(".")[0]
                            if f_ not in stores:
                                stores.add(f_); changed = True
                        elif isinstance(st.value.func.value, ast.Name) and st.value.func.value.id not in carriers:
                            carriers.add(st.value.func.value.id); changed = True
                elif isinstance(st, ast.Return) and st.value is not None and carried(st.value):
                    g = pm.enclosing_function(st)
                    if g is not None and g is not fn and g.name not in carriers:
                        carriers.add(g.name); changed = True
                return changed

            absorb(stmt, n)
            for _ in range(6):
                ch = False
                for st in ast.walk(fn):
                    if isinstance(st, ast.stmt) and st is not stmt:
                        ch = absorb(st, None) or ch
                if not ch:
                    break
            if is_self_field and base_field.isidentifier() and any((dotted(a) or "") == "self." + base_field for a in ast.walk(fn) if isinstance(a, ast.Attribute)):
                ok = base_field in stores
            else:
                ok = bool(stores)  # operand of a nested helper: must reach some field of self
            exc = WRITEBACK_EXCEPTIONS.get((cname, fld))
            if ok:
                n_ok.append((cname, fld, n.lineno, "flows back"))
            elif exc is not None:
                n_ok.append((cname, fld, n.lineno, "reviewed exception"))
            else:
                out.append((cname, fld, n.lineno, f"value of operation(..) reaches {sorted('self.' + x for x in stores) or 'no field of self'}"))
    return m, out, n_ok


def run_writeback_rule(run, rule_id="F-WRITEBACK"):
    run.begin(
        rule_id,
        "IR visit_objects is a rewriting traversal: the value returned by the callback for a field flows back into "
        "that same field (directly, through a comprehension / locals / appended lists, or a nested helper's return "
        "value); otherwise alias redirection, temporary replacement and cast removal silently miss that operand",
        floor=30,
    )
    m, problems, n_ok = writeback_problems(run.idx)
    for cname, fld, line, found in problems:
        run.ob(False, f"{cname}.visit_objects", file=m.rel, line=line, detail=fld, expected=f"self.{fld.split('[')[0]} = .. operation(..) ..", found=found)
    seen = {}
    for cname, fld, line, how in n_ok:
        k = seen[(cname, fld)] = seen.get((cname, fld), 0) + 1
        run.ob(True, f"{cname}.visit_objects", file=m.rel, line=line, detail=f"{fld}#{k}", expected="value flows back into the field", found=how, sample=(cname == "CaseWhen"))
    for (cname, fld), why in WRITEBACK_EXCEPTIONS.items():
        run.note(f"reviewed exception {cname}.{fld}: {why}")
    # nodes that are rebuilt around the rewritten object keep their other attributes (read/write direction of inline operands)
    ic = m.functions.get("InlineCode.visit_objects")
    if ic is not None:
        for c in ast.walk(ic.node):
            if isinstance(c, ast.Call) and (dotted(c.func) or "").endswith(".Object") and c.args and isinstance(c.args[0], ast.Call) and dotted(c.args[0].func) == "operation":
                v = dotted(c.args[0].args[0]) or ""
                base = v.rsplit(".", 1)[0]
                ok = len(c.args) == 2 and dotted(c.args[1]) == f"{base}.read"
                run.ob(ok, "InlineCode.visit_objects", file=m.rel, line=c.lineno, detail="rebuilt-node-keeps-direction", expected=f"Object(operation({v}, access), {base}.read)", found=src(c)[:80])
    run.end()


# ---------------------------------------------------------------------------- every operand is visited on every path
def run_unconditional_rule(run, rule_id="F-VISIT"):
    """the object traversals (visit_objects) feed the sensitivity inference, the usage check, the reset set and all
    rewrites: an operand field that is presented only under a condition on ANOTHER field disappears from all of them
    for the designs where that condition is false.  Allowed guards mention the visited field itself
    (`if self._default is not None: operation(self._default, ..)`), test the kind of self, or are loops/comprehensions."""
    run.begin(
        rule_id,
        "IR visit_objects presents every operand field unconditionally: a call operation(self.F, flag) may only be "
        "guarded by tests on F itself (None / kind tests), never by the presence or value of another field",
        floor=30,
    )
    m = run.idx.mod(IRR)
    pm = m.parents
    n = 0
    for cname, c in m.classes.items():
        if "." in cname:
            continue
        vo = m.functions.get(f"{cname}.visit_objects")
        if vo is None:
            continue
        for call in ast.walk(vo.node):
            if not (isinstance(call, ast.Call) and dotted(call.func) == "operation" and len(call.args) == 2):
                continue
            fld = field_of(call.args[0], call, vo.node, pm)
            base = fld.split("[")[0].split(".")[0]
            bad = []
            cur = call
            for anc in pm.ancestors(call):
                if anc is vo.node:
                    break
                if isinstance(anc, ast.If) and not any(x is cur for x in ast.walk(anc.test)):
                    names = {dotted(a) for a in ast.walk(anc.test) if isinstance(a, ast.Attribute)}
                    mentions_field = any(d and d.startswith("self.") and d.split(".")[1] == base for d in names)
                    local_names = {x.id for x in ast.walk(anc.test) if isinstance(x, ast.Name)} - {"self", "isinstance", "AccessFlags"}
                    arg_names = {x.id for x in ast.walk(call.args[0]) if isinstance(x, ast.Name)} - {"self"}
                    about_operand = bool(local_names & arg_names)  # e.g. `if isinstance(node, Object)` for operation(node.obj, ..)
                    self_fields = {d.split(".")[1] for d in names if d and d.startswith("self.")}
                    if not mentions_field and not about_operand and self_fields:
                        bad.append(src(anc.test))
                cur = anc
            n += 1
            run.ob(not bad, f"{cname}.visit_objects", file=m.rel, line=call.lineno, detail=f"{fld}@{call.lineno - vo.node.lineno}",
                   expected="presented on every path (guards may only test the field itself)", found=("only if " + " and ".join(bad)) if bad else "unconditional", sample=False)
    if n < 30:
        raise AnalysisError(f"{rule_id}: only {n} operand presentations found")
    run.end()



def run_assignment_siblings_rule(run, rule_id="F-ROLE.siblings"):
    """the three assignment statements present their operands identically (only the target's flag differs): a container
    kind handled element-wise by one but not by another makes operands of that kind invisible to every traversal"""
    from ..astutil import norm
    run.begin(rule_id, "SignalAssignment / SignalPush / VariableAssignment.visit_objects are identical up to the target's access flag", floor=2)
    m = run.idx.mod(IRR)
    import copy as _copy

    class _N(ast.NodeTransformer):
        def visit_Attribute(self, n):
            self.generic_visit(n)
            if dotted(n) == "AccessFlags.PUSH":
                return ast.copy_location(ast.Attribute(value=n.value, attr="WRITE", ctx=n.ctx), n)
            return n
    ref = None
    for cname in ("SignalAssignment", "SignalPush", "VariableAssignment"):
        f = m.func(f"{cname}.visit_objects")
        body = [_N().visit(_copy.deepcopy_noattr(s)) if hasattr(_copy, "deepcopy_noattr") else _N().visit(ast.parse(src(s)).body[0]) for s in f.node.body]
        text = "\n".join(norm(s) for s in body)
        if ref is None:
            ref = (cname, text)
            continue
        ok = text == ref[1]
        diff = ""
        if not ok:
            for a, b in zip(text.split("\n"), ref[1].split("\n")):
                if a != b:
                    diff = f"{a[:70]} <-> {b[:70]}"
                    break
        run.ob(ok, f"{cname}.visit_objects", file=m.rel, line=f.node.lineno, detail=f"same-as-{ref[0]}", expected=f"identical to {ref[0]}.visit_objects up to the target flag", found="identical" if ok else "differs: " + diff)
    run.end()


MEMO_CONTROL = """
class InlineCode:
    def visit_objects(self, operation):
        for option in self.options:
            if option not in self._expanded:
                self._expanded.add(option)
                option.content = operation(option.content, 1)
"""


def _memo_hits(fn):
    hits = []
    # locals that name a container of the statement (`seen = self._seen`), also when used from a nested helper
    alias = {t.id for a in ast.walk(fn) if isinstance(a, ast.Assign) and (dotted(a.value) or "").startswith("self.") and (dotted(a.value) or "").count(".") == 1
             for t in a.targets if isinstance(t, ast.Name)}

    def _dd(node):
        d = dotted(node)
        if d and d.split(".")[0] in alias:
            return "self." + d
        return d
    for n in ast.walk(fn):
        if isinstance(n, ast.Call) and isinstance(n.func, ast.Attribute) and n.func.attr in ("add", "append", "update", "extend", "insert", "setdefault", "discard", "remove", "clear", "pop"):
            d = _dd(n.func.value) or ""
            if d.startswith("self."):
                hits.append((n, f"`{src(n)[:50]}` updates a container of the statement"))
        if isinstance(n, (ast.Assign, ast.AugAssign, ast.Delete)):
            for t in (n.targets if not isinstance(n, ast.AugAssign) else [n.target]):
                if isinstance(t, ast.Subscript) and (_dd(t.value) or "").startswith("self."):
                    hits.append((n, f"`{src(n)[:50]}` updates a container of the statement"))
        if isinstance(n, ast.Compare) and any(isinstance(o, (ast.In, ast.NotIn)) for o in n.ops) and any((_dd(c) or "").startswith("self.") for c in n.comparators):
            if any(isinstance(a, (ast.If, ast.IfExp, ast.While)) for a in [n]) or True:
                hits.append((n, f"`{src(n)[:50]}` consults a container of the statement"))
    return hits


def run_memo_rule(run, rule_id="F-VISIT.memo"):
    """every traversal of the IR (sensitivity inference, usage / driver check, reset set, clean-ups, alias rewrites) walks
    the WHOLE statement: a traversal that remembers what it has visited in the statement itself skips those parts in
    every later traversal."""
    run.begin(
        rule_id,
        "IR traversals (visit / visit_objects) are stateless: they neither record visited parts in a container kept on "
        "the statement nor skip parts listed there - the same fragment is presented to EVERY traversal",
        floor=40,
    )
    m = run.idx.mod(IRR)
    for cname in m.classes:
        if "." in cname:
            continue
        for meth in ("visit_objects", "visit"):
            f = m.functions.get(f"{cname}.{meth}")
            if f is None:
                continue
            hits = _memo_hits(f.node)
            # membership tests alone (no recording) are reported only together with an update: pure look-ups of
            # construction-time tables are legitimate
            upd = [h for h in hits if "updates" in h[1]]
            run.ob(not upd, f"ir.{cname}.{meth}", file=m.rel, line=(upd[0][0].lineno if upd else f.node.lineno), detail="stateless", expected="no container of the statement is updated during a traversal",
                   found="ok" if not upd else upd[0][1] + (" and skips what is listed there" if len(hits) > len(upd) else ""), sample=cname == "InlineCode")
    ctl = ast.parse(MEMO_CONTROL)
    if len([h for h in _memo_hits(ctl) if "updates" in h[1]]) != 1:
        raise AnalysisError(f"{rule_id}: positive control not recognised")
    run.note("positive control recognised: `self._expanded.add(option)` inside visit_objects")
    run.end()
