"""F-ROLE - IR access roles.

For every IR statement class: which fields `visit_objects` presents to the callback
and with which flag; compared with the role the back-end assembler gives the same
field (vhdl.Target(..) => driven, vhdl.Value/Constant(..) => read).
"""

from __future__ import annotations

import ast

from ..astutil import AnalysisError, dotted, src, walk_local, calls_in

IRR = "cohdl/_core/_ir/_repr.py"
ASM = "cohdl/_compiler/backend/vhdl/_vhdl_assembler.py"


def flag_names(e: ast.AST):
    """AccessFlags.X -> ['X']; IfExp -> both arms; BinOp(|) -> ['X|Y'] (combined flag)."""
    d = dotted(e)
    if d and d.startswith("AccessFlags."):
        return [d.split(".")[1]]
    if isinstance(e, ast.IfExp):
        return flag_names(e.body) + flag_names(e.orelse)
    if isinstance(e, ast.BinOp) and isinstance(e.op, ast.BitOr):
        return ["|".join(flag_names(e.left) + flag_names(e.right))]
    if isinstance(e, ast.Name):
        return ["?" + e.id]
    return ["?"]


def field_of(arg: ast.AST, call: ast.Call, fn: ast.AST, pm) -> str:
    """which field of `self` the visited object comes from."""
    d = dotted(arg)
    if d and d.startswith("self."):
        return d.split(".", 1)[1]
    # element of an iteration over a field
    names = {n.id for n in ast.walk(arg) if isinstance(n, ast.Name)}
    for anc in pm.ancestors(call):
        gens = []
        if isinstance(anc, (ast.ListComp, ast.GeneratorExp, ast.SetComp)):
            gens = [(g.target, g.iter) for g in anc.generators]
        elif isinstance(anc, ast.For):
            gens = [(anc.target, anc.iter)]
        for tgt, it in gens:
            tnames = {n.id for n in ast.walk(tgt) if isinstance(n, ast.Name)}
            if names & tnames:
                base = dotted(it)
                if base and base.startswith("self."):
                    sub = d.split(".", 1)[1] if d and "." in d else ""
                    return base.split(".", 1)[1] + "[*]" + ("." + sub if sub else "")
                if isinstance(it, ast.Name):
                    # local alias of a field: signals = self._sensitivity.signals
                    for n in walk_local(fn):
                        if isinstance(n, ast.Assign) and dotted(n.targets[0]) == it.id and (dotted(n.value) or "").startswith("self."):
                            return dotted(n.value).split(".", 1)[1] + "[*]"
                    return it.id + "[*]"
        if anc is fn:
            break
    return src(arg)


def visit_table(idx):
    """-> {class: {"flags": {field: set(flags)}, "recurse": [field], "fn": FuncInfo, "bases": [...]}}"""
    m = idx.mod(IRR)
    out = {}
    for cname, c in m.classes.items():
        if "." in cname:
            continue
        vo = m.functions.get(f"{cname}.visit_objects")
        bases = [dotted(b) for b in c.bases if dotted(b)]
        entry = {"flags": {}, "recurse": [], "fn": vo, "bases": bases, "line": c.lineno, "super": False}
        if vo is not None:
            for n in ast.walk(vo.node):
                if isinstance(n, ast.Call):
                    f = dotted(n.func) or ""
                    if f == "operation" and len(n.args) == 2:
                        fld = field_of(n.args[0], n, vo.node, m.parents)
                        fl = n.args[1]
                        if isinstance(fl, ast.Name):
                            defs = [a.value for a in ast.walk(vo.node) if isinstance(a, ast.Assign) and dotted(a.targets[0]) == fl.id]
                            if len(defs) == 1:
                                fl = defs[0]
                        entry["flags"].setdefault(fld, set()).update(flag_names(fl))
                    elif isinstance(n.func, ast.Attribute) and n.func.attr == "visit_objects":
                        if isinstance(n.func.value, ast.Call) and dotted(n.func.value.func) == "super":
                            entry["super"] = True
                        else:
                            entry["recurse"].append(src(n.func.value))
        out[cname] = entry
    return m, out


def effective_flags(table, cname, field):
    """flags of a field including inherited visit_objects (Expression._result)."""
    seen = set()
    c = cname
    while c in table and c not in seen:
        seen.add(c)
        e = table[c]
        if field in e["flags"]:
            return e["flags"][field]
        if e["fn"] is not None and not e["super"] and c != cname:
            break
        nxt = [b for b in e["bases"] if b in table]
        if not nxt:
            break
        # a subclass that defines visit_objects without calling super() hides the base
        if e["fn"] is not None and not e["super"] and c == cname:
            return e["flags"].get(field, set())
        c = nxt[0]
    return set()


def assembler_roles(idx):
    """-> {ir class: {field: 'driven'|'read'}} from _StmtAssembler.apply"""
    m = idx.mod(ASM)
    f = m.func("_StmtAssembler.apply")
    out = {}
    for s in f.node.body:
        if not (isinstance(s, ast.If) and isinstance(s.test, ast.Call) and dotted(s.test.func) == "isinstance"):
            continue
        c = s.test.args[1]
        classes = [dotted(x) for x in ast.walk(c) if isinstance(x, ast.Attribute) and (dotted(x) or "").startswith("ir.")]
        roles = {}
        for n in ast.walk(ast.Module(body=s.body, type_ignores=[])):
            if isinstance(n, ast.Call):
                fn = dotted(n.func)
                if fn in ("vhdl.Target", "vhdl.Value", "vhdl.Constant") and n.args:
                    a = n.args[0]
                    d = dotted(a)
                    fld = None
                    if d and d.startswith("inp."):
                        fld = d.split(".", 1)[1]
                    elif isinstance(a, ast.Call) and dotted(a.func) == "inp.result":
                        fld = "_result"
                    if fld:
                        roles.setdefault(fld, set()).add("driven" if fn == "vhdl.Target" else "read")
                if fn == "assign_temporary" and n.args:
                    a = n.args[0]
                    if isinstance(a, ast.Call) and dotted(a.func) == "inp.result":
                        roles.setdefault("_result", set()).add("driven")
                    elif dotted(a) == "inp.result":
                        roles.setdefault("result", set()).add("driven")
        for cl in classes:
            out.setdefault(cl.split(".")[1], {}).update({k: set(v) for k, v in roles.items()})
    return m, out
