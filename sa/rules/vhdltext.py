"""Static facts about the VHDL text the back end can emit.

emitted_templates(): every string template (str constant / f-string) of the back end that flows
into emitted text (returned from write*/format*/_write* functions or stored in a local that is),
with docstrings, assert/raise messages excluded.
vocabulary(): identifiers contained in the constant parts of those templates that are complete
identifiers (not a prefix/suffix glued to a formatted value), outside VHDL comments and literals.
"""

from __future__ import annotations

import ast
import re

from ..astutil import dotted, src, walk_local

VH = "cohdl/_compiler/backend/vhdl/_vhdl_repr.py"
ASM = "cohdl/_compiler/backend/vhdl/_vhdl_assembler.py"
IDENT = re.compile(r"[A-Za-z_][A-Za-z_0-9]*")


def _excluded(node, pm, fn):
    for anc in pm.ancestors(node):
        if isinstance(anc, (ast.Raise, ast.Assert)):
            return True
        if isinstance(anc, ast.Call) and (dotted(anc.func) or "").split(".")[-1] in ("AssertionError", "print", "add_note", "NotImplementedError", "isinstance", "getattr", "hasattr", "get"):
            return True
        if isinstance(anc, ast.Subscript) and anc.slice is node:
            return True
        if isinstance(anc, ast.keyword) and anc.arg in ("name", "title", "name_hint"):
            pass
        if anc is fn:
            break
    return False


def emitted_templates(idx):
    """-> list of (module, function qualname, node) for templates that can reach emitted text"""
    out = []
    for rel in (VH, ASM):
        mod = idx.mod(rel)
        pm = mod.parents
        for q, f in mod.functions.items():
            name = q.split(".")[-1].split("#")[0]
            emitting = name.startswith(("write", "_write", "format", "_format")) or name in ("write_block", "__str__") or name.endswith(("_map", "_declaration", "_declarations"))
            if not emitting or name in ("write_dir",):
                continue
            doc = ast.get_docstring(f.node, clean=False)
            for n in walk_local(f.node, include_self=False):
                if isinstance(n, ast.JoinedStr) or (isinstance(n, ast.Constant) and isinstance(n.value, str)):
                    par = pm.of(n)
                    if isinstance(par, (ast.JoinedStr, ast.FormattedValue)):
                        continue
                    if isinstance(n, ast.Constant) and isinstance(par, ast.Expr):
                        continue  # docstring / bare string
                    if _excluded(n, pm, f.node):
                        continue
                    out.append((mod, q, n))
    return out


def parts(node):
    """-> list of ('const', text) / ('expr', src) in order; VHDL comments (`-- ...` to end of line,
    possibly spanning formatted values) are blanked out"""
    if isinstance(node, ast.Constant):
        raw = [("const", node.value)]
    else:
        raw = []
        for v in node.values:
            if isinstance(v, ast.Constant):
                raw.append(("const", v.value))
            else:
                raw.append(("expr", src(v.value)))
    out = []
    in_comment = False
    for kind, text in raw:
        if kind == "expr":
            out.append((kind, text) if not in_comment else ("comment-expr", text))
            continue
        res = ""
        i = 0
        while i < len(text):
            if in_comment:
                if text[i] == "\n":
                    in_comment = False
                    res += "\n"
                else:
                    res += " "
                i += 1
            elif text.startswith("--", i):
                in_comment = True
                res += "  "
                i += 2
            else:
                res += text[i]
                i += 1
        out.append(("const", res))
    return out


def strip_literals_and_comments(text: str) -> str:
    text = re.sub(r"--.*", " ", text)
    text = re.sub(r'"[^"]*"', ' "" ', text)
    text = re.sub(r"'[^']'", " '' ", text)
    return text


def vocabulary(idx):
    """-> {word: [(rel, qualname, line)]} complete identifiers in emitted constant text"""
    vocab = {}
    for mod, q, n in emitted_templates(idx):
        ps = parts(n)
        for i, (kind, text) in enumerate(ps):
            if kind != "const":
                continue
            clean = strip_literals_and_comments(text)
            for m in IDENT.finditer(clean):
                w = m.group(0)
                # glued to a neighbouring formatted value -> fragment of a generated name
                if m.start() == 0 and i > 0 and ps[i - 1][0] == "expr" and clean == text:
                    continue
                if m.end() == len(clean) and i + 1 < len(ps) and ps[i + 1][0] == "expr" and clean == text:
                    continue
                vocab.setdefault(w.lower(), []).append((mod.rel, q, n.lineno))
    return vocab


def expression_templates(idx):
    """templates that are a complete VHDL expression/statement on their own: returned or assigned directly
    (elements of multi-line list templates are excluded)."""
    out = []
    for mod, q, n in emitted_templates(idx):
        par = mod.parents.of(n)
        if isinstance(par, (ast.Return, ast.Assign)):
            out.append((mod, q, n))
    return out


def balance(node) -> str | None:
    """None if parentheses and double quotes of the template are balanced, else a description."""
    depth = 0
    quotes = 0
    for kind, text in parts(node):
        if kind != "const":
            continue
        text = re.sub(r"--.*", "", text)
        for ch in text:
            if ch == '"':
                quotes += 1
            elif quotes % 2 == 0:
                if ch == "(":
                    depth += 1
                elif ch == ")":
                    depth -= 1
                    if depth < 0:
                        return "closing parenthesis without opening one"
    if depth != 0:
        return f"{depth} unclosed parenthesis"
    if quotes % 2:
        return "unbalanced double quote"
    return None
