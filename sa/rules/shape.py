"""F-SHAPE rules built on the abstract interpreter (sa/absint.py): operand order of folds and
concatenations, serialisation layouts, width identities of the std helpers."""

from __future__ import annotations

import ast
import itertools

from ..astutil import AnalysisError, dotted, src
from ..absint import Interp, BV, Bit, Opaque, TypeTok, Reject

CU = "cohdl/std/_core_utility.py"


class _Qual:
    """model of std.Value / Ref / Signal ...: `Q(x)` and `Q[T](x)` return x (qualifiers do not move bits)."""

    def __call__(self, x=None, *a, **k):
        return x

    def __getitem__(self, t):
        def make(x=None, *a, **k):
            if isinstance(t, TypeTok) and isinstance(x, BV):
                if t.name in ("BitVector", "Unsigned", "Signed") and "width" in t.params and t.params["width"] != x.width:
                    raise Reject(f"{t} constructed from a vector of width {x.width}")
                if t.name == "Bit" and x.width != 1:
                    raise Reject("Bit constructed from a vector")
                return BV(x.bits, t.name)
            if isinstance(t, TypeTok) and t.name == "Array" and isinstance(x, (list, tuple)):
                return list(x)
            return x
        return make


class _VecType:
    def __init__(self, name):
        self.name = name

    def __getitem__(self, w):
        return TypeTok(self.name, width=w)

    def __repr__(self):
        return self.name


def is_instance(x, t):
    ts = t if isinstance(t, tuple) else (t,)
    for k in ts:
        if isinstance(k, type):
            if isinstance(x, k):
                return True
            continue
        n = getattr(k, "name", None) or getattr(k, "__name__", str(k))
        if n == "int" and isinstance(x, int) and not isinstance(x, bool):
            return True
        if n == "str" and isinstance(x, str):
            return True
        if isinstance(x, BV):
            if n == "Bit" and x.kind == "Bit":
                return True
            if n == "BitVector" and x.kind != "Bit":
                return True
            if n in ("Unsigned", "Signed") and x.kind == n:
                return True
        if isinstance(x, list) and n in ("Array", "CohdlArray"):
            return True
        if isinstance(x, bool) and n in ("bool", "CohdlBool"):
            return True
    return False


def is_subclass(t, k):
    ks = k if isinstance(k, tuple) else (k,)
    for c in ks:
        n = getattr(c, "name", None) or getattr(c, "__name__", str(c))
        if isinstance(t, TypeTok):
            if t.name == n:
                return True
            if n == "BitVector" and t.name in ("Unsigned", "Signed"):
                return True
            if n == "CohdlArray" and t.name == "Array":
                return True
    return False


class _CallableTok(TypeTok):
    def __init__(self, name, fn):
        super().__init__(name)
        self._fn = fn

    def __call__(self, *a):
        return self._fn(*a)


def base_prims():
    q = _Qual()
    prims = {
        "Value": q, "Ref": q, "Signal": q, "Variable": q, "Temporary": q, "Nonlocal": q,
        "const_cond": lambda x: x,
        "as_pyeval": lambda f, *a, **k: f(*a, **k),
        "instance_check": is_instance, "subclass_check": is_subclass, "isinstance": is_instance, "issubclass": is_subclass,
        "as_bitvector": lambda x: BV(x.bits, "BitVector") if isinstance(x, BV) else x,
        "Bit": TypeTok("Bit"), "BitVector": _VecType("BitVector"), "Unsigned": _VecType("Unsigned"), "Signed": _VecType("Signed"),
        "CohdlArray": TypeTok("CohdlArray"), "bool": _CallableTok("bool", bool), "CohdlBool": TypeTok("CohdlBool"), "int": _CallableTok("int", int), "float": _CallableTok("float", float), "str": _CallableTok("str", str), "CohdlInteger": TypeTok("CohdlInteger"),
        "TypeQualifierBase": {"decay": lambda x: x},
        "type": lambda x: TypeTok("Bit") if isinstance(x, BV) and x.kind == "Bit" else TypeTok(x.kind, width=x.width) if isinstance(x, BV) else TypeTok("bool") if isinstance(x, bool) else x,
    }
    return prims


# ---------------------------------------------------------------------------- folds
def fold_orders(idx, max_n=7):
    """interpret binary_fold / batched_fold with a symbolic operator; -> list of (fn, config, leaves, tree)"""
    mod = idx.mod(CU)
    out = []
    for n in range(1, max_n + 1):
        leaves = [Opaque(f"x{i}") for i in range(n)]

        def op(a, b):
            return Opaque("f", (a, b))

        for name, kw in (("binary_fold", {}), ("binary_fold", {"right_fold": True})):
            it = Interp(mod, base_prims())
            res = it.call_function(name, op, list(leaves), **kw)
            out.append((name, f"n={n}" + ("" if not kw else ",right_fold"), leaves, res))
        for bs in (2, 3, 4):
            it = Interp(mod, base_prims())
            res = it.call_function("batched_fold", op, list(leaves), batch_size=bs)
            out.append(("batched_fold", f"n={n},batch_size={bs}", leaves, res))
    return mod, out


def in_order(tree):
    return tree.leaves() if isinstance(tree, Opaque) else [tree]


def is_left_fold(tree, leaves):
    """((x0 f x1) f x2) ..."""
    if len(leaves) == 1:
        return tree == leaves[0]
    acc = leaves[0]
    for x in leaves[1:]:
        acc = Opaque("f", (acc, x))
    return tree == acc


def is_right_fold(tree, leaves):
    if len(leaves) == 1:
        return tree == leaves[0]
    acc = leaves[-1]
    for x in reversed(leaves[:-1]):
        acc = Opaque("f", (x, acc))
    return tree == acc


# ---------------------------------------------------------------------------- multi-index selection
class VecModel:
    """a vector object whose __getitem__ on tuples is interpreted from the source under analysis and whose
    int / slice selection is the primitive one."""

    def __init__(self, bv, interp_factory, qualname):
        self.bv = bv
        self._factory = interp_factory
        self._q = qualname

    def __getitem__(self, key):
        if isinstance(key, (tuple, list)):
            return self._factory().call_function(self._q, self, key)
        if isinstance(key, slice):
            return self.bv.slice(key.start, key.stop)
        if isinstance(key, int):
            return BV([self.bv.bits[key]], "BitVector")
        raise AnalysisError(f"VecModel index {key!r}")


def multi_index_cases(idx, rel, qualname, replacement=False):
    """interpret the tuple branch of a __getitem__ implementation; -> [(key, expected bits, got)]"""
    mod = idx.mod(rel)
    out = []
    x = BV.sym("x", 8)
    keys = [(slice(7, 6), 0, 2), (1, slice(5, 3)), (slice(3, 0),), (0, 1, 2, 3), (7,), (slice(7, 4), slice(3, 2), 0)]
    for key in keys:
        prims = base_prims()
        prims["slice"] = slice

        def getattr_(base, attr):
            if isinstance(base, VecModel) and attr == "__getitem__":
                return base.__getitem__
            raise AnalysisError(f"absint: attribute {attr} of {base!r}")
        prims["__getattr__"] = getattr_
        prims["__matmul__"] = lambda l, r: l.concat(r) if isinstance(l, BV) and isinstance(r, BV) else (_ for _ in ()).throw(AnalysisError("concat of non-vectors"))
        captured = {}

        class IntrOp(dict):
            pass
        prims["intr_op"] = {"_IntrinsicSynthesizableFunctionCall": lambda fn, args, kwargs: ("call", fn, args, kwargs)}

        def factory():
            return Interp(mod, prims)
        me = VecModel(x, factory, qualname)
        exp = []
        for k in reversed(key):
            if isinstance(k, slice):
                exp.extend(x.bits[k.stop:k.start + 1])
            else:
                exp.append(x.bits[k])
        try:
            got = factory().call_function(qualname, me, key)
            if isinstance(got, tuple) and got and got[0] == "call":
                got = got[1](*got[2], **got[3])
        except Reject as r:
            got = f"rejected: {r}"
        out.append((key, exp, got))
    return mod, out


def run_multi_index_rule(run, rule_id="C09.d"):
    run.begin(
        rule_id,
        "multi-index selection v[i0, i1, ...] - compile-time (BitVector.__getitem__), qualified (TypeQualifier.__getitem__) and "
        "run-time (__getitem_replacement) implementations, interpreted on a symbolic 8-bit vector: the first index forms "
        "the most significant part of the result, in all three",
        floor=15,
    )
    sites = [
        ("cohdl/_core/_bit_vector.py", "BitVector.__getitem__", "compile-time"),
        ("cohdl/_core/_type_qualifier.py", "TypeQualifier.__getitem__", "qualified"),
        ("cohdl/_core/_type_qualifier.py", "TypeQualifier.__getitem_replacement", "run-time"),
    ]
    for rel, q, label in sites:
        mod, cases = multi_index_cases(run.idx, rel, q)
        f = mod.func(q)
        for key, exp, got in cases:
            ok = isinstance(got, BV) and list(got.bits) == list(exp)
            ks = ",".join(f"{k.start}:{k.stop}" if isinstance(k, slice) else str(k) for k in key)
            run.ob(ok, q, file=rel, line=f.node.lineno, detail=f"{label}[{ks}]", expected="<" + " ".join(map(repr, reversed(exp))) + "> (first index on top)",
                   found=repr(got)[:110], sample=(ks == "7:6,0,2"))
    run.end()
