"""F-SIB - sibling agreement (Engler/Min cross-checking) via normalised AST diff (E6).

Two sibling functions are compared as multisets of statements.  Only *narrow*
deviance classes are violations (copy-paste class of defects):
  (i)  one-identifier deviance: two statements equal up to exactly one Name, where
       both names are parameters/locals known to both functions;
  (ii) operator deviance: equal up to exactly one operator (// vs /, < vs <=, ...);
  (iii) dead parameter: a parameter that is never read.
Statements present in one sibling only, reordered statements etc. are notes.
"""

from __future__ import annotations

import ast
import copy
import json
import os

from ..astutil import AnalysisError, dotted, src, walk_local, norm, FUNC_TYPES

TABLES = os.path.join(os.path.dirname(os.path.dirname(os.path.abspath(__file__))), "tables")


def justified():
    p = os.path.join(TABLES, "sibling_justified.json")
    with open(p) as fh:
        return json.load(fh)["entries"]


class _Renamer(ast.NodeTransformer):
    def __init__(self, mapping):
        self.mapping = mapping

    def visit_Name(self, node):
        if node.id in self.mapping:
            return ast.copy_location(ast.Name(id=self.mapping[node.id], ctx=node.ctx), node)
        return node

    def visit_Attribute(self, node):
        self.generic_visit(node)
        if node.attr in self.mapping:
            node.attr = self.mapping[node.attr]
        return node

    def visit_Constant(self, node):
        return node


def simple_statements(fn):
    """every simple statement and every branch test of fn, in order."""
    out = []
    for n in walk_local(fn, include_self=False):
        if isinstance(n, (ast.Assign, ast.AugAssign, ast.AnnAssign, ast.Return, ast.Expr, ast.Assert, ast.Raise)):
            if isinstance(n, ast.Expr) and isinstance(n.value, ast.Constant):
                continue  # docstring
            out.append(n)
        elif isinstance(n, (ast.If, ast.While)):
            out.append(ast.copy_location(ast.Expr(value=n.test), n))
    return out


def leaf_diff(a, b, acc, limit=3):
    """collect differing leaves of two structurally equal trees; False if structure differs."""
    if type(a) is not type(b):
        # operator nodes are leaves of different type
        if isinstance(a, (ast.operator, ast.cmpop, ast.unaryop, ast.boolop)) and isinstance(b, type(a).__mro__[1]):
            acc.append(("op", type(a).__name__, type(b).__name__))
            return len(acc) <= limit
        return False
    if isinstance(a, ast.Name):
        if a.id != b.id:
            acc.append(("name", a.id, b.id))
        return len(acc) <= limit
    if isinstance(a, ast.Constant):
        if a.value != b.value or type(a.value) is not type(b.value):
            acc.append(("const", repr(a.value), repr(b.value)))
        return len(acc) <= limit
    if isinstance(a, ast.Attribute):
        if a.attr != b.attr:
            acc.append(("attr", a.attr, b.attr))
        return leaf_diff(a.value, b.value, acc, limit)
    for (fa, va), (fb, vb) in zip(ast.iter_fields(a), ast.iter_fields(b)):
        if fa in ("ctx", "lineno", "col_offset", "end_lineno", "end_col_offset", "type_comment", "kind"):
            continue
        if isinstance(va, list):
            if not isinstance(vb, list) or len(va) != len(vb):
                return False
            for x, y in zip(va, vb):
                if isinstance(x, ast.AST):
                    if not leaf_diff(x, y, acc, limit):
                        return False
                elif x != y:
                    return False
        elif isinstance(va, ast.AST):
            if not isinstance(vb, ast.AST) or not leaf_diff(va, vb, acc, limit):
                return False
        elif va != vb:
            if fa in ("arg", "attr", "id", "name"):
                acc.append(("ident", str(va), str(vb)))
            else:
                return False
    return len(acc) <= limit


def local_names(fn) -> set[str]:
    names = {a.arg for a in fn.args.posonlyargs + fn.args.args + fn.args.kwonlyargs}
    for n in walk_local(fn, include_self=False):
        if isinstance(n, ast.Name) and isinstance(n.ctx, ast.Store):
            names.add(n.id)
    return names


def compare(fa, fb, mapping_b_to_a):
    """-> (violations, notes); each violation = (kind, stmt_a, stmt_b, detail)."""
    fb2 = _Renamer(mapping_b_to_a).visit(copy.deepcopy(fb))
    sa = simple_statements(fa)
    sb = simple_statements(fb2)
    orig_b = simple_statements(fb)
    da = {}
    for s in sa:
        da.setdefault(norm(s), []).append(s)
    db = {}
    for s, o in zip(sb, orig_b):
        db.setdefault(norm(s), []).append((s, o))
    only_a = []
    for k, lst in da.items():
        extra = len(lst) - len(db.get(k, []))
        only_a.extend(lst[:max(extra, 0)])
    only_b = []
    for k, lst in db.items():
        extra = len(lst) - len(da.get(k, []))
        only_b.extend(lst[:max(extra, 0)])
    la, lb = local_names(fa), local_names(fb)
    violations, notes = [], []
    used_b = set()
    for s in only_a:
        best = None
        for i, (t, o) in enumerate(only_b):
            if i in used_b or type(s) is not type(t):
                continue
            acc = []
            if leaf_diff(s, t, acc, limit=1) and len(acc) == 1:
                best = (i, t, o, acc[0])
                break
        if best is None:
            notes.append(("only-in-first", s))
            continue
        i, t, o, (kind, x, y) = best
        used_b.add(i)
        if kind == "name" and x in la and y in lb and x in lb and y in la:
            violations.append(("one-identifier", s, o, f"`{x}` vs `{y}`"))
        elif kind == "op":
            violations.append(("operator", s, o, f"{x} vs {y}"))
        else:
            notes.append(("differs-in-" + kind, s))
    for i, (t, o) in enumerate(only_b):
        if i not in used_b:
            notes.append(("only-in-second", o))
    return violations, notes


def dead_parameters(fn) -> list[str]:
    params = [a.arg for a in fn.args.posonlyargs + fn.args.args + fn.args.kwonlyargs]
    if fn.args.vararg or fn.args.kwarg:
        pass
    loads = {n.id for n in ast.walk(fn) if isinstance(n, ast.Name) and isinstance(n.ctx, ast.Load)}
    body_is_stub = all(
        isinstance(s, (ast.Pass, ast.Raise)) or (isinstance(s, ast.Expr) and isinstance(s.value, ast.Constant))
        or (isinstance(s, ast.Return) and (s.value is None or isinstance(s.value, ast.Constant) or dotted(s.value) == "NotImplemented"))
        for s in fn.body
    )
    # a body that always raises without ever reading its operands is a stub ("not supported"), whatever else it does
    always_raises = bool(fn.body) and isinstance(fn.body[-1], ast.Raise) and not any(isinstance(n, ast.Return) for n in ast.walk(fn))
    if body_is_stub or always_raises:
        return []
    return [p for p in params if p not in loads and p not in ("self", "cls") and not p.startswith("_")]


# ---------------------------------------------------------------------------- pair sets
U = "cohdl/_core/_unsigned.py"
S = "cohdl/_core/_signed.py"

ARITH_METHODS = [
    "__init__", "_assign", "add", "sub", "__add__", "__radd__", "__sub__", "__rsub__", "__mul__", "__rmul__",
    "_cohdl_truncdiv_", "_cohdl_rtruncdiv_", "__mod__", "__rmod__", "_cohdl_rem_", "_cohdl_rrem_",
    "__lshift__", "__rshift__", "__eq__", "__ne__", "__lt__", "__gt__", "__le__", "__ge__",
    "__neg__", "__abs__", "resize", "to_int", "__int__", "__index__", "__bool__", "__hash__", "from_int", "upto",
    "min_int", "max_int", "copy", "__repr__", "__str__",
]

ARITH_PAIRS = {
    "name": "Unsigned<->Signed",
    "a": (U, "Unsigned"),
    "b": (S, "Signed"),
    "map_b_to_a": {"Signed": "Unsigned", "signed": "unsigned", "_is_signed": "_is_unsigned"},
    "methods": ARITH_METHODS,
    "min_common": 20,
}


def run_rule(run, rule_id, pairs, floor=10):
    run.begin(
        rule_id,
        f"sibling classes {pairs['name']}: no one-identifier / operator deviance between statements of the same "
        f"method, no dead parameters (copy-paste defects); other differences are notes",
        floor=floor,
    )
    idx = run.idx
    ma = idx.mod(pairs["a"][0])
    mb = idx.mod(pairs["b"][0])
    meths_a = ma.methods(pairs["a"][1])
    meths_b = mb.methods(pairs["b"][1])
    just = justified()
    common = [m for m in meths_a if m in meths_b and "#" not in m]
    if len(common) < pairs["min_common"]:
        raise AnalysisError(f"{rule_id}: only {len(common)} common methods, expected >= {pairs['min_common']}")
    n_notes = 0
    for name in sorted(common):
        fa, fb = meths_a[name], meths_b[name]
        viol, notes = compare(fa.node, fb.node, pairs["map_b_to_a"])
        n_notes += len(notes)
        construct = f"{pairs['a'][1]}.{name}<->{pairs['b'][1]}.{name}"
        if not viol:
            run.ob(True, construct, file=ma.rel, line=fa.node.lineno, detail="agree",
                   expected="no copy-paste deviance", found=f"{len(notes)} benign difference(s)", sample=False)
        for kind, s1, s2, detail in viol:
            key = f"{construct}|{kind}|{detail}"
            j = just.get(key)
            run.ob(j is not None, construct, file=mb.rel, line=getattr(s2, "lineno", fb.node.lineno), detail=f"{kind}:{detail}",
                   expected=f"siblings agree: `{src(s1)[:70]}`" if j is None else "justified: " + j[:80],
                   found=f"`{src(s2)[:70]}` ({kind} deviance {detail})")
    for cls_key in ("a", "b"):
        mod = idx.mod(pairs[cls_key][0])
        for name, f in mod.methods(pairs[cls_key][1]).items():
            for p in dead_parameters(f.node):
                key = f"{pairs[cls_key][1]}.{name}|dead-parameter|{p}"
                j = just.get(key)
                run.ob(j is not None, f"{pairs[cls_key][1]}.{name}", file=mod.rel, line=f.node.lineno, detail=f"dead-parameter:{p}",
                       expected="every parameter is read" if j is None else "justified: " + j[:80], found=f"parameter `{p}` is never read")
    run.note(f"{n_notes} benign sibling differences recorded as notes (cross-reference only)")
    run.end()
