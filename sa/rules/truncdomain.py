"""A tiny abstract domain that decides, for ALL integers, whether a helper computes the quotient
rounded toward zero.

Operands a, b (b != 0) are abstracted by the case (sign(a), sign(b), exact, zero-quotient) where
  A = |a|, B = |b|, Q = A // B >= 0, e = [A % B != 0];
cases: sign(a) in {+,-,0}, sign(b) in {+,-}, e in {0,1}, Q = 0 or Q >= 1 (Q symbolic).
Values computed from the operands are linear forms  c0 + c1*Q  with integer c0, c1.
  abs(a) // abs(b)            = Q
  a // b  (Python floor)      = Q            if the signs agree
                              = -Q - e       otherwise
  a % b, other mixed operands are not modelled (unknown idiom).
The specification is  trunc(a / b) = +Q if the signs agree else -Q.
"""

from __future__ import annotations

import ast
import itertools

from ..astutil import AnalysisError
from ..absint import Interp, Reject


class Operand:
    def __init__(self, name, sign):
        self.name, self.sign = name, sign  # sign in "+", "-", "0"

    def __repr__(self):
        return f"{self.sign}{self.name}"


class AbsOperand:
    """k * |op| with k = +1 / -1"""

    def __init__(self, op, k=1):
        self.op, self.k = op, k

    def __repr__(self):
        return f"{'-' if self.k < 0 else ''}|{self.op.name}|"


class Lin:
    def __init__(self, c0, c1, case):
        self.c0, self.c1, self.case = c0, c1, case

    def __repr__(self):
        return f"{self.c0}{self.c1:+d}*Q"

    def rng(self):
        """(min, max) with None for unbounded, under the case facts"""
        if self.case["qzero"] or self.c1 == 0:
            v = self.c0
            return v, v
        lo = self.c0 + self.c1  # Q = 1
        return (lo, None) if self.c1 > 0 else (None, lo)


class Rem:
    """a % b (Python: sign of the divisor): zero iff the division is exact"""

    def __init__(self, case):
        self.case = case

    def __repr__(self):
        return "rem"


def _cmp(op, l, r):
    if isinstance(l, Rem) and isinstance(r, int) and r == 0:
        e, sb = l.case["e"], l.case["sb"]
        s = "0" if not e else sb
        return {"Lt": s == "-", "LtE": s in "-0", "Gt": s == "+", "GtE": s in "+0", "Eq": s == "0", "NotEq": s != "0"}[op]
    if isinstance(l, Operand) and isinstance(r, int) and r == 0:
        s = l.sign
        return {"Lt": s == "-", "LtE": s in "-0", "Gt": s == "+", "GtE": s in "+0", "Eq": s == "0", "NotEq": s != "0"}[op]
    if isinstance(r, Operand) and isinstance(l, int) and l == 0:
        flip = {"Lt": "Gt", "Gt": "Lt", "LtE": "GtE", "GtE": "LtE", "Eq": "Eq", "NotEq": "NotEq"}
        return _cmp(flip[op], r, l)
    if isinstance(l, Lin) and isinstance(r, int):
        lo, hi = Lin(l.c0 - r, l.c1, l.case).rng()
        tests = {
            "Lt": (hi is not None and hi < 0, lo is not None and lo >= 0),
            "LtE": (hi is not None and hi <= 0, lo is not None and lo > 0),
            "Gt": (lo is not None and lo > 0, hi is not None and hi <= 0),
            "GtE": (lo is not None and lo >= 0, hi is not None and hi < 0),
            "Eq": (lo == hi == 0 and lo is not None, (lo is not None and lo > 0) or (hi is not None and hi < 0)),
            "NotEq": ((lo is not None and lo > 0) or (hi is not None and hi < 0), lo == hi == 0 and lo is not None),
        }
        yes, no = tests[op]
        if yes:
            return True
        if no:
            return False
        raise AnalysisError(f"truncdiv domain: comparison `{l} {op} {r}` is not determined by the case (unknown idiom)")
    if isinstance(l, bool) and isinstance(r, bool):
        return {"Eq": l == r, "NotEq": l != r}[op]
    raise AnalysisError(f"truncdiv domain: unsupported comparison {l!r} {op} {r!r}")


def decide(mod, qualname):
    """-> list of (case description, expected Lin, got) for every abstract case; raises AnalysisError on unknown idioms"""
    out = []
    for sa, sb, e, qzero in itertools.product("+-0", "+-", (0, 1), (True, False)):
        if sa == "0" and (e or not qzero):
            continue
        case = {"sa": sa, "sb": sb, "e": e, "qzero": qzero}
        a, b = Operand("a", sa), Operand("b", sb)
        agree = (sa == sb) or sa == "0"

        def binop(op, l, r, case=case, agree=agree):
            if op == "Mult" and isinstance(l, int) and not isinstance(l, bool) and l in (1, -1) and isinstance(r, AbsOperand):
                return AbsOperand(r.op, r.k * l)
            if op == "Mult" and isinstance(r, int) and not isinstance(r, bool) and r in (1, -1) and isinstance(l, AbsOperand):
                return AbsOperand(l.op, l.k * r)
            if op == "FloorDiv":
                if isinstance(l, AbsOperand) and isinstance(r, AbsOperand) and l.op.name == "a" and r.op.name == "b":
                    # |a| // |b| = Q ; floor(-|a| / |b|) = -Q - e  (e = 1 iff the division is inexact; a = 0 is exact)
                    return Lin(0, 1, case) if l.k * r.k > 0 else Lin(-case["e"], -1, case)
                if isinstance(l, Operand) and isinstance(r, Operand) and l.name == "a" and r.name == "b":
                    return Lin(0, 1, case) if agree else Lin(-case["e"], -1, case)
                # mixed forms: floor(|a| / b) and floor(a / |b|) floor toward -inf when exactly one side is negative
                if isinstance(l, AbsOperand) and isinstance(r, Operand) and l.op.name == "a" and r.name == "b":
                    return Lin(0, 1, case) if (case["sb"] == "+") == (l.k > 0) else Lin(-case["e"], -1, case)
                if isinstance(l, Operand) and isinstance(r, AbsOperand) and l.name == "a" and r.op.name == "b":
                    return Lin(0, 1, case) if (case["sa"] in "+0") == (r.k > 0) or case["sa"] == "0" else Lin(-case["e"], -1, case)
            if op == "Mod" and isinstance(l, Operand) and isinstance(r, Operand) and l.name == "a" and r.name == "b":
                return Rem(case)
            if isinstance(l, Lin) and isinstance(r, int):
                if op == "Add":
                    return Lin(l.c0 + r, l.c1, case)
                if op == "Sub":
                    return Lin(l.c0 - r, l.c1, case)
                if op == "Mult":
                    return Lin(l.c0 * r, l.c1 * r, case)
            if isinstance(r, Lin) and isinstance(l, int):
                if op == "Add":
                    return Lin(r.c0 + l, r.c1, case)
                if op == "Mult":
                    return Lin(r.c0 * l, r.c1 * l, case)
                if op == "Sub":
                    return Lin(l - r.c0, -r.c1, case)
            if isinstance(l, bool) and isinstance(r, bool) and op == "BitXor":
                return l != r
            raise AnalysisError(f"truncdiv domain: operation {op} on {l!r}, {r!r} is not modelled (unknown idiom)")

        def unop(op, v, case=case):
            if op == "USub" and isinstance(v, Lin):
                return Lin(-v.c0, -v.c1, case)
            if op == "USub" and isinstance(v, AbsOperand):
                return AbsOperand(v.op, -v.k)
            raise AnalysisError(f"truncdiv domain: unary {op} on {v!r}")

        def abs_(x, case=case):
            if isinstance(x, Operand):
                return AbsOperand(x)
            if isinstance(x, AbsOperand):
                return AbsOperand(x.op)
            if isinstance(x, Lin):
                lo, hi = x.rng()
                if lo is not None and lo >= 0:
                    return x
                if hi is not None and hi <= 0:
                    return Lin(-x.c0, -x.c1, case)
                raise AnalysisError(f"truncdiv domain: sign of {x!r} is not determined by the case (abs)")
            raise AnalysisError(f"truncdiv domain: abs({x!r})")

        def divmod_(x, y, case=case, agree=agree):
            if isinstance(x, Operand) and isinstance(y, Operand) and x.name == "a" and y.name == "b":
                return (Lin(0, 1, case) if agree else Lin(-case["e"], -1, case), Rem(case))
            raise AnalysisError(f"truncdiv domain: divmod({x!r}, {y!r})")

        prims = {"abs": abs_, "divmod": divmod_, "__binop__": binop, "__unop__": unop, "__compare__": _cmp, "int": lambda x: x}
        got = Interp(mod, prims).call_function(qualname, a, b)
        exp = Lin(0, 1 if agree else -1, case)
        desc = f"a{sa if sa != '0' else '=0'} b{sb} {'inexact' if e else 'exact'} {'|q|=0' if qzero else '|q|>=1'}"
        ok = isinstance(got, Lin) and (got.c0, got.c1) == (exp.c0, exp.c1) if not qzero else isinstance(got, Lin) and got.c0 == 0
        out.append((desc, exp, got, ok))
    return out
