"""F-TABLE for the operator pipeline:

  Python dunder  ->  TypeQualifier replacement  ->  _IntrinsicBinOp/UnaryOp/Comparison
  ->  out.*  ->  ir.*  ->  vhdl.*  ->  VHDL token

`role()` gives the *role* (op / lhs / rhs / arg / result) an expression carries at a
hand-over point, so every hop can be checked for positional agreement without
matching source text.
"""

from __future__ import annotations

import ast
import json
import os

from ..astutil import AnalysisError, dotted, src, walk_local, walk_ordered, calls_in, const_str
from .. import pattern as P

TQ = "cohdl/_core/_type_qualifier.py"
INTR = "cohdl/_core/_intrinsic_operations.py"
PREP = "cohdl/_compiler/frontend/_prepare_ast.py"
OUT = "cohdl/_compiler/frontend/_prepare_ast_out.py"
GEN = "cohdl/_compiler/frontend/_generate_ir.py"
IRR = "cohdl/_core/_ir/_repr.py"
ASM = "cohdl/_compiler/backend/vhdl/_vhdl_assembler.py"
VH = "cohdl/_compiler/backend/vhdl/_vhdl_repr.py"

TABLES = os.path.join(os.path.dirname(os.path.dirname(os.path.abspath(__file__))), "tables")
KINDS = {"_IntrinsicBinOp": "binary", "_IntrinsicUnaryOp": "unary", "_IntrinsicComparison": "compare"}
CLASS_OF_KIND = {"binary": "BinOp", "unary": "UnaryOp", "compare": "Compare"}
ROLES_OF_KIND = {"binary": ["op", "lhs", "rhs", "result"], "unary": ["op", "arg", "result"], "compare": ["op", "lhs", "rhs", "result"]}


def oracle():
    with open(os.path.join(TABLES, "operators.json")) as fh:
        return json.load(fh)


# ------------------------------------------------------------------ stage 1: replacements
def replacement_rows(idx):
    """rows extracted from TypeQualifier: one per (default method, intrinsic constructor call)."""
    m = idx.mod(TQ)
    rows = []
    for name, f in m.methods("TypeQualifier").items():
        default = None
        for d in f.node.decorator_list:
            if isinstance(d, ast.Call) and dotted(d.func) == "_intrinsic_replacement" and d.args:
                default = dotted(d.args[0])
        if default is None:
            continue
        for c in [x for x in walk_local(f.node) if isinstance(x, ast.Call)]:
            cn = (dotted(c.func) or "").split(".")[-1]
            if cn in KINDS:
                rows.append({"default": default, "fn": f, "call": c, "kind": KINDS[cn], "ctor": cn})
    return m, rows


def resolve_local(fn_node, name: str):
    """the single expression assigned to a local name inside fn (copy propagation, E3)."""
    vals = []
    for n in walk_local(fn_node):
        if isinstance(n, ast.Assign):
            for t in n.targets:
                if isinstance(t, ast.Name) and t.id == name:
                    vals.append(n.value)
    return vals


def intrinsic_ctor_params(idx, ctor: str) -> list[str]:
    m = idx.mod(INTR)
    f = m.func(f"{ctor}.__init__")
    return [a.arg for a in f.node.args.args[1:]]


def stored_fields(f_init) -> dict[str, str]:
    """param -> field for `self.<field> = <param>` (and super().__init__(param) => 'result')."""
    out = {}
    for n in walk_local(f_init.node):
        if isinstance(n, ast.Assign) and len(n.targets) == 1:
            t = n.targets[0]
            if isinstance(t, ast.Attribute) and dotted(t.value) == "self" and isinstance(n.value, ast.Name):
                out[n.value.id] = t.attr
        if isinstance(n, ast.Call) and isinstance(n.func, ast.Attribute) and n.func.attr == "__init__" and isinstance(n.func.value, ast.Call) and dotted(n.func.value.func) == "super":
            for a in n.args:
                if isinstance(a, ast.Name):
                    out.setdefault(a.id, "<super:" + a.id + ">")
    return out


# ------------------------------------------------------------------ roles
WRAPPERS = {"out.Value", "vhdl.Value", "Value"}


def role(expr: ast.AST, fn_node, depth=0) -> str | None:
    """role name carried by an expression at a hand-over (None = unknown)."""
    if depth > 6:
        return None
    if isinstance(expr, ast.Call):
        fn = dotted(expr.func)
        if fn in WRAPPERS and expr.args:
            return role(expr.args[0], fn_node, depth + 1)
        if isinstance(expr.func, ast.Attribute) and expr.func.attr == "result" and not expr.args:
            r = role(expr.func.value, fn_node, depth + 1)
            # X.result() of the node itself is the result role; of an operand it is that operand
            if r in (None, "inp", "self"):
                return "result"
            return r
        return None
    if isinstance(expr, ast.Attribute):
        base = expr.value
        if isinstance(base, ast.Name):
            return expr.attr.lstrip("_")
        return role(expr, fn_node, depth + 1) if False else expr.attr.lstrip("_")
    if isinstance(expr, ast.Name):
        vals = resolve_local(fn_node, expr.id)
        if len(vals) == 1:
            return role(vals[0], fn_node, depth + 1)
        if not vals:
            return expr.id  # parameter or the node itself
        return None
    return None


def find_branch(fn_node, test_pred):
    """first `if` in fn whose test satisfies test_pred -> If node.  When the dispatch variable named by the
    predicate does not exist any more (a renamed local), the first branch testing ANY variable for the class is used."""
    for n in walk_ordered(fn_node):
        if isinstance(n, ast.If) and test_pred(n.test):
            return n
    relaxed = getattr(test_pred, "relaxed", None)
    if relaxed is not None:
        for n in walk_ordered(fn_node):
            if isinstance(n, ast.If) and relaxed(n.test):
                return n
    return None


def isinstance_test(var: str, cls_suffix: str):
    def make(any_var):
        def pred(t):
            if isinstance(t, ast.Call) and dotted(t.func) == "isinstance" and len(t.args) == 2 and (
                dotted(t.args[0]) == var or (any_var and isinstance(t.args[0], ast.Name))
            ):
                c = t.args[1]
                names = [dotted(e) for e in (c.elts if isinstance(c, ast.Tuple) else [c])]
                if isinstance(c, ast.BinOp):
                    names = [dotted(x) for x in ast.walk(c) if isinstance(x, (ast.Attribute, ast.Name))]
                return any(n and (n == cls_suffix or n.endswith("." + cls_suffix.split(".")[-1]) and n.split(".")[0] == cls_suffix.split(".")[0]) for n in names)
            return False
        return pred
    p = make(False)
    p.relaxed = make(True)
    return p


def ctor_calls_in(stmts, name: str):
    out = []
    for s in stmts:
        for n in walk_ordered(s):
            if isinstance(n, ast.Call) and dotted(n.func) == name:
                out.append(n)
    return out


# ------------------------------------------------------------------ backend tokens
def backend_tokens(idx):
    """-> {kind: {MEMBER: (token, how, line)}} from the operator_string dicts and the special-cased
    `if self._op is X.Operator.M:` branches of the write() methods; plus operand order facts."""
    m = idx.mod(VH)
    res = {}
    order = {}
    for kind, cname in CLASS_OF_KIND.items():
        cls = m.cls(cname)
        toks = {}
        for s in cls.body:
            if isinstance(s, ast.Assign) and any(isinstance(t, ast.Name) and t.id == "operator_string" for t in s.targets) and isinstance(s.value, ast.Dict):
                for k, v in zip(s.value.keys, s.value.values):
                    mem = (dotted(k) or "").split(".")[-1]
                    tv = const_str(v)
                    if tv is None:
                        raise AnalysisError(f"non-constant token in {cname}.operator_string")
                    toks[mem] = (tv.strip(), "table", k.lineno)
        w = m.func(f"{cname}.write")
        # special cases: if self._op is <...>.Operator.MEMBER: ... return f"name(...)"
        for n in walk_local(w.node):
            if isinstance(n, ast.If) and isinstance(n.test, ast.Compare) and len(n.test.ops) == 1 and isinstance(n.test.ops[0], ast.Is):
                l, r = n.test.left, n.test.comparators[0]
                if dotted(l) == "self._op" and ".Operator." in (dotted(r) or ""):
                    mem = dotted(r).split(".")[-1]
                    fstr = None
                    for x in ast.walk(ast.Module(body=n.body, type_ignores=[])):
                        if isinstance(x, ast.Return) and isinstance(x.value, ast.JoinedStr):
                            fstr = x.value
                        elif isinstance(x, ast.Constant) and isinstance(x.value, str) and fstr is None and x.value.strip():
                            pass
                    head = None
                    if fstr is not None:
                        first = fstr.values[0]
                        if isinstance(first, ast.Constant):
                            head = first.value
                    else:
                        # e.g. format_cast(self.result, bool, f"not (...)")
                        for x in ast.walk(ast.Module(body=n.body, type_ignores=[])):
                            if isinstance(x, ast.JoinedStr) and x.values and isinstance(x.values[0], ast.Constant):
                                head = x.values[0].value
                                fstr = x
                                break
                    if head is not None:
                        tok = head.strip().rstrip("(").strip()
                        if mem not in toks:
                            toks[mem] = (tok, "special-case", n.lineno)
                        order[(kind, mem)] = _fstring_operand_order(fstr)
                    elif mem not in toks and any(isinstance(x, ast.Return) for x in ast.walk(ast.Module(body=n.body, type_ignores=[]))):
                        toks[mem] = ("", "special-case without own token", n.lineno)
        # generic template (last return with the table lookup)
        for x in walk_local(w.node):
            if isinstance(x, ast.Return) and isinstance(x.value, ast.JoinedStr):
                names = _fstring_operand_order(x.value)
                if "op" in names:
                    order[(kind, "*")] = names
        res[kind] = toks
    return res, order


def _fstring_operand_order(js: ast.JoinedStr) -> list[str]:
    """roles (lhs / rhs / arg / op) of the values interpolated into an f-string, left to right.  A local variable
    is resolved through its assignments in the enclosing function (whatever it is called): it has the role of the
    IR field (`self._lhs`, `self._rhs`, `self._arg`) or of the operator table its value is computed from."""
    mod = getattr(js, "_sa_mod", None)
    fn = mod.parents.enclosing_function(js) if mod is not None else None

    def role_of_text(t):
        if "_lhs" in t:
            return "lhs"
        if "_rhs" in t:
            return "rhs"
        if "_arg" in t or "as_bool" in t:
            return "arg"
        if "operator_string" in t:
            return "op"
        return None

    def role(e, depth=0):
        r = role_of_text(src(e))
        if r or depth > 3 or fn is None:
            return r
        roles = set()
        for nm in [x.id for x in ast.walk(e) if isinstance(x, ast.Name)]:
            for a in ast.walk(fn):
                if isinstance(a, ast.Assign) and any(isinstance(t, ast.Name) and t.id == nm for t in a.targets):
                    rr = role(a.value, depth + 1)
                    if rr:
                        roles.add(rr)
        return roles.pop() if len(roles) == 1 else None

    names = []
    for v in js.values:
        if isinstance(v, ast.FormattedValue):
            names.append(role(v.value) or src(v.value))
    return names
