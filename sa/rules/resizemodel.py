"""run-time resize (TypeQualifier.resize) decided by abstract interpretation over symbolic bits.

Specification (the compile-time twins Unsigned.resize / Signed.resize compute `value * 2**zeros` in `target_width`
bits): the result has `zeros` zero bits in the least significant positions, the operand's bits above them, and the
operand's own extension (zero for Unsigned, the sign bit for Signed) up to the target width.  The same layout is the
model the abstract interpreter itself uses for `.resize` on symbolic vectors (absint._BoundBV) - this rule ties that
model to the source."""

from __future__ import annotations

import ast

from ..astutil import AnalysisError, dotted, src
from ..absint import Interp, BV, Bit, TypeTok, Reject
from .. import pattern as P

TQ = "cohdl/_core/_type_qualifier.py"


def _prims():
    from ..props import c18
    p = c18.prims()

    class _Q:
        def __getitem__(self, t):
            def ctor(v=None, *a, **k):
                w = t.params["width"]
                if not isinstance(v, BV) or v.width > w:
                    raise Reject("constructor from wider value")
                fill = v.bits[-1] if t.name == "Signed" else Bit("0")
                if t.name == "Signed" and v.kind != "Signed" or t.name == "Unsigned" and v.kind != "Unsigned":
                    raise Reject(f"{t.name}[{w}] constructed from a {v.kind} value")
                return BV(v.bits + (fill,) * (w - v.width), t.name)
            return ctor

    p["Temporary"] = _Q()
    base_ga = p.get("__getattr__")

    def ga(base, attr):
        if isinstance(base, BV) and attr == "type":
            return TypeTok(base.kind, width=base.width)
        if base_ga is not None:
            return base_ga(base, attr)
        raise AnalysisError(f"resize model: attribute {attr} of {base!r}")

    p["__getattr__"] = ga
    sub = p["issubclass"]

    def issub(a, b):
        if isinstance(a, TypeTok) and a.name in ("Signed", "Unsigned", "BitVector"):
            bn = getattr(b, "name", None) or (b.name if hasattr(b, "name") else None)
            if bn is None and hasattr(b, "__getitem__"):
                bn = getattr(b, "name", None)
            if bn in ("Signed", "Unsigned"):
                return a.name == bn
            if bn == "BitVector":
                return True
        return sub(a, b)

    p["issubclass"] = issub
    p["subclass_check"] = issub
    return p


def run_rule(run, rule_id="C09.resize"):
    run.begin(
        rule_id,
        "run-time resize(target_width, zeros=n) == the constant twins' value * 2**n: n zero bits in the LEAST significant "
        "positions, the operand above them, extended in its own signedness; for all bit values, widths 1..4, zeros 0..3",
        floor=60,
    )
    mod = run.idx.mod(TQ)
    f = mod.func("TypeQualifier.resize")
    for kind in ("Unsigned", "Signed"):
        for w in run.bound((1, 2, 3, 4), (1, 2, 3, 4, 5, 8)):
            for zeros in run.bound((0, 1, 2, 3), (0, 1, 2, 3, 4, 7)):
                for extra in (None, 0, 2):
                    x = BV.sym("x", w, kind)
                    tw = None if extra is None else w + zeros + extra
                    exp_w = w + zeros + (extra or 0)
                    fill = x.bits[-1] if kind == "Signed" else Bit("0")
                    exp = (Bit("0"),) * zeros + x.bits + (fill,) * (exp_w - w - zeros)
                    try:
                        got = Interp(mod, _prims()).call_function("TypeQualifier.resize", x, tw, zeros=zeros)
                        gb = got.bits if isinstance(got, BV) else None
                        gk = got.kind if isinstance(got, BV) else None
                        found = repr(got)
                    except Reject as e:
                        gb, gk, found = None, None, f"rejected: {e}"
                    run.ob(gb == exp and gk == kind, "TypeQualifier.resize", file=mod.rel, line=f.node.lineno,
                           detail=f"{kind} w={w} zeros={zeros} target={'default' if tw is None else tw}",
                           expected=f"{kind}<" + " ".join(map(repr, reversed(exp))) + ">", found=found[:120],
                           sample=(w == 2 and zeros == 1 and extra == 2))
    # narrowing is rejected
    x = BV.sym("x", 3, "Unsigned")
    try:
        Interp(mod, _prims()).call_function("TypeQualifier.resize", x, 3, zeros=1)
        rej = False
    except Reject:
        rej = True
    run.ob(rej, "TypeQualifier.resize", file=mod.rel, line=f.node.lineno, detail="no-truncation", expected="padded width > target width is rejected", found="rejected" if rej else "accepted")
    run.end()
