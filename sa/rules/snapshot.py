"""F-SNAPSHOT - save/restore pairs must save a COPY when the saved object is mutated in place.

A context manager (or try/finally) that protects global state against exceptions saves the state on entry and
restores it on exit.  If the state is a mutable container that the protected code mutates IN PLACE (append/pop/...),
saving a reference saves nothing: at exit the "saved" object is the mutated one, and `G[:] = saved` is a no-op."""

from __future__ import annotations

import ast

from ..astutil import AnalysisError, dotted, src, walk_local

MUTATORS = {"append", "pop", "extend", "insert", "remove", "clear", "add", "discard", "update", "setdefault", "popitem", "sort", "reverse"}


def _is_copy_of(e, target):
    """e evaluates to a fresh container with the contents of target"""
    t = target
    if isinstance(e, ast.Call):
        f = dotted(e.func) or ""
        if f in ("list", "dict", "set", "tuple", "frozenset", "copy.copy", "copy.deepcopy", "deepcopy", "IdMap", "IdSet") and e.args and dotted(e.args[0]) == t:
            return True
        if isinstance(e.func, ast.Attribute) and e.func.attr == "copy" and dotted(e.func.value) == t:
            return True
    if isinstance(e, ast.Subscript) and dotted(e.value) == t and isinstance(e.slice, ast.Slice) and e.slice.lower is None and e.slice.upper is None:
        return True
    if isinstance(e, (ast.List, ast.Tuple, ast.Set)) and len(e.elts) == 1 and isinstance(e.elts[0], ast.Starred) and dotted(e.elts[0].value) == t:
        return True
    if isinstance(e, ast.Dict) and len(e.keys) == 1 and e.keys[0] is None and dotted(e.values[0]) == t:
        return True
    return False


def inplace_mutations(idx, tail: str):
    """sites anywhere in the package that mutate `<...>.tail` in place"""
    out = []
    for m in idx.all_modules("cohdl/"):
        for n in ast.walk(m.tree):
            if isinstance(n, ast.Call) and isinstance(n.func, ast.Attribute) and n.func.attr in MUTATORS:
                d = dotted(n.func.value) or ""
                if d == tail or d.endswith("." + tail):
                    out.append(f"{m.rel}:{n.lineno}")
            elif isinstance(n, (ast.Assign, ast.AugAssign, ast.Delete)):
                tgts = n.targets if isinstance(n, (ast.Assign, ast.Delete)) else [n.target]
                for t in tgts:
                    if isinstance(t, ast.Subscript):
                        d = dotted(t.value) or ""
                        if d == tail or d.endswith("." + tail):
                            out.append(f"{m.rel}:{n.lineno}")
    return out


def pairs(idx):
    """(module, class, target, saved attr, save expr node, restore stmt, in_place_restore)"""
    out = []
    for m in idx.all_modules("cohdl/"):
        for cname, c in m.classes.items():
            en = m.functions.get(f"{cname}.__enter__")
            ex = m.functions.get(f"{cname}.__exit__")
            if en is None or ex is None:
                continue
            saves = {}
            for a in walk_local(en.node):
                if isinstance(a, ast.Assign) and len(a.targets) == 1 and (dotted(a.targets[0]) or "").startswith("self."):
                    saves[dotted(a.targets[0])] = a
            for a in walk_local(ex.node):
                if isinstance(a, ast.Assign) and len(a.targets) == 1 and dotted(a.value) in saves:
                    t = a.targets[0]
                    inplace = isinstance(t, ast.Subscript)
                    tgt = dotted(t.value) if inplace else dotted(t)
                    if tgt is None or tgt.startswith("self."):
                        continue
                    out.append((m, cname, tgt, dotted(a.value), saves[dotted(a.value)], a, inplace))
    return out


def run_rule(run, rule_id="F-SNAPSHOT"):
    run.begin(
        rule_id,
        "save/restore context managers: state that is restored in place (`G[:] = saved`) or that is mutated in place "
        "somewhere in the package is saved as a COPY on entry (list(G), G.copy(), [*G] ...), never by reference",
        floor=2,
    )
    n = 0
    for m, cname, tgt, attr, save, restore, inplace in pairs(run.idx):
        tail = ".".join(tgt.split(".")[-2:]) if "." in tgt else tgt
        muts = inplace_mutations(run.idx, tail)
        n += 1
        if not inplace and not muts:
            run.ob(True, f"{cname}.__enter__", file=m.rel, line=save.lineno, detail=tgt, expected="reference or copy (the state is only ever rebound)", found=src(save.value)[:60], sample=False)
            continue
        ok = _is_copy_of(save.value, tgt)
        why = "restored in place" if inplace else f"mutated in place at {muts[:2]}"
        run.ob(ok, f"{cname}.__enter__", file=m.rel, line=save.lineno, detail=tgt, expected=f"a copy of {tgt} ({why})", found=src(save.value)[:80])
    if n < 2:
        raise AnalysisError(f"{rule_id}: save/restore pairs not recognised ({n})")
    # positive control: a by-reference save must not count as a copy
    e = ast.parse("G.scope").body[0].value
    c = ast.parse("list(G.scope)").body[0].value
    if _is_copy_of(e, "G.scope") or not _is_copy_of(c, "G.scope"):
        raise AnalysisError(f"{rule_id}: positive control failed")
    run.note("positive control: `self.s = G.scope` is a reference, `list(G.scope)` a copy")
    run.end()
