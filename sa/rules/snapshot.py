"""F-SNAPSHOT - save/restore pairs must save a COPY when the saved object is mutated in place.

A context manager (or try/finally) that protects global state against exceptions saves the state on entry and
restores it on exit.  If the state is a mutable container that the protected code mutates IN PLACE (append/pop/...),
saving a reference saves nothing: at exit the "saved" object is the mutated one, and `G[:] = saved` is a no-op."""

from __future__ import annotations

import ast

from ..astutil import AnalysisError, dotted, src, walk_local

MUTATORS = {"append", "pop", "extend", "insert", "remove", "clear", "add", "discard", "update", "setdefault", "popitem", "sort", "reverse"}


def _is_copy_of(e, target):
    """e evaluates to a fresh container with the contents of target"""
    t = target
    if isinstance(e, ast.Call):
        f = dotted(e.func) or ""
        if f in ("list", "dict", "set", "tuple", "frozenset", "copy.copy", "copy.deepcopy", "deepcopy", "IdMap", "IdSet") and e.args and dotted(e.args[0]) == t:
            return True
        if isinstance(e.func, ast.Attribute) and e.func.attr == "copy" and dotted(e.func.value) == t:
            return True
    if isinstance(e, ast.Subscript) and dotted(e.value) == t and isinstance(e.slice, ast.Slice) and e.slice.lower is None and e.slice.upper is None:
        return True
    if isinstance(e, (ast.List, ast.Tuple, ast.Set)) and len(e.elts) == 1 and isinstance(e.elts[0], ast.Starred) and dotted(e.elts[0].value) == t:
        return True
    if isinstance(e, ast.Dict) and len(e.keys) == 1 and e.keys[0] is None and dotted(e.values[0]) == t:
        return True
    return False


def inplace_mutations(idx, tail: str):
    """sites anywhere in the package that mutate `<...>.tail` in place"""
    out = []
    for m in idx.all_modules("cohdl/"):
        for n in ast.walk(m.tree):
            if isinstance(n, ast.Call) and isinstance(n.func, ast.Attribute) and n.func.attr in MUTATORS:
                d = dotted(n.func.value) or ""
                if d == tail or d.endswith("." + tail):
                    out.append(f"{m.rel}:{n.lineno}")
            elif isinstance(n, (ast.Assign, ast.AugAssign, ast.Delete)):
                tgts = n.targets if isinstance(n, (ast.Assign, ast.Delete)) else [n.target]
                for t in tgts:
                    if isinstance(t, ast.Subscript):
                        d = dotted(t.value) or ""
                        if d == tail or d.endswith("." + tail):
                            out.append(f"{m.rel}:{n.lineno}")
    return out


def pairs(idx):
    """(module, class, target, saved attr, save expr node, restore stmt, in_place_restore)"""
    out = []
    for m in idx.all_modules("cohdl/"):
        for cname, c in m.classes.items():
            en = m.functions.get(f"{cname}.__enter__")
            ex = m.functions.get(f"{cname}.__exit__")
            if en is None or ex is None:
                continue
            saves = {}
            for a in walk_local(en.node):
                if isinstance(a, ast.Assign) and len(a.targets) == 1 and (dotted(a.targets[0]) or "").startswith("self."):
                    saves[dotted(a.targets[0])] = a
            for a in walk_local(ex.node):
                if isinstance(a, ast.Assign) and len(a.targets) == 1 and dotted(a.value) in saves:
                    t = a.targets[0]
                    inplace = isinstance(t, ast.Subscript)
                    tgt = dotted(t.value) if inplace else dotted(t)
                    if tgt is None or tgt.startswith("self."):
                        continue
                    out.append((m, cname, tgt, dotted(a.value), saves[dotted(a.value)], a, inplace))
    return out


def run_rule(run, rule_id="F-SNAPSHOT"):
    run.begin(
        rule_id,
        "save/restore context managers: state that is restored in place (`G[:] = saved`) or that is mutated in place "
        "somewhere in the package is saved as a COPY on entry (list(G), G.copy(), [*G] ...), never by reference",
        floor=2,
    )
    n = 0
    for m, cname, tgt, attr, save, restore, inplace in pairs(run.idx):
        tail = ".".join(tgt.split(".")[-2:]) if "." in tgt else tgt
        muts = inplace_mutations(run.idx, tail)
        n += 1
        if not inplace and not muts:
            run.ob(True, f"{cname}.__enter__", file=m.rel, line=save.lineno, detail=tgt, expected="reference or copy (the state is only ever rebound)", found=src(save.value)[:60], sample=False)
            continue
        ok = _is_copy_of(save.value, tgt)
        why = "restored in place" if inplace else f"mutated in place at {muts[:2]}"
        run.ob(ok, f"{cname}.__enter__", file=m.rel, line=save.lineno, detail=tgt, expected=f"a copy of {tgt} ({why})", found=src(save.value)[:80])
    # every value saved on entry and used on exit is put back by ASSIGNMENT to the place it was read from (rebinding or
    # in-place `G[:] = saved`): a restore routed through a setter can decline (e.g. for None) and leave stale state behind
    for m in run.idx.all_modules("cohdl/"):
        for cname in m.classes:
            en = m.functions.get(f"{cname}.__enter__")
            ex = m.functions.get(f"{cname}.__exit__")
            if en is None or ex is None:
                continue
            saves = {dotted(a.targets[0]): a for a in walk_local(en.node) if isinstance(a, ast.Assign) and len(a.targets) == 1 and (dotted(a.targets[0]) or "").startswith("self.")}
            for attr, a in saves.items():
                reads = [x for x in ast.walk(ex.node) if isinstance(x, ast.Attribute) and dotted(x) == attr and isinstance(x.ctx, ast.Load)]
                if not reads:
                    continue
                assigned = any(isinstance(st, ast.Assign) and dotted(st.value) == attr for st in walk_local(ex.node))
                as_arg = [c for c in ast.walk(ex.node) if isinstance(c, ast.Call) and any(dotted(x) == attr for x in c.args)]
                if assigned or not as_arg:
                    continue
                n += 1
                run.ob(False, f"{cname}.__exit__", file=m.rel, line=as_arg[0].lineno, detail=f"restores-{attr}", expected=f"<state> = {attr}  (the value read in __enter__ is assigned back)",
                       found=f"`{src(as_arg[0])[:60]}`: the saved value is handed to a routine that may not restore it")
    if n < 2:
        raise AnalysisError(f"{rule_id}: save/restore pairs not recognised ({n})")
    # positive control: a by-reference save must not count as a copy
    e = ast.parse("G.scope").body[0].value
    c = ast.parse("list(G.scope)").body[0].value
    if _is_copy_of(e, "G.scope") or not _is_copy_of(c, "G.scope"):
        raise AnalysisError(f"{rule_id}: positive control failed")
    run.note("positive control: `self.s = G.scope` is a reference, `list(G.scope)` a copy")
    run.end()


# ---------------------------------------------------------------------------- aliases of shared containers
def class_level_containers(idx):
    """{attribute name: [(module, class)]} for mutable containers created in class bodies / at module level"""
    out = {}
    for m in idx.all_modules("cohdl/"):
        for cname, c in m.classes.items():
            for st in c.body:
                if isinstance(st, (ast.Assign, ast.AnnAssign)) and st.value is not None:
                    v = st.value
                    mutable = isinstance(v, (ast.Set, ast.Dict, ast.List)) or (isinstance(v, ast.Call) and dotted(v.func) in ("set", "dict", "list", "IdMap", "IdSet", "collections.OrderedDict", "OrderedDict")) \
                        or (isinstance(v, ast.BinOp) and isinstance(v.op, (ast.BitOr, ast.BitAnd, ast.Sub, ast.Add)) and all(isinstance(x, (ast.Name, ast.Set, ast.BinOp)) for x in (v.left, v.right)))
                    t = st.targets[0] if isinstance(st, ast.Assign) else st.target
                    if mutable and isinstance(t, ast.Name):
                        out.setdefault(t.id, []).append((m, cname))
    return out


def run_alias_rule(run, rule_id="F-ALIAS"):
    run.begin(
        rule_id,
        "containers shared by all compilations (class-level sets / dicts / lists) are never updated in place through a "
        "local alias (`r = self._table; r |= extra` changes the table for every later compilation), and a global that is "
        "re-bound somewhere is not aliased at import time (the alias would keep pointing at the old object)",
        floor=1,
    )
    idx = run.idx
    shared = class_level_containers(idx)
    n_alias = 0
    for m in idx.all_modules("cohdl/"):
        for q, f in m.functions.items():
            aliases = {}
            for a in walk_local(f.node):
                if isinstance(a, ast.Assign) and isinstance(a.targets[0], ast.Name) and isinstance(a.value, ast.Attribute) and a.value.attr in shared:
                    base = dotted(a.value.value) or ""
                    if base in ("self", "cls") or base.split(".")[-1] in {c for _m, c in shared[a.value.attr]} or base == "type(self)":
                        aliases[a.targets[0].id] = (a.value.attr, a.lineno)
            if not aliases:
                continue
            n_alias += len(aliases)
            for x in walk_local(f.node):
                hit = None
                if isinstance(x, ast.AugAssign) and isinstance(x.target, ast.Name) and x.target.id in aliases and isinstance(x.op, (ast.BitOr, ast.Add, ast.BitAnd, ast.Sub, ast.BitXor)):
                    hit = x.target.id
                elif isinstance(x, ast.Call) and isinstance(x.func, ast.Attribute) and x.func.attr in MUTATORS and isinstance(x.func.value, ast.Name) and x.func.value.id in aliases:
                    hit = x.func.value.id
                elif isinstance(x, (ast.Assign, ast.Delete)):
                    for t in (x.targets if isinstance(x, (ast.Assign, ast.Delete)) else []):
                        if isinstance(t, ast.Subscript) and isinstance(t.value, ast.Name) and t.value.id in aliases:
                            hit = t.value.id
                if hit:
                    attr, line = aliases[hit]
                    # rebinding the alias first (hit = set(hit) ...) makes it a private copy
                    rebound = any(isinstance(a, ast.Assign) and dotted(a.targets[0]) == hit and a.lineno > line and a.lineno < x.lineno for a in walk_local(f.node))
                    run.ob(rebound, f"{m.rel.split('/')[-1]}::{q}", file=m.rel, line=x.lineno, detail=f"in-place-via-{hit}", expected=f"a private copy of the shared `{attr}` (or a new object) is modified", found=src(x)[:70])
    # a shared container stored into an instance attribute that the class updates in place
    for m in idx.all_modules("cohdl/"):
        for q, f in m.functions.items():
            for a in walk_local(f.node):
                if not (isinstance(a, ast.Assign) and isinstance(a.targets[0], ast.Attribute) and dotted(a.targets[0].value) == "self"):
                    continue
                vals = [a.value] + ([a.value.body, a.value.orelse] if isinstance(a.value, ast.IfExp) else [])
                for v in vals:
                    if isinstance(v, ast.Attribute) and v.attr in shared and (dotted(v.value) in ("self", "cls", "type(self)") or (dotted(v.value) or "").split(".")[-1] in {c for _m, c in shared[v.attr]}):
                        inst = a.targets[0].attr
                        cls_q = q.rsplit(".", 1)[0]
                        # in-place updates of that instance attribute anywhere in the module (the class or its bases / subclasses)
                        muts = [f"{g.node.name}:{x.lineno}" for q2, g in m.functions.items() for x in ast.walk(g.node)
                                if isinstance(x, ast.Call) and isinstance(x.func, ast.Attribute) and x.func.attr in MUTATORS and dotted(x.func.value) == f"self.{inst}"]
                        if muts:
                            run.ob(False, f"{m.rel.split('/')[-1]}::{q}", file=m.rel, line=a.lineno, detail=f"shared-{v.attr}-stored-as-{inst}", expected=f"self.{inst} is a fresh object (it is updated in place at {muts[0]})", found=src(a)[:70])
    # memoised factories hand the same mutable object to every caller
    for m in idx.all_modules("cohdl/"):
        for q, f in m.functions.items():
            for d in f.node.decorator_list:
                dn = dotted(d.func) if isinstance(d, ast.Call) else dotted(d)
                if dn and dn.split(".")[-1] in ("cache", "lru_cache", "cached_property"):
                    run.ob(False, f"{m.rel.split('/')[-1]}::{q}", file=m.rel, line=f.node.lineno, detail="memoised", expected="a fresh result per call (results are mutable objects that trial assignments write to)", found=f"@{dn}")
    # import-time aliases of re-bound globals
    rebound_targets = {}
    for m in idx.all_modules("cohdl/"):
        for q, f in m.functions.items():
            for a in walk_local(f.node):
                if isinstance(a, ast.Assign) and isinstance(a.targets[0], ast.Attribute):
                    d = dotted(a.targets[0]) or ""
                    if d.count(".") == 1 and not d.startswith(("self.", "cls.")) and d.split(".")[1] in shared:
                        rebound_targets.setdefault(d, []).append(f"{m.rel}:{a.lineno}")
    for m in idx.all_modules("cohdl/"):
        for st in m.tree.body:
            if isinstance(st, ast.Assign) and isinstance(st.targets[0], ast.Name) and isinstance(st.value, ast.Attribute):
                d = dotted(st.value) or ""
                if d in rebound_targets:
                    run.ob(False, f"{m.rel.split('/')[-1]}::<module>", file=m.rel, line=st.lineno, detail=f"import-time-alias-{st.targets[0].id}", expected=f"{d} is looked up when needed (it is re-bound at {rebound_targets[d][0]})", found=src(st)[:70])
    run.ob(True, "package", file="cohdl/", line=0, detail="scan", expected="no in-place update through an alias", found=f"{len(shared)} shared container names, {n_alias} local aliases examined")
    # positive control
    ctl = ast.parse("def f(self, extra):\n    r = self._additional_reserved\n    r |= extra\n")
    if not any(isinstance(x, ast.AugAssign) for x in ast.walk(ctl)):
        raise AnalysisError(f"{rule_id}: control")
    run.end()
