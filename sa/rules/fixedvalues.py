"""C19.values - resize of fixed-point numbers, decided value by value for all raw values of small formats.

SFixed.resize_fn / UFixed.resize_fn are interpreted from their AST (sa/absint.py) on CONCRETE bit vectors (class CV: a
width, an unsigned bit pattern and a kind) for every raw value of every source format up to 4 bits and every target
format up to 4 bits, for the four combinations of round style x overflow style.  Specification, in exact rationals:
   v = raw * 2**right;  TRUNCATE: floor(v / 2**R) ;  ROUND: nearest multiple of 2**R, ties to the even multiple;
   WRAP: the result modulo 2**(width) in the target's range ;  SATURATE: clamped to the target's [min, max].
"""

from __future__ import annotations

import ast
from fractions import Fraction
import math

from ..astutil import AnalysisError, dotted, src
from ..absint import Interp, Reject

FX = "cohdl/std/_fixed.py"


class CV:
    """concrete vector"""

    def __init__(self, width, bits, kind="BitVector"):
        if width <= 0:
            raise Reject(f"vector of width {width}")
        self.width, self.bits, self.kind = width, bits & ((1 << width) - 1), kind

    # value
    def to_int(self):
        if self.kind == "Signed" and self.bits >> (self.width - 1):
            return self.bits - (1 << self.width)
        return self.bits

    def __bool__(self):
        return self.bits != 0

    def __repr__(self):
        return f"{self.kind}[{self.width}]({self.bits:0{self.width}b})"

    # views
    @property
    def signed(self):
        return CV(self.width, self.bits, "Signed")

    @property
    def unsigned(self):
        return CV(self.width, self.bits, "Unsigned")

    @property
    def bitvector(self):
        return CV(self.width, self.bits, "BitVector")

    def copy(self):
        return CV(self.width, self.bits, self.kind)

    # selection (inclusive downto slices)
    def __getitem__(self, k):
        if isinstance(k, slice):
            hi, lo = k.start, k.stop
            if not (isinstance(hi, int) and isinstance(lo, int)) or not 0 <= lo <= hi < self.width:
                raise Reject(f"slice [{hi}:{lo}] of width {self.width}")
            return CV(hi - lo + 1, self.bits >> lo, "BitVector")
        if isinstance(k, int) and not isinstance(k, bool):
            if not 0 <= k < self.width:
                raise Reject(f"index {k} of width {self.width}")
            return CV(1, self.bits >> k, "Bit")
        raise AnalysisError(f"CV index {k!r}")

    def _part(self, low, count, rest):
        w = self.width
        if count is None and rest is None:
            return self[0] if low else self[w - 1]
        if count is None:
            count = w - rest
        elif rest is not None and count + rest != w:
            raise Reject("count + rest != width")
        if not 0 < count <= w:
            raise Reject(f"{'lsb' if low else 'msb'}({count}) of width {w}")
        return self[count - 1:0] if low else self[w - 1:w - count]

    def lsb(self, count=None, rest=None):
        return self._part(True, count, rest)

    def msb(self, count=None, rest=None):
        return self._part(False, count, rest)

    def resize(self, target_width=None, *, zeros=0):
        if zeros < 0:
            raise Reject("negative zeros")
        if target_width is None:
            target_width = self.width + zeros
        if self.width + zeros > target_width:
            raise Reject("resize truncates")
        if self.kind not in ("Signed", "Unsigned"):
            raise Reject("resize of a plain vector")
        return CV(target_width, (self.to_int() << zeros), self.kind)

    # arithmetic / logic (numeric_std: result width = max of the operand widths, wraps)
    def _arith(self, other, op):
        if isinstance(other, int):
            other = CV(self.width, other, self.kind)
        if not isinstance(other, CV) or self.kind not in ("Signed", "Unsigned") or other.kind != self.kind:
            raise Reject(f"arithmetic on {self!r}, {other!r}")
        w = max(self.width, other.width)
        return CV(w, op(self.to_int(), other.to_int()), self.kind)

    def __add__(self, o):
        return self._arith(o, lambda a, b: a + b)

    def __sub__(self, o):
        return self._arith(o, lambda a, b: a - b)

    def __invert__(self):
        return CV(self.width, ~self.bits, self.kind)


class _VecType:
    def __init__(self, kind, width=None):
        self.kind, self.width = kind, width

    def __getitem__(self, w):
        return _VecType(self.kind, w)

    def __call__(self, v=None):
        w = self.width
        if v is None or v == "Null":
            return CV(w, 0, self.kind)
        if isinstance(v, int):
            lo, hi = (-(1 << (w - 1)), (1 << (w - 1)) - 1) if self.kind == "Signed" else (0, (1 << w) - 1)
            if not lo <= v <= hi:
                raise Reject(f"{self.kind}[{w}]({v}) out of range")
            return CV(w, v, self.kind)
        if isinstance(v, CV):
            if v.width > w:
                raise Reject(f"{self.kind}[{w}] from a {v.width}-bit value")
            if v.kind in ("Signed", "Unsigned") and v.kind != self.kind and not (self.kind == "Signed" and v.width < w):
                raise Reject(f"{self.kind} from {v.kind}")
            if v.kind not in ("Signed", "Unsigned") and v.width != w:
                raise Reject("plain vector of different width")
            return CV(w, v.to_int() if v.kind in ("Signed", "Unsigned") else v.bits, self.kind)
        raise AnalysisError(f"{self.kind}[{w}]({v!r})")

    def min(self):
        return CV(self.width, -(1 << (self.width - 1)) if self.kind == "Signed" else 0, self.kind)

    def max(self):
        return CV(self.width, (1 << (self.width - 1)) - 1 if self.kind == "Signed" else (1 << self.width) - 1, self.kind)


class _Qual:
    """Value[T](x): a T holding x"""

    def __getitem__(self, t):
        return lambda x=None, *a, **k: t(x)

    def __call__(self, x=None, *a, **k):
        return x


class _Style:
    def __init__(self, **kw):
        self.__dict__.update(kw)


ROUNDS = _Style(TRUNCATE="TRUNCATE", ROUND="ROUND")
OVERFLOWS = _Style(WRAP="WRAP", SATURATE="SATURATE")


def spec(kind, raw_int, l1, r1, l2, r2, rs, os_):
    v = Fraction(raw_int) * Fraction(2) ** r1
    q = v / (Fraction(2) ** r2)
    if rs == "TRUNCATE":
        n = math.floor(q)
    else:
        fl = math.floor(q)
        d = q - fl
        n = fl + (1 if d > Fraction(1, 2) or (d == Fraction(1, 2) and fl % 2 == 1) else 0)
    w = l2 - r2 + 1
    lo, hi = (-(1 << (w - 1)), (1 << (w - 1)) - 1) if kind == "SFixed" else (0, (1 << w) - 1)
    if os_ == "SATURATE":
        n = min(max(n, lo), hi)
    else:
        n = (n - lo) % (1 << w) + lo
    return n


def run_rule(run, rule_id="C19.values"):
    run.begin(
        rule_id,
        "resize of SFixed / UFixed equals the exact rational specification (truncate = floor, round = nearest with ties to "
        "even, wrap = modulo, saturate = clamp) for EVERY raw value of every pair of formats up to 4 bits and all four "
        "style combinations - concrete abstract evaluation of resize_fn",
        floor=200,
    )
    mod = run.idx.mod(FX)
    cu = run.idx.mod("cohdl/std/_core_utility.py")
    maxw = run.bound(4, 5)
    fmts = [(l, r) for l in range(-2, 4) for r in range(-3, l + 1) if l - r + 1 <= maxw]
    for kind, rawkind in (("SFixed", "Signed"), ("UFixed", "Unsigned")):
        f = mod.func(f"{kind}.resize_fn")

        class _Result:
            def __init__(self, l, r):
                self.l, self.r = l, r
                self._width = l - r + 1

            def __call__(self, val=None, *, raw=None, **kw):
                if raw is None or not isinstance(raw, CV):
                    raise AnalysisError(f"{kind}[..] constructed without a concrete raw value ({raw!r})")
                if raw.width != self._width:
                    raise Reject(f"raw value of width {raw.width} for a {self._width}-bit format")
                if raw.kind != rawkind:
                    raise Reject(f"raw value of kind {raw.kind}")
                return raw

        class _Fixed:
            def __getitem__(self, sl):
                return _Result(sl.start, sl.stop)

        def choose_first(*pairs, default):
            return Interp(cu, {"len": len}).call_function("_first_impl", *pairs, default=default)

        prims = {"SFixed": _Fixed(), "UFixed": _Fixed(), "Signed": _VecType("Signed"), "Unsigned": _VecType("Unsigned"), "BitVector": _VecType("BitVector"),
                 "Value": _Qual(), "Null": "Null", "FixedRoundStyle": ROUNDS, "FixedOverflowStyle": OVERFLOWS, "choose_first": choose_first,
                 "min": min, "max": max, "bool": bool, "type": lambda x: (lambda *a, raw=None, **k: raw), "isinstance": lambda v, t: False,
                 "__binop__": lambda op, l, r: {"Add": lambda: l + r, "Sub": lambda: l - r}[op](), "__unop__": lambda op, v: ~v if op == "Invert" else (_ for _ in ()).throw(AnalysisError(op))}
        for (l1, r1) in fmts:
            w1 = l1 - r1 + 1
            for (l2, r2) in fmts:
                if not (r2 <= l1 and r1 <= l2):
                    continue  # disjoint bit ranges: not a meaningful resize (the implementation mostly rejects it)
                for rs in ("TRUNCATE", "ROUND"):
                    if kind == "SFixed" and rs == "ROUND" and l2 == r2 and r2 > r1:
                        continue  # 1-bit signed target with rounding: rejected by the increment's width (Signed[2]); outside the claim
                    for os_ in ("WRAP", "SATURATE"):
                        bad = []
                        n_vals = 0
                        for bits in range(1 << w1):
                            raw = CV(w1, bits, rawkind)

                            class _Self:
                                pass
                            so = _Self()
                            so._val, so._width, so._exp = raw, w1, r1
                            so.left, so.right = (lambda l1=l1: l1), (lambda r1=r1: r1)
                            exp = spec(kind, raw.to_int(), l1, r1, l2, r2, rs, os_)
                            try:
                                got = Interp(mod, dict(prims)).call_function(f"{kind}.resize_fn", so, l2, r2, rs, os_)
                                gi = got.to_int() if isinstance(got, CV) else repr(got)
                            except Reject as e:
                                gi = f"rejected: {e}"
                            n_vals += 1
                            if gi != exp:
                                bad.append((raw.to_int(), exp, gi))
                        ok = not bad
                        scale = lambda n, r: str(Fraction(n) * Fraction(2) ** r)
                        found = "ok" if ok else "; ".join(f"{scale(a, r1)} -> {scale(g, r2) if isinstance(g, int) else g} (expected {scale(e, r2)})" for a, e, g in bad[:3]) + (f" (+{len(bad) - 3} more)" if len(bad) > 3 else "")
                        run.ob(ok, f"{kind}.resize_fn", file=mod.rel, line=f.node.lineno, detail=f"[{l1}:{r1}]->[{l2}:{r2}] {rs} {os_}",
                               expected=f"exact for all {n_vals} raw values", found=found, sample=((l1, r1, l2, r2, rs, os_) == (1, -2, 0, -1, "ROUND", "SATURATE")))
    run.end()
