"""F-ORDER - iteration over values whose static kind is *unordered* (set-like).

The iteration order of a Python set depends on hashes (PYTHONHASHSEED for str,
object addresses for id()-based hashes); any such order that reaches emitted
text breaks C11.  The rule lists every order-sensitive consumption of a value
that is statically known to be set-like.
"""

from __future__ import annotations

import ast

from ..astutil import FUNC_TYPES, dotted, walk_local, src, call_name
from .. import pattern as P

SET_CTORS = {"set", "frozenset", "IdSet"}
ORDER_FREE_CONSUMERS = {"len", "sorted", "min", "max", "any", "all", "sum", "set", "frozenset", "bool", "IdSet"}
ORDER_SENSITIVE_CONSUMERS = {"list", "tuple", "enumerate", "iter", "next", "zip", "reversed", "dict"}


def _ann_is_set(ann: ast.AST | None) -> bool:
    if ann is None:
        return False
    text = P.T(ann)
    head = text.split("[")[0].strip().strip("'\"")
    return head in ("set", "frozenset", "Set", "FrozenSet", "typing.Set", "AbstractSet")


# package-wide facts computed once per Index (inter-procedural step): which functions return a set, and which
# parameters are handed a set by some caller (resolved by simple name when that name is unique in the package)
_GLOBAL: dict = {}


def global_kinds(idx):
    key = id(idx)
    if key in _GLOBAL:
        return _GLOBAL[key]
    facts = {"returns_set": set(), "set_params": {}}
    _GLOBAL.clear()
    _GLOBAL[key] = facts
    mods = idx.all_modules("cohdl/")
    by_name: dict[str, list] = {}
    for m in mods:
        for q, f in m.functions.items():
            by_name.setdefault(f.node.name, []).append((m, f))
    for _round in range(3):
        # functions all of whose value-returns are unordered expressions
        for m in mods:
            for q, f in m.functions.items():
                k = UnorderedKinds(m, f, facts)
                rets = [r for r in walk_local(f.node, include_self=False) if isinstance(r, ast.Return) and r.value is not None]
                if rets and all(k.is_unordered(r.value) for r in rets):
                    facts["returns_set"].add(f.node.name)
        # call sites passing an unordered argument
        for m in mods:
            for q, f in m.functions.items():
                k = UnorderedKinds(m, f, facts)
                for c in walk_local(f.node, include_self=False):
                    if not isinstance(c, ast.Call):
                        continue
                    name = c.func.attr if isinstance(c.func, ast.Attribute) else (c.func.id if isinstance(c.func, ast.Name) else None)
                    cands = by_name.get(name) or []
                    if name == "__init__" or len(cands) != 1:
                        # constructor call `Cls(args)`: resolve to Cls.__init__
                        cls_inits = [(m2, g) for m2 in mods for q2, g in m2.functions.items() if q2 == f"{name}.__init__"] if name else []
                        if len(cls_inits) == 1:
                            cands = cls_inits
                        else:
                            continue
                    m2, g = cands[0]
                    params = [a.arg for a in g.node.args.posonlyargs + g.node.args.args]
                    off = 1 if params[:1] in (["self"], ["cls"]) else 0
                    for i, a in enumerate(c.args):
                        if k.is_unordered(a) and i + off < len(params):
                            facts["set_params"].setdefault((m2.rel, g.qualname), set()).add(params[i + off])
    return facts


class UnorderedKinds:
    """very small flow-insensitive kind inference inside one function / class (plus the package-wide facts)."""

    def __init__(self, mod, f, facts=None):
        self.mod = mod
        self.f = f
        self.facts = facts or {"returns_set": set(), "set_params": {}}
        self.names: set[str] = set(self.facts["set_params"].get((mod.rel, f.qualname), ()))
        self.attrs: set[str] = set()  # self.<attr>
        fn = f.node
        a = fn.args
        for arg in a.posonlyargs + a.args + a.kwonlyargs:
            if _ann_is_set(arg.annotation):
                self.names.add(arg.arg)
        if f.cls is not None:
            for m in ast.walk(f.cls):
                if isinstance(m, ast.AnnAssign) and _ann_is_set(m.annotation):
                    t = m.target
                    if isinstance(t, ast.Attribute) and isinstance(t.value, ast.Name) and t.value.id == "self":
                        self.attrs.add(t.attr)
                    elif isinstance(t, ast.Name):
                        self.attrs.add(t.id)
                elif isinstance(m, ast.Assign):
                    for t in m.targets:
                        if isinstance(t, ast.Attribute) and isinstance(t.value, ast.Name) and t.value.id == "self":
                            if self._expr_is_set_shallow(m.value):
                                self.attrs.add(t.attr)
        changed = True
        rounds = 0
        while changed and rounds < 5:
            changed = False
            rounds += 1
            for n in walk_local(fn, include_self=False):
                if isinstance(n, ast.Assign):
                    if self.is_unordered(n.value):
                        for t in n.targets:
                            if isinstance(t, ast.Name) and t.id not in self.names:
                                self.names.add(t.id)
                                changed = True
                elif isinstance(n, ast.AnnAssign):
                    if isinstance(n.target, ast.Name) and (
                        _ann_is_set(n.annotation) or (n.value is not None and self.is_unordered(n.value))
                    ):
                        if n.target.id not in self.names:
                            self.names.add(n.target.id)
                            changed = True
                elif isinstance(n, ast.AugAssign) and isinstance(n.op, (ast.BitOr, ast.BitAnd, ast.Sub, ast.BitXor)):
                    pass

    @staticmethod
    def _expr_is_set_shallow(e) -> bool:
        if isinstance(e, (ast.Set, ast.SetComp)):
            return True
        if isinstance(e, ast.Call) and dotted(e.func) in ("set", "frozenset"):
            return True
        return False

    def is_unordered(self, e: ast.AST) -> bool:
        if isinstance(e, (ast.Set, ast.SetComp)):
            return True
        if isinstance(e, ast.Call):
            fn = dotted(e.func)
            if fn in ("set", "frozenset"):
                return True
            if isinstance(e.func, ast.Attribute) and e.func.attr in (
                "union", "intersection", "difference", "symmetric_difference", "copy",
            ):
                return self.is_unordered(e.func.value)
            called = e.func.attr if isinstance(e.func, ast.Attribute) else (e.func.id if isinstance(e.func, ast.Name) else None)
            if called in self.facts["returns_set"] and called not in ("copy", "get", "pop"):
                return True
            return False
        if isinstance(e, ast.BinOp) and isinstance(e.op, (ast.BitOr, ast.BitAnd, ast.Sub, ast.BitXor)):
            def keysview(x):
                return isinstance(x, ast.Call) and isinstance(x.func, ast.Attribute) and x.func.attr in ("keys", "items") and not x.args
            if keysview(e.left) or keysview(e.right):
                return True
            return self.is_unordered(e.left) or self.is_unordered(e.right)
        if isinstance(e, ast.Name):
            return e.id in self.names
        if isinstance(e, ast.Attribute) and isinstance(e.value, ast.Name) and e.value.id in ("self", "cls"):
            return e.attr in self.attrs
        if isinstance(e, ast.IfExp):
            return self.is_unordered(e.body) or self.is_unordered(e.orelse)
        return False


def find_sites(mod, f, facts=None):
    """-> list of (node, kind, iterated-expression-source)."""
    kinds = UnorderedKinds(mod, f, facts)
    pm = mod.parents
    out = []
    for n in walk_local(f.node, include_self=False):
        it = None
        kind = None
        if isinstance(n, (ast.For, ast.AsyncFor)):
            it, kind = n.iter, "for"
        elif isinstance(n, ast.comprehension):
            it, kind = n.iter, "comprehension"
        elif isinstance(n, ast.Starred) and isinstance(n.ctx, ast.Load):
            it, kind = n.value, "star-unpack"
        elif isinstance(n, ast.Call):
            fn = dotted(n.func)
            if fn in ORDER_SENSITIVE_CONSUMERS and n.args:
                it, kind = n.args[0], fn
            elif isinstance(n.func, ast.Attribute) and n.func.attr == "join" and n.args:
                it, kind = n.args[0], "join"
        if it is None or not kinds.is_unordered(it):
            continue
        # order-insensitive consumers
        if kind == "comprehension":
            comp = pm.of(n)
            if isinstance(comp, ast.SetComp):
                continue
            par = pm.of(comp)
            if isinstance(par, ast.Call) and dotted(par.func) in ORDER_FREE_CONSUMERS:
                continue
        if kind in ("list", "tuple", "star-unpack"):
            par = pm.of(n)
            if isinstance(par, (ast.List, ast.Tuple)):
                par = pm.of(par)
            if isinstance(par, ast.Call) and dotted(par.func) in ORDER_FREE_CONSUMERS:
                continue
        out.append((n, kind, src(it)))
    return out
