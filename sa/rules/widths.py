"""C02.c / C09 result-width table of the primitive arithmetic (F-SHAPE, table form).

For every arithmetic method of Unsigned and Signed the width expression chosen
in each isinstance branch (vector operand / integer operand) is extracted and
compared, after normalisation of commutative operands and of the operand's
parameter name, with the documented result width.
"""

from __future__ import annotations

import ast

from ..astutil import AnalysisError, dotted, src, walk_local
from .. import pattern as P

# documented widths; `o` = the other operand
DOC = {
    "add": {"vector": "max(o.width, self.width)", "int": "self.width"},
    "__mul__": {"vector": "o.width + self.width", "int": "2 * self.width"},
    "__rmul__": {"vector": "o.width + self.width", "int": "2 * self.width"},
    "_cohdl_truncdiv_": {"vector": "self.width", "int": "self.width"},   # dividend = self
    "_cohdl_rtruncdiv_": {"vector": "o.width", "int": "self.width"},     # dividend = other
    "__mod__": {"vector": "o.width", "int": "self.width"},               # divisor = other
    "__rmod__": {"vector": "self.width", "int": "self.width"},           # divisor = self
    "_cohdl_rem_": {"vector": "o.width", "int": "self.width"},
    "_cohdl_rrem_": {"vector": "self.width", "int": "self.width"},
}
CLASSES = (("cohdl/_core/_unsigned.py", "Unsigned"), ("cohdl/_core/_signed.py", "Signed"))


def canon(e: ast.AST, other: str) -> str:
    """canonical text of a small integer expression (commutative operands sorted)."""
    if isinstance(e, ast.BinOp) and isinstance(e.op, (ast.Add, ast.Mult)):
        parts = []

        def flat(x):
            if isinstance(x, ast.BinOp) and type(x.op) is type(e.op):
                flat(x.left)
                flat(x.right)
            else:
                parts.append(canon(x, other))
        flat(e)
        sep = " + " if isinstance(e.op, ast.Add) else " * "
        return sep.join(sorted(parts))
    if isinstance(e, ast.Call) and dotted(e.func) in ("max", "min"):
        return f"{dotted(e.func)}(" + ", ".join(sorted(canon(a, other) for a in e.args)) + ")"
    d = dotted(e)
    if d is not None:
        parts = d.split(".")
        if parts[0] == other:
            parts[0] = "o"
        return ".".join(parts)
    if isinstance(e, ast.Constant):
        return repr(e.value)
    return src(e)


def branch_kind(test: ast.AST, own: str, param: str) -> str | None:
    """vector / int for `isinstance(param, X)`; also `not isinstance(param, Own)` -> None"""
    if isinstance(test, ast.Call) and dotted(test.func) == "isinstance" and len(test.args) == 2 and dotted(test.args[0]) == param:
        c = test.args[1]
        names = [dotted(x) for x in (c.elts if isinstance(c, ast.Tuple) else [c])]
        if names == [own]:
            return "vector"
        if "int" in names:
            return "int"
    return None


def extract(fn: ast.AST, own: str, width_vars=None):
    """-> {kind: [(canonical width expr, line)]}, other-param name.  The width variable is whatever local the
    result is constructed with (`Own[<var>](...)`), not a fixed spelling."""
    WIDTH_VARS = width_vars if width_vars is not None else _width_vars(fn, own)
    params = [a.arg for a in fn.args.args if a.arg != "self"]
    if not params:
        raise AnalysisError("no operand parameter")
    other = params[0]
    out = {"vector": [], "int": []}

    def assigns(stmts):
        res = []
        for s in stmts:
            for n in walk_local(s):
                if isinstance(n, ast.Assign) and any(isinstance(t, ast.Name) and t.id in WIDTH_VARS for t in n.targets):
                    if isinstance(n.value, ast.Constant) and n.value.value is None:
                        continue
                    res.append((canon(n.value, other), n.lineno))
        return res

    def chain(node):
        while isinstance(node, ast.If):
            k = branch_kind(node.test, own, other)
            if k is not None:
                out[k].extend(assigns(node.body))
                if k == "int" and node.orelse and not (len(node.orelse) == 1 and isinstance(node.orelse[0], ast.If)):
                    # `if int: ... else: <vector>` form (add)
                    has_guard = any("isinstance" in P.T(x) and own in P.T(x) for s in node.orelse for x in walk_local(s) if isinstance(x, ast.If))
                    if has_guard:
                        out["vector"].extend(assigns(node.orelse))
            if len(node.orelse) == 1 and isinstance(node.orelse[0], ast.If):
                node = node.orelse[0]
            else:
                break

    for s in fn.body:
        if isinstance(s, ast.If):
            chain(s)
    return out, other


def _width_vars(fn, own):
    out = set()
    for c in walk_local(fn):
        if isinstance(c, ast.Call) and isinstance(c.func, ast.Subscript) and dotted(c.func.value) == own and isinstance(c.func.slice, ast.Name):
            out.add(c.func.slice.id)
    return out


def returns_width_var(fn: ast.AST, own: str) -> list[str]:
    """the subscript expression of every `Own[...](...)` constructed in a return."""
    subs = []
    for c in walk_local(fn):
        if isinstance(c, ast.Call) and isinstance(c.func, ast.Subscript) and dotted(c.func.value) == own:
            subs.append(src(c.func.slice))
    return subs


def run_rule(run, rule_id):
    run.begin(
        rule_id,
        "documented result widths of Unsigned/Signed arithmetic per operand-kind branch (+,-: max width; *: sum of "
        "widths; truncdiv: dividend width; mod/rem: divisor width; int operand: own width, * : twice) and the result "
        "object is constructed with exactly that width",
        floor=30,
    )
    idx = run.idx
    for rel, own in CLASSES:
        mod = idx.mod(rel)
        meths = mod.methods(own)
        for name, doc in DOC.items():
            if name not in meths:
                raise AnalysisError(f"anchor vanished: {own}.{name}")
            f = meths[name]
            got, other = extract(f.node, own)
            for kind in ("vector", "int"):
                vals = got[kind]
                if not vals:
                    if kind == "vector" and name in ("_cohdl_rrem_",) and own == "Unsigned":
                        continue  # Unsigned._cohdl_rrem_ only accepts integers
                    raise AnalysisError(f"width of the {kind} branch of {own}.{name} not found (unknown idiom)")
                for text, line in vals:
                    run.ob(text == doc[kind], f"{own}.{name}", file=rel, line=line, detail=f"{kind}-operand",
                           expected=doc[kind].replace("o.", other + "."), found=text.replace("o.", other + "."))
            subs = returns_width_var(f.node, own)
            bad = [s for s in subs if s not in _width_vars(f.node, own)]
            if not subs:
                raise AnalysisError(f"{own}.{name}: result construction not found")
            run.ob(not bad, f"{own}.{name}", file=rel, line=f.node.lineno, detail="result-constructed-with-width",
                   expected=f"{own}[result_width](...)", found=str(sorted(set(subs))))
        # shifts keep the operand width
        for name in ("__lshift__", "__rshift__"):
            f = meths[name]
            subs = returns_width_var(f.node, own)
            ok = bool(subs) and all(s == "self.width" for s in subs)
            run.ob(ok, f"{own}.{name}", file=rel, line=f.node.lineno, detail="shift-width", expected=f"{own}[self.width]", found=str(subs))
        # sub delegates to add
        f = meths["sub"]
        ok = any(isinstance(c, ast.Call) and dotted(c.func) == "self.add" for c in ast.walk(f.node))
        run.ob(ok, f"{own}.sub", file=rel, line=f.node.lineno, detail="delegates-to-add", expected="return self.add(-rhs, target_width)", found="ok" if ok else "changed")
    run.end()
