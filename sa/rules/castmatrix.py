"""F-GUARD - conversion matrices.

front():   extracts the accept/reject guard of every isinstance branch of the trial
           assignment functions (`_assign`, `__init__`) of Unsigned / Signed / BitVector.
backend(): abstract interpretation of VhdlScope.format_cast over the finite domain
           (vhdl root kind, target kind, value kind) in {U, S, BV}^3 x width relation
           {equal, wider, narrower}; yields for every case the backend's decision and the
           VHDL type/width/extension of the emitted expression.
"""

from __future__ import annotations

import ast
import itertools
import re

from ..astutil import AnalysisError, dotted, src, walk_local
from .. import pattern as P

VH = "cohdl/_compiler/backend/vhdl/_vhdl_repr.py"
KINDS = ("U", "S", "BV")
CLS2KIND = {"Unsigned": "U", "Signed": "S", "BitVector": "BV"}
RELS = ("equal", "wider", "narrower")  # target width relative to value width


# ============================================================================ backend
class Reject(Exception):
    pass


class _Eval:
    def __init__(self, vt, t, v, rel, names=None):
        n = names or {"vtt": "vhdl_target_type", "tt": "target_type", "vt": "value_type"}
        self.n = n
        self.kind = {n["vtt"]: vt, n["tt"]: t, n["vt"]: v}
        self.rel = rel
        self.value_str = "V"
        self.asserts = []

    def issub(self, var, classes) -> bool:
        k = self.kind.get(var)
        if k is None:
            raise AnalysisError(f"format_cast: issubclass on unknown variable {var}")
        for c in classes:
            if c == "BitVector":
                return True  # Unsigned and Signed are BitVector subclasses
            if c in CLS2KIND and CLS2KIND[c] == k:
                return True
        return False

    def test(self, e: ast.AST) -> bool:
        if isinstance(e, ast.BoolOp):
            vals = [self.test(v) for v in e.values]
            return all(vals) if isinstance(e.op, ast.And) else any(vals)
        if isinstance(e, ast.UnaryOp) and isinstance(e.op, ast.Not):
            return not self.test(e.operand)
        if isinstance(e, ast.Call):
            fn = dotted(e.func)
            if fn == "issubclass":
                var = dotted(e.args[0])
                c = e.args[1]
                classes = [dotted(x).split(".")[-1] for x in (c.elts if isinstance(c, ast.Tuple) else [c])]
                return self.issub(var, classes)
            if fn == "isinstance" and dotted(e.args[0]) == "value":
                return False  # run-time values are qualified objects, never literals
        if isinstance(e, ast.Compare) and len(e.ops) == 1:
            l, r = dotted(e.left), dotted(e.comparators[0])
            if {l, r} == {self.n["tt"] + ".width", self.n["vt"] + ".width"}:
                op = e.ops[0]
                if l == self.n["vt"] + ".width":
                    flip = {ast.Lt: ast.Gt, ast.LtE: ast.GtE, ast.Gt: ast.Lt, ast.GtE: ast.LtE, ast.Eq: ast.Eq, ast.NotEq: ast.NotEq}
                    op = flip[type(op)]()
                table = {
                    ast.Eq: {"equal"}, ast.NotEq: {"wider", "narrower"}, ast.Gt: {"wider"}, ast.GtE: {"wider", "equal"},
                    ast.Lt: {"narrower"}, ast.LtE: {"narrower", "equal"},
                }
                return self.rel in table[type(op)]
        raise AnalysisError(f"format_cast: cannot evaluate condition `{src(e)}` (unknown idiom)")

    def fstring(self, js) -> str:
        if isinstance(js, ast.Name) and js.id == "value_str":
            return self.value_str
        if not isinstance(js, ast.JoinedStr):
            raise AnalysisError(f"format_cast: unsupported value expression {src(js)}")
        out = ""
        for part in js.values:
            if isinstance(part, ast.Constant):
                out += part.value
            else:
                d = dotted(part.value)
                if d == "value_str":
                    out += self.value_str
                elif d == self.n["tt"] + ".width":
                    out += "TW"
                elif d == self.n["vt"] + ".width":
                    out += "VW"
                else:
                    raise AnalysisError(f"format_cast: unsupported template field {src(part.value)}")
        return out

    def run(self, stmts):
        for s in stmts:
            if isinstance(s, ast.If):
                r = self.run(s.body if self.test(s.test) else s.orelse)
                if r is not None:
                    return r
            elif isinstance(s, ast.Assert):
                ok = self.test(s.test)
                self.asserts.append((src(s.test), ok))
                if not ok:
                    raise Reject(src(s.test))
            elif isinstance(s, ast.Assign) and dotted(s.targets[0]) == "value_str":
                self.value_str = self.fstring(s.value)
            elif isinstance(s, ast.Return):
                if isinstance(s.value, ast.Call):
                    raise AnalysisError(f"format_cast: unexpected call in return {src(s.value)[:60]}")
                return self.fstring(s.value)
            elif isinstance(s, ast.Raise):
                raise Reject("raise")
            elif isinstance(s, ast.Expr) and isinstance(s.value, ast.Constant):
                continue
            else:
                raise AnalysisError(f"format_cast: unsupported statement {src(s)[:60]}")
        return None


_TOK = re.compile(r"\s*([A-Za-z_][A-Za-z_0-9]*|\(|\)|,)")


def parse_expr(text: str):
    """`resize(unsigned(std_logic_vector(V)), TW)` -> nested tuples."""
    toks = _TOK.findall(text)
    if "".join(toks) != text.replace(" ", ""):
        raise AnalysisError(f"format_cast: cannot parse emitted expression {text!r}")
    pos = 0

    def expr():
        nonlocal pos
        name = toks[pos]
        pos += 1
        if pos < len(toks) and toks[pos] == "(":
            pos += 1
            args = [expr()]
            while toks[pos] == ",":
                pos += 1
                args.append(expr())
            if toks[pos] != ")":
                raise AnalysisError(f"format_cast: unbalanced {text!r}")
            pos += 1
            return (name, args)
        return name
    e = expr()
    if pos != len(toks):
        raise AnalysisError(f"format_cast: trailing tokens in {text!r}")
    return e


def vhdl_type(e, v_kind):
    """-> (kind, width in {'VW','TW'}, extension performed in kind or None); raises Reject on ill-typed."""
    if e == "V":
        return v_kind, "VW", None
    name, args = e
    k, w, ext = vhdl_type(args[0], v_kind)
    if name == "resize":
        if k not in ("U", "S"):
            raise Reject(f"resize applied to std_logic_vector")
        if len(args) != 2 or args[1] != "TW":
            raise Reject("resize without target width")
        return k, "TW", k
    if name == "std_logic_vector":
        return "BV", w, ext
    if name in ("unsigned", "signed"):
        if k != "BV":
            raise Reject(f"type conversion {name}(..) applied to a {k} operand (needs std_logic_vector)")
        return ("U" if name == "unsigned" else "S"), w, ext
    raise Reject(f"unknown wrapper {name}")


def backend(idx):
    """-> {(vt,t,v,rel): ("ok", expr, kind, width, ext) | ("reject", reason)}"""
    mod = idx.mod(VH)
    f = mod.func("VhdlScope.format_cast")
    block = None
    node = None
    # the three type variables, whatever they are called: decayed type of the target / of the value, and the
    # VHDL type of the target's root (initialised with the target type)
    names = {}
    for _n, b in P.find(f.node.body, "__x = type(TypeQualifier.decay(target))"):
        names["tt"] = b["__x"]
    for _n, b in P.find(f.node.body, "__x = type(TypeQualifier.decay(value))"):
        names["vt"] = b["__x"]
    for st in f.node.body:
        if isinstance(st, ast.Assign) and isinstance(st.value, ast.Name) and st.value.id == names.get("tt") and isinstance(st.targets[0], ast.Name):
            names["vtt"] = st.targets[0].id
    if set(names) != {"tt", "vt", "vtt"}:
        raise AnalysisError(f"format_cast: prologue defining the target / value / root types not recognised ({names})")
    tt = names["tt"]
    for s in f.node.body:
        if isinstance(s, ast.If) and f"issubclass({tt}, Bit)" in src(s.test):
            node = s
    while isinstance(node, ast.If):
        if src(node.test) == f"issubclass({tt}, BitVector)":
            block = node
            break
        node = node.orelse[0] if len(node.orelse) == 1 and isinstance(node.orelse[0], ast.If) else None
    if block is None:
        raise AnalysisError("anchor vanished: BitVector target branch of format_cast")
    res = {}
    for vt, t, v in itertools.product(KINDS, KINDS, KINDS):
        for rel in RELS:
            ev = _Eval(vt, t, v, rel, names)
            try:
                out = ev.run(block.body)
                if out is None:
                    res[(vt, t, v, rel)] = ("reject", "falls through")
                    continue
                e = parse_expr(out)
                k, w, ext = vhdl_type(e, v)
                res[(vt, t, v, rel)] = ("ok", out, k, w, ext)
            except Reject as r:
                res[(vt, t, v, rel)] = ("reject", str(r))
    block._cast_names = names
    return mod, block, res


def frontend_accepts(t, v, rel) -> bool:
    """documented conversion matrix (property C05)."""
    if t == "U":
        return (v == "U" and rel in ("equal", "wider")) or (v == "BV" and rel == "equal")
    if t == "S":
        return (v == "S" and rel in ("equal", "wider")) or (v == "U" and rel == "wider") or (v == "BV" and rel == "equal")
    return rel == "equal"  # BitVector target: any vector of equal width


# ============================================================================ front end
def width_guard(test: ast.AST, src_name: str):
    """normalise `S.width OP self.width` -> ('<='|'<'|'=='|...)  oriented source OP target; None if not a width guard."""
    if isinstance(test, ast.Compare) and len(test.ops) == 1:
        l, r = dotted(test.left) or "", dotted(test.comparators[0]) or ""
        names = {"<": ast.Lt, "<=": ast.LtE, ">": ast.Gt, ">=": ast.GtE, "==": ast.Eq}
        inv = {v: k for k, v in names.items()}
        op = inv.get(type(test.ops[0]))
        if op is None:
            return None

        def is_src(x):
            return x in (f"{src_name}.width", f"{src_name}._width")

        def is_tgt(x):
            return x in ("self.width", "self._width")
        if is_src(l) and is_tgt(r):
            return op
        if is_tgt(l) and is_src(r):
            return {"<": ">", "<=": ">=", ">": "<", ">=": "<=", "==": "=="}[op]
    return None


def front_branches(fn: ast.AST, own: str):
    """-> list of (source-kind, decision, line). decision: width op string | 'reject' | 'range:<text>' | 'delegate'"""
    params = [a.arg for a in fn.args.args if a.arg != "self"]
    p = params[0]
    out = []

    def classify(test):
        t = P.T(test)
        if f'hasattr({p}, "_is_signed")' in t.replace("'", '"'):
            return "S"
        if f'hasattr({p}, "_is_unsigned")' in t.replace("'", '"'):
            return "U"
        if isinstance(test, ast.Call) and dotted(test.func) == "isinstance" and dotted(test.args[0]) == p:
            c = test.args[1]
            names = [dotted(x) for x in (c.elts if isinstance(c, ast.Tuple) else [c])]
            if names == [own]:
                return CLS2KIND[own]
            if names == ["int"]:
                return "int"
            if names == ["Integer"]:
                return "Integer"
            if "BitVector" in names:
                return "BV"
        if isinstance(test, ast.BoolOp):
            for v in test.values:
                k = classify(v)
                if k in ("BV",):
                    return k
        return None

    def decide(body, kind):
        for s in body:
            if isinstance(s, ast.Assert):
                g = width_guard(s.test, p)
                if g is not None:
                    return g, s.lineno
                if kind == "int":
                    return "range:" + src(s.test), s.lineno
            if isinstance(s, ast.Raise):
                return "reject", s.lineno
        for s in body:
            if isinstance(s, ast.Expr) and isinstance(s.value, ast.Call) and "super()" in P.T(s.value):
                return "delegate", s.lineno
        return None, body[0].lineno if body else 0

    def walk_chain(node):
        while isinstance(node, ast.If):
            k = classify(node.test)
            if k in ("U", "S", "BV", "int"):
                d, line = decide(node.body, k)
                out.append((k, d, line))
            if len(node.orelse) == 1 and isinstance(node.orelse[0], ast.If):
                node = node.orelse[0]
            else:
                break

    for s in fn.body:
        if isinstance(s, ast.If):
            walk_chain(s)
    return out, p


# ============================================================================ integer ranges
def _eval_int(e, w, fn, mod, own, depth=0):
    """evaluate a small integer expression of the repo at width w (symbolic-formula evaluation, no repo code is run)."""
    if depth > 8:
        raise AnalysisError("range expression too deep")
    if isinstance(e, ast.Constant) and isinstance(e.value, int):
        return e.value
    if isinstance(e, ast.UnaryOp) and isinstance(e.op, ast.USub):
        return -_eval_int(e.operand, w, fn, mod, own, depth + 1)
    if isinstance(e, ast.BinOp):
        l = _eval_int(e.left, w, fn, mod, own, depth + 1)
        r = _eval_int(e.right, w, fn, mod, own, depth + 1)
        if isinstance(e.op, ast.Add):
            return l + r
        if isinstance(e.op, ast.Sub):
            return l - r
        if isinstance(e.op, ast.Mult):
            return l * r
        if isinstance(e.op, ast.Pow):
            if r < 0 or r > 64:
                raise AnalysisError("exponent out of range")
            return l ** r
        if isinstance(e.op, ast.LShift):
            return l << r
        raise AnalysisError(f"unsupported operator in range expression {src(e)}")
    d = dotted(e)
    if d in ("self.width", "cls.width", "self._width"):
        return w
    if isinstance(e, ast.Name):
        defs = [n.value for n in walk_local(fn) if isinstance(n, ast.Assign) and any(isinstance(t, ast.Name) and t.id == e.id for t in n.targets)]
        if len(defs) == 1:
            return _eval_int(defs[0], w, fn, mod, own, depth + 1)
    if isinstance(e, ast.Call) and not e.args or (isinstance(e, ast.Call) and dotted(e.func) in ("cls",)):
        fnname = dotted(e.func) or ""
        if fnname == "cls" and e.args:
            return _eval_int(e.args[0], w, fn, mod, own, depth + 1)
        meth = fnname.split(".")[-1]
        if fnname.split(".")[0] in ("self", "cls", own) and f"{own}.{meth}" in mod.functions:
            g = mod.functions[f"{own}.{meth}"].node
            rets = [r for r in walk_local(g) if isinstance(r, ast.Return)]
            if len(rets) == 1:
                return _eval_int(rets[0].value, w, g, mod, own, depth + 1)
    raise AnalysisError(f"cannot evaluate range expression `{src(e)}` (unknown idiom)")


def int_range(test: ast.AST, var: str, fn, mod, own, widths=range(1, 13)):
    """`lo <= var < hi` -> {w: (lo_inclusive, hi_inclusive)}"""
    if not (isinstance(test, ast.Compare) and len(test.ops) == 2 and dotted(test.comparators[0]) == var):
        raise AnalysisError(f"unrecognised integer range check `{src(test)}`")
    lo_e, hi_e = test.left, test.comparators[1]
    lo_op, hi_op = test.ops
    out = {}
    for w in widths:
        lo = _eval_int(lo_e, w, fn, mod, own)
        hi = _eval_int(hi_e, w, fn, mod, own)
        if isinstance(lo_op, ast.Lt):
            lo += 1
        elif not isinstance(lo_op, ast.LtE):
            raise AnalysisError("unrecognised lower bound operator")
        if isinstance(hi_op, ast.Lt):
            hi -= 1
        elif not isinstance(hi_op, ast.LtE):
            raise AnalysisError("unrecognised upper bound operator")
        out[w] = (lo, hi)
    return out
