"""F-VIEW.offsets - which bits of the root does a view of a view of a view address?

TypeQualifier.__getitem__ and __iter__ are interpreted from their AST on a model of a qualified vector whose storage
is the list of ABSOLUTE bit positions of the root it aliases.  A chain of slices, optionally ended by an index or by
iteration, must produce a reference (`_ref_spec[-1]` = Slice/Offset with base offsets) that resolves - by the rule the
back end uses, constant offsets add up (Offset.simplify / Slice.simplify) - to exactly the absolute positions held by
the aliased storage.  Decided for every chain of up to 3 slices over a 12-bit root plus index / iteration."""

from __future__ import annotations

import ast
import itertools

from ..astutil import AnalysisError, dotted, src
from ..absint import Interp, Reject

TQ = "cohdl/_core/_type_qualifier.py"


class _Ref:
    """a reference-spec entry; its fields are whatever the source's own __init__ stores (interpreted), so that list
    sharing between entries is modelled faithfully"""

    def __init__(self, kind):
        self.kind = kind


class _Ctor:
    def __init__(self, kind):
        self.kind = kind

    def __call__(self, *args, **kwargs):
        obj = _Ref(self.kind)
        Interp(_MOD, _prims(_MOD)).call_function(f"{self.kind}.__init__", obj, *args, **kwargs)
        return obj


_SLICE, _OFFSET = _Ctor("Slice"), _Ctor("Offset")


def _Slice(start, stop, base_offset=None):
    return _SLICE(start, stop, base_offset)


class _Vec:
    """the primitive value: absolute positions, LSB first; v[hi:lo] is the inclusive downto slice, v[i] one element"""

    def __init__(self, pos):
        self.pos = list(pos)
        self.width = len(self.pos)

    def __getitem__(self, k):
        if isinstance(k, slice):
            hi, lo = k.start, k.stop
            if not (isinstance(hi, int) and isinstance(lo, int)) or not 0 <= lo <= hi < len(self.pos):
                raise Reject(f"slice [{hi}:{lo}] outside vector of width {len(self.pos)}")
            return _Vec(self.pos[lo:hi + 1])
        if isinstance(k, int):
            if not 0 <= k < len(self.pos):
                raise Reject("index out of range")
            return _Elem(self.pos[k])
        raise AnalysisError(f"view model: index {k!r}")

    def __len__(self):
        return len(self.pos)

    def __iter__(self):
        return iter([_Elem(p) for p in self.pos])


class _Elem:
    def __init__(self, p):
        self.p = p


class _Qual:
    def __getitem__(self, t):
        return lambda value, _root=None, _ref_spec=None, **k: _View(value, _ref_spec or [], _root)


class _View:
    def __init__(self, value, ref_spec, root):
        self._value, self._ref_spec, self._root = value, list(ref_spec), root
        self.qualifier = _Qual()

    def __getitem__(self, k):  # `self[...]` inside an interpreted method: the interpreted __getitem__ again
        return Interp(_MOD, _prims(_MOD)).call_function("TypeQualifier.__getitem__", self, k)


_MOD = None


def resolved(view):
    """absolute positions addressed by the LAST reference of the view, resolved the way the back end does it: the
    reference's own simplify() method (interpreted from the source, IN PLACE - shared base_offset lists or a wrong
    fold show up as wrong positions of this or of a sibling reference)"""
    if not view._ref_spec:
        return None
    r = view._ref_spec[-1]
    q = "Slice.simplify" if r.kind == "Slice" else "Offset.simplify"
    Interp(_MOD, _prims(_MOD)).call_function(q, r)
    if r.base_offset:
        raise Reject(f"constant base offsets left after simplify: {r.base_offset}")
    first = list(range(r.stop, r.start + 1)) if r.kind == "Slice" else [r.offset]
    # the back end simplifies a reference every time it is written (an object used twice is simplified twice):
    # simplifying again must not move it
    Interp(_MOD, _prims(_MOD)).call_function(q, r)
    again = list(range(r.stop, r.start + 1)) if r.kind == "Slice" else [r.offset]
    if again != first or r.base_offset:
        raise Reject(f"simplify() is not idempotent: bits {first[0]}..{first[-1]} after the first call, {again[0]}..{again[-1]} after the second")
    return first


def _prims(mod):
    def isinst(v, t):
        ts = t if isinstance(t, tuple) else (t,)
        for x in ts:
            if isinstance(x, _Ctor) and isinstance(v, _Ref) and v.kind == x.kind:
                return True
            if x is slice and isinstance(v, slice):
                return True
            if x is int and isinstance(v, int) and not isinstance(v, bool):
                return True
            if x in (tuple, list) and isinstance(v, x):
                return True
            if x == "TypeQualifier" and isinstance(v, _View):
                return True
        return False

    return {"isinstance": isinst, "Slice": _SLICE, "Offset": _OFFSET, "slice": slice, "int": int, "tuple": tuple, "list": list,
            "TypeQualifier": "TypeQualifier", "type": lambda x: type(x), "len": len, "enumerate": enumerate,
            "__setattr__": lambda o, k, v: setattr(o, k, v)}


def run_rule(run, rule_id="F-VIEW.offsets"):
    run.begin(
        rule_id,
        "a slice of a slice (of a slice), an element of it and the elements yielded by iterating over it refer to the "
        "absolute bits of the root that the view's storage aliases - abstract interpretation of TypeQualifier.__getitem__ "
        "and __iter__ over all chains of up to 3 slices of a 12-bit root",
        floor=200,
    )
    global _MOD
    mod = _MOD = run.idx.mod(TQ)
    gi = mod.func("TypeQualifier.__getitem__")
    it = mod.func("TypeQualifier.__iter__")
    W = run.bound(12, 16)
    root = object()

    def getitem(view, arg):
        ip = Interp(mod, _prims(mod))
        return ip.call_function("TypeQualifier.__getitem__", view, arg)

    def slices(width):
        # a few representative (hi, lo) per width: full, upper part, lower part, middle, single bit
        cands = {(width - 1, 0), (width - 1, width // 2), (width // 2, 0), (max(width - 2, 0), min(1, width - 1)), (width // 2, width // 2)}
        return sorted(c for c in cands if 0 <= c[1] <= c[0] < width)

    n = 0
    base = _View(_Vec(range(W)), [], root)
    frontier = [((), base)]
    for depth in (1, 2, 3):
        nxt = []
        for chain, view in frontier:
            for (hi, lo) in slices(view._value.width):
                try:
                    v2 = getitem(view, slice(hi, lo))
                except Reject as e:
                    run.ob(False, "TypeQualifier.__getitem__", file=mod.rel, line=gi.node.lineno, detail=f"{chain + ((hi, lo),)}", expected="a view", found=f"rejected: {e}")
                    continue
                ch = chain + ((hi, lo),)
                cp_orig_base = list(v2._ref_spec[-1].base_offset) if isinstance(v2, _View) and v2._ref_spec else []
                exp = v2._value.pos if isinstance(v2._value, _Vec) else None
                try:
                    # resolve a structural copy: the view itself is refined further below (children read its base offsets)
                    r0 = v2._ref_spec[-1]
                    cp = _View(v2._value, v2._ref_spec[:-1] + [_Slice(r0.start, r0.stop, list(r0.base_offset))], v2._root)
                    got = resolved(cp)
                except Reject as e:
                    got = None
                n += 1
                run.ob(isinstance(v2, _View) and got == exp and v2._root is root, "TypeQualifier.__getitem__", file=mod.rel, line=gi.node.lineno,
                       detail="slice-chain " + "".join(f"[{h}:{l}]" for h, l in ch), expected=f"root bits {exp[0]}..{exp[-1]}" if exp else "?", found=f"root bits {got[0]}..{got[-1]}" if got else "no reference", sample=(ch == ((11, 6), (5, 3))))
                # copies of the reference (made by every typed view .unsigned/.signed/.bitvector) resolve independently:
                # resolving one copy must not change what a sibling copy addresses
                try:
                    r0 = v2._ref_spec[-1]
                    c1 = Interp(mod, _prims(mod)).call_function("Slice.copy", r0)
                    c2 = Interp(mod, _prims(mod)).call_function("Slice.copy", r0)
                    gotc = [resolved(_View(v2._value, v2._ref_spec[:-1] + [c], v2._root)) for c in (c1, c2)]
                    # restore the original for the children below: r0 itself may have been folded through a shared list
                    if r0.base_offset != list(cp_orig_base):
                        gotc.append(f"the original reference lost its base offsets ({cp_orig_base} -> {r0.base_offset})")
                        r0.base_offset = list(cp_orig_base)
                except Reject as e:
                    gotc = [f"rejected: {e}"]
                n += 1
                run.ob(all(g == exp for g in gotc), "Slice.copy/simplify", file=mod.rel, line=gi.node.lineno, detail="copies " + "".join(f"[{h}:{l}]" for h, l in ch),
                       expected=f"every copy addresses root bits {exp[0]}..{exp[-1]}" if exp else "?", found=str([(g[0], g[-1]) if isinstance(g, list) and g else g for g in gotc])[:120], sample=False)
                nxt.append((ch, v2))
                # element by index
                for k in sorted({0, v2._value.width - 1, v2._value.width // 2}):
                    try:
                        e = getitem(v2, k)
                        got_e = resolved(e)
                        exp_e = [v2._value.pos[k]]
                    except Reject as ex:
                        got_e, exp_e = f"rejected {ex}", [v2._value.pos[k]]
                    n += 1
                    run.ob(got_e == exp_e, "TypeQualifier.__getitem__", file=mod.rel, line=gi.node.lineno, detail="element " + "".join(f"[{h}:{l}]" for h, l in ch) + f"[{k}]",
                           expected=f"root bit {exp_e[0]}", found=f"root bit {got_e[0]}" if isinstance(got_e, list) else str(got_e), sample=False)
                # elements by iteration
                try:
                    elems = list(Interp(mod, _prims(mod)).call_generator("TypeQualifier.__iter__", v2))
                    got_i = [resolved(e)[0] for e in elems]
                    # resolving is idempotent and does not disturb siblings: a second pass gives the same positions
                    again = [resolved(e)[0] for e in elems]
                    if again != got_i:
                        got_i = f"unstable: {got_i} then {again}"
                except Reject as ex:
                    got_i = f"rejected {ex}"
                n += 1
                run.ob(got_i == v2._value.pos, "TypeQualifier.__iter__", file=mod.rel, line=it.node.lineno, detail="iterate " + "".join(f"[{h}:{l}]" for h, l in ch),
                       expected=f"root bits {v2._value.pos}", found=f"root bits {got_i}", sample=(ch == ((11, 6), (5, 3))))
        frontier = nxt
    # the part selectors are defined through slicing: lsb/right take the low end, msb/left the high end
    for chain, view in [((), base)] + frontier[:6]:
        w = view._value.width
        pos = view._value.pos
        for meth, low in (("lsb", True), ("right", True), ("msb", False), ("left", False)):
            f_ = mod.func(f"TypeQualifier.{meth}")
            cases = [({}, [pos[0]] if low else [pos[-1]])]
            for k in sorted({1, w // 2, w} - {0}):
                cases.append(({"count": k}, pos[:k] if low else pos[w - k:]))
                cases.append(({"rest": w - k}, pos[:k] if low else pos[w - k:]))
            for kw, exp in cases:
                try:
                    v = Interp(mod, _prims(mod)).call_function(f"TypeQualifier.{meth}", view, **kw)
                    got = resolved(v) if isinstance(v, _View) else None
                    # a copy of the last reference is not needed: v is a fresh view
                except Reject as e:
                    got = f"rejected: {e}"
                run.ob(got == exp, f"TypeQualifier.{meth}", file=mod.rel, line=f_.node.lineno,
                       detail=f"{meth}({', '.join(f'{a}={b}' for a, b in kw.items())}) of " + ("root" if not chain else "".join(f"[{h}:{l}]" for h, l in chain)) + f" w={w}",
                       expected=f"root bits {exp}", found=f"root bits {got}", sample=False)
    # iteration over the whole object
    elems = list(Interp(mod, _prims(mod)).call_generator("TypeQualifier.__iter__", base))
    run.ob([resolved(e)[0] for e in elems] == list(range(W)), "TypeQualifier.__iter__", file=mod.rel, line=it.node.lineno, detail="iterate root", expected="bits 0..W-1", found=str([resolved(e)[0] for e in elems][:6]))
    run.end()
