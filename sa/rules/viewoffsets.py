"""F-VIEW.offsets - which bits of the root does a view of a view of a view address?

TypeQualifier.__getitem__ and __iter__ are interpreted from their AST on a model of a qualified vector whose storage
is the list of ABSOLUTE bit positions of the root it aliases.  A chain of slices, optionally ended by an index or by
iteration, must produce a reference (`_ref_spec[-1]` = Slice/Offset with base offsets) that resolves - by the rule the
back end uses, constant offsets add up (Offset.simplify / Slice.simplify) - to exactly the absolute positions held by
the aliased storage.  Decided for every chain of up to 3 slices over a 12-bit root plus index / iteration."""

from __future__ import annotations

import ast
import itertools

from ..astutil import AnalysisError, dotted, src
from ..absint import Interp, Reject

TQ = "cohdl/_core/_type_qualifier.py"


class _Slice:
    def __init__(self, start, stop, base_offset=None):
        self.start, self.stop, self.base_offset = start, stop, list(base_offset or [])


class _Offset:
    def __init__(self, offset, base_offset=None):
        self.offset, self.base_offset = offset, list(base_offset or [])


class _Vec:
    """the primitive value: absolute positions, LSB first; v[hi:lo] is the inclusive downto slice, v[i] one element"""

    def __init__(self, pos):
        self.pos = list(pos)
        self.width = len(self.pos)

    def __getitem__(self, k):
        if isinstance(k, slice):
            hi, lo = k.start, k.stop
            if not (isinstance(hi, int) and isinstance(lo, int)) or not 0 <= lo <= hi < len(self.pos):
                raise Reject(f"slice [{hi}:{lo}] outside vector of width {len(self.pos)}")
            return _Vec(self.pos[lo:hi + 1])
        if isinstance(k, int):
            if not 0 <= k < len(self.pos):
                raise Reject("index out of range")
            return _Elem(self.pos[k])
        raise AnalysisError(f"view model: index {k!r}")

    def __len__(self):
        return len(self.pos)

    def __iter__(self):
        return iter([_Elem(p) for p in self.pos])


class _Elem:
    def __init__(self, p):
        self.p = p


class _Qual:
    def __getitem__(self, t):
        return lambda value, _root=None, _ref_spec=None, **k: _View(value, _ref_spec or [], _root)


class _View:
    def __init__(self, value, ref_spec, root):
        self._value, self._ref_spec, self._root = value, list(ref_spec), root
        self.qualifier = _Qual()

    def __getitem__(self, k):  # recursion of the interpreted method on its own result (self.__getitem__(..))
        raise AnalysisError("view model: unexpected direct subscript")


def resolved(view):
    """absolute positions addressed by the LAST reference of the view (constant offsets add up)"""
    if not view._ref_spec:
        return None
    r = view._ref_spec[-1]
    base = sum(r.base_offset)
    if isinstance(r, _Slice):
        return list(range(r.stop + base, r.start + base + 1))
    return [r.offset + base]


def _prims(mod):
    def isinst(v, t):
        ts = t if isinstance(t, tuple) else (t,)
        for x in ts:
            if x is _Slice and isinstance(v, _Slice):
                return True
            if x is slice and isinstance(v, slice):
                return True
            if x is int and isinstance(v, int) and not isinstance(v, bool):
                return True
            if x in (tuple, list) and isinstance(v, x):
                return True
            if x == "TypeQualifier" and isinstance(v, _View):
                return True
        return False

    return {"isinstance": isinst, "Slice": _Slice, "Offset": _Offset, "slice": slice, "int": int, "tuple": tuple, "list": list,
            "TypeQualifier": "TypeQualifier", "type": lambda x: type(x), "len": len, "enumerate": enumerate,
            "__setattr__": lambda o, k, v: setattr(o, k, v)}


def run_rule(run, rule_id="F-VIEW.offsets"):
    run.begin(
        rule_id,
        "a slice of a slice (of a slice), an element of it and the elements yielded by iterating over it refer to the "
        "absolute bits of the root that the view's storage aliases - abstract interpretation of TypeQualifier.__getitem__ "
        "and __iter__ over all chains of up to 3 slices of a 12-bit root",
        floor=200,
    )
    mod = run.idx.mod(TQ)
    gi = mod.func("TypeQualifier.__getitem__")
    it = mod.func("TypeQualifier.__iter__")
    W = run.bound(12, 16)
    root = object()

    def getitem(view, arg):
        ip = Interp(mod, _prims(mod))
        return ip.call_function("TypeQualifier.__getitem__", view, arg)

    def slices(width):
        # a few representative (hi, lo) per width: full, upper part, lower part, middle, single bit
        cands = {(width - 1, 0), (width - 1, width // 2), (width // 2, 0), (max(width - 2, 0), min(1, width - 1)), (width // 2, width // 2)}
        return sorted(c for c in cands if 0 <= c[1] <= c[0] < width)

    n = 0
    base = _View(_Vec(range(W)), [], root)
    frontier = [((), base)]
    for depth in (1, 2, 3):
        nxt = []
        for chain, view in frontier:
            for (hi, lo) in slices(view._value.width):
                try:
                    v2 = getitem(view, slice(hi, lo))
                except Reject as e:
                    run.ob(False, "TypeQualifier.__getitem__", file=mod.rel, line=gi.node.lineno, detail=f"{chain + ((hi, lo),)}", expected="a view", found=f"rejected: {e}")
                    continue
                ch = chain + ((hi, lo),)
                exp = v2._value.pos if isinstance(v2._value, _Vec) else None
                got = resolved(v2)
                n += 1
                run.ob(isinstance(v2, _View) and got == exp and v2._root is root, "TypeQualifier.__getitem__", file=mod.rel, line=gi.node.lineno,
                       detail="slice-chain " + "".join(f"[{h}:{l}]" for h, l in ch), expected=f"root bits {exp[0]}..{exp[-1]}" if exp else "?", found=f"root bits {got[0]}..{got[-1]}" if got else "no reference", sample=(ch == ((11, 6), (5, 3))))
                nxt.append((ch, v2))
                # element by index
                for k in sorted({0, v2._value.width - 1, v2._value.width // 2}):
                    try:
                        e = getitem(v2, k)
                        got_e = resolved(e)
                        exp_e = [v2._value.pos[k]]
                    except Reject as ex:
                        got_e, exp_e = f"rejected {ex}", [v2._value.pos[k]]
                    n += 1
                    run.ob(got_e == exp_e, "TypeQualifier.__getitem__", file=mod.rel, line=gi.node.lineno, detail="element " + "".join(f"[{h}:{l}]" for h, l in ch) + f"[{k}]",
                           expected=f"root bit {exp_e[0]}", found=f"root bit {got_e[0]}" if isinstance(got_e, list) else str(got_e), sample=False)
                # elements by iteration
                try:
                    elems = list(Interp(mod, _prims(mod)).call_generator("TypeQualifier.__iter__", v2))
                    got_i = [resolved(e)[0] for e in elems]
                except Reject as ex:
                    got_i = f"rejected {ex}"
                n += 1
                run.ob(got_i == v2._value.pos, "TypeQualifier.__iter__", file=mod.rel, line=it.node.lineno, detail="iterate " + "".join(f"[{h}:{l}]" for h, l in ch),
                       expected=f"root bits {v2._value.pos}", found=f"root bits {got_i}", sample=(ch == ((11, 6), (5, 3))))
        frontier = nxt
    # iteration over the whole object
    elems = list(Interp(mod, _prims(mod)).call_generator("TypeQualifier.__iter__", base))
    run.ob([resolved(e)[0] for e in elems] == list(range(W)), "TypeQualifier.__iter__", file=mod.rel, line=it.node.lineno, detail="iterate root", expected="bits 0..W-1", found=str([resolved(e)[0] for e in elems][:6]))
    run.end()
