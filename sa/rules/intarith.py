"""C09.c - exact integer arithmetic on the compile-time (folding) paths.

VHDL `/` and `rem` truncate toward zero, `mod` floors.  Python's `//` floors and
`/` is float division (inexact above 2**53).  Rule: on the folding paths of
Unsigned / Signed / Integer / cohdl.op no float arithmetic appears, truncating
division of possibly negative operands goes through the exact helper, and the
helper itself is one of the enumerated exact idioms.
"""

from __future__ import annotations

import ast

from ..astutil import AnalysisError, dotted, src, walk_local, norm
from .. import pattern as P

MODS = {
    "cohdl/_core/_unsigned.py": "Unsigned",
    "cohdl/_core/_signed.py": "Signed",
    "cohdl/_core/_integer.py": "Integer",
    "cohdl/_core/_op.py": None,
}
TRUNC_FUNCS = {"_cohdl_truncdiv_", "_cohdl_rtruncdiv_", "truncdiv"}
REM_FUNCS = {"_cohdl_rem_", "_cohdl_rrem_", "rem"}
MOD_FUNCS = {"__mod__", "__rmod__"}
HELPER = ("cohdl/_core/_integer.py", "_int_truncdiv")
FLOAT_OK = {"cohdl/_core/_op.py::truediv"}  # pass-through of the `/` operator, no arithmetic of its own


def _value_returns(fn):
    """return statements that construct the numeric result (skip NotImplemented / zero-divisor guards)."""
    out = []
    for n in walk_local(fn):
        if isinstance(n, ast.Return) and n.value is not None:
            if dotted(n.value) == "NotImplemented":
                continue
            out.append(n)
    return out


def helper_idiom(fn: ast.AST) -> str | None:
    """recognise exact truncating division; -> idiom name or None (unknown)."""
    params = [a.arg for a in fn.args.args]
    if len(params) != 2:
        return None
    a, b = params
    body = [s for s in fn.body if not (isinstance(s, ast.Expr) and isinstance(s.value, ast.Constant))]
    text = [src(s).replace(a, "A").replace(b, "B") for s in body]
    q = None
    rest = text
    if text and text[0].endswith("= abs(A) // abs(B)") and isinstance(body[0], ast.Assign) and isinstance(body[0].targets[0], ast.Name):
        q = body[0].targets[0].id
        rest = [t.replace(q, "Q") for t in text[1:]]
    accepted = {
        ("return Q if (A < 0) == (B < 0) else -Q",): "abs-quotient, equal-sign test",
        ("return -Q if (A < 0) != (B < 0) else Q",): "abs-quotient, different-sign test",
        ("return Q if A < 0 and B < 0 or (A >= 0 and B >= 0) else -Q",): "abs-quotient, explicit sign cases",
        ("if (A < 0) != (B < 0):\n    return -Q", "return Q"): "abs-quotient, early return",
        ("if (A < 0) == (B < 0):\n    return Q", "return -Q"): "abs-quotient, early return",
    }
    if q is not None and tuple(rest) in accepted:
        return accepted[tuple(rest)]
    return None


def operand_roles(fn: ast.AST) -> dict:
    """role of every local / parameter of an arithmetic method, whatever it is called:
         "S" - computed from self (self.to_int(), self._val ...),  "O" - computed from the other operand (the
         method's parameter),  "P0"/"P1" - positional parameter of a free function (cohdl.op).
    A name assigned from both is ambiguous (None)."""
    args = [a.arg for a in fn.args.posonlyargs + fn.args.args]
    roles: dict[str, set] = {}
    if args and args[0] == "self":
        others = args[1:]
        for o in others:
            roles.setdefault(o, set()).add("O")
        for a in walk_local(fn):
            if isinstance(a, ast.Assign) and len(a.targets) == 1 and isinstance(a.targets[0], ast.Name):
                names = {n.id for n in ast.walk(a.value) if isinstance(n, ast.Name)}
                r = set()
                if "self" in names:
                    r.add("S")
                if names & set(others):
                    r.add("O")
                if r:
                    roles.setdefault(a.targets[0].id, set()).update(r)
        # a parameter that is only ever re-assigned from itself keeps role O
    else:
        for k, a in enumerate(args):
            roles[a] = {f"P{k}"}
    return {k: (next(iter(v)) if len(v) == 1 else None) for k, v in roles.items()}


def _expected_roles(fn, name):
    args = [a.arg for a in fn.args.posonlyargs + fn.args.args]
    if args and args[0] == "self":
        reflected = name.startswith("__r") or name.startswith("_cohdl_r") and name != "_cohdl_rem_"
        return ("O", "S") if reflected else ("S", "O")
    return ("P0", "P1")


def run_rule(run, rule_id="C09.c"):
    run.begin(
        rule_id,
        "folding paths of Unsigned/Signed/Integer/cohdl.op use exact integer arithmetic: no float division, "
        "truncdiv/rem of possibly negative operands use the exact helper with operands in (lhs, rhs) order, "
        "mod uses Python % (floor, like VHDL mod), the helper is an enumerated exact idiom",
        floor=20,
    )
    idx = run.idx
    # helper
    hm = idx.mod(HELPER[0])
    hf = hm.functions.get(HELPER[1])
    unknown_idiom = None
    if hf is None:
        unknown_idiom = f"helper {HELPER[1]} not found in {HELPER[0]}"
    else:
        # decide the helper for ALL integers in the (sign, sign, exactness, zero-quotient) domain
        from . import truncdomain
        try:
            cases = truncdomain.decide(hm, HELPER[1])
        except AnalysisError as e:
            cases = None
            unknown_idiom = f"{HELPER[1]}: {e}"
        if cases is not None:
            for desc, exp, got, ok in cases:
                run.ob(ok, f"{HELPER[0]}::{HELPER[1]}", file=hm.rel, line=hf.node.lineno, detail=desc,
                       expected=f"trunc(a/b) = {exp} (Q = |a| // |b|)", found=f"{got}", sample=(desc.startswith("a- b+ exact |q|>=1")))
    for rel, own in MODS.items():
        mod = idx.mod(rel)
        for q, f in mod.functions.items():
            name = q.split(".")[-1].split("#")[0]
            key = f"{rel}::{q}"
            # 1. no float arithmetic anywhere on these modules' functions
            if key not in FLOAT_OK:
                for n in walk_local(f.node):
                    bad = None
                    if isinstance(n, ast.BinOp) and isinstance(n.op, ast.Div):
                        bad = f"float division `{src(n)[:50]}`"
                    elif isinstance(n, ast.Call) and (dotted(n.func) == "float" or (dotted(n.func) or "").startswith("math.")):
                        bad = f"float call `{src(n)[:50]}`"
                    if bad:
                        run.ob(False, key, file=rel, line=n.lineno, detail="no-float", expected="exact integer arithmetic", found=bad)
            if name not in TRUNC_FUNCS | REM_FUNCS | MOD_FUNCS:
                continue
            if q == HELPER[1]:
                continue
            rets = _value_returns(f.node)
            roles = operand_roles(f.node)
            want = _expected_roles(f.node, name)
            signed_domain = own in ("Signed", "Integer") or own is None
            # the value may be computed into a local first (`quotient = helper(lhs, rhs)` ... `return T(quotient)`):
            # follow the locals that flow into the returned expressions
            roots = [r.value for r in rets]
            assigns = [a for a in walk_local(f.node) if isinstance(a, ast.Assign) and len(a.targets) == 1 and isinstance(a.targets[0], ast.Name)]
            for _round in range(3):
                used = {x.id for v in roots for x in ast.walk(v) if isinstance(x, ast.Name)}
                for a in assigns:
                    if a.targets[0].id in used and not any(a.value is v for v in roots):
                        roots.append(a.value)
            exprs = []
            for v in roots:
                for x in ast.walk(v):
                    if isinstance(x, ast.BinOp) and isinstance(x.op, (ast.FloorDiv, ast.Mod, ast.Div)):
                        exprs.append(x)
            helper_calls = [c for v in roots for c in ast.walk(v) if isinstance(c, ast.Call) and dotted(c.func) == HELPER[1]]
            construct = key
            if name in MOD_FUNCS:
                mods = [x for x in exprs if isinstance(x.op, ast.Mod)]
                ok = len(mods) >= 1 and all((roles.get(dotted(x.left)), roles.get(dotted(x.right))) == want for x in mods)
                run.ob(ok, construct, file=rel, line=f.node.lineno, detail="floor-mod", expected=f"<dividend:{want[0]}> % <divisor:{want[1]}>  (S = value of self, O = other operand)",
                       found="; ".join(f"{src(x)} [{roles.get(dotted(x.left))} % {roles.get(dotted(x.right))}]" for x in mods) or "no % expression")
                continue
            if signed_domain or helper_calls:
                # ints in _op: only the branch for two Python ints computes a value itself
                floor_ops = [x for x in exprs if isinstance(x.op, (ast.FloorDiv, ast.Mod))]
                ok = bool(helper_calls) and not floor_ops
                if own is None and not helper_calls and not floor_ops:
                    continue
                run.ob(ok, construct, file=rel, line=f.node.lineno, detail="truncating",
                       expected=f"{HELPER[1]}(lhs, rhs) (rounds toward zero like VHDL '/' and 'rem')",
                       found=("; ".join(src(x) for x in floor_ops) + " (floors)") if floor_ops else ("helper" if helper_calls else "no helper call"))
                for c in helper_calls:
                    args = [dotted(a) for a in c.args]
                    got = tuple(roles.get(a) for a in args)
                    ok = got == want
                    run.ob(ok, construct, file=rel, line=c.lineno, detail="helper-operand-order", expected=f"(dividend:{want[0]}, divisor:{want[1]})", found=f"{args} roles {got}")
                if name in REM_FUNCS:
                    # lhs - rhs * q
                    shapes = [src(r.value) for r in rets if HELPER[1] in src(r.value)]
                    ok = False
                    for r in rets:
                        for _n, b in P.find(r.value, f"__d - __v * {HELPER[1]}(__d, __v)"):
                            if (roles.get(b["__d"]), roles.get(b["__v"])) == want:
                                ok = True
                    run.ob(ok, construct, file=rel, line=f.node.lineno, detail="remainder-shape", expected="dividend - divisor * truncdiv(dividend, divisor)", found="; ".join(shapes)[:100])
            else:
                # Unsigned: operands are non-negative where a vector is involved, floor == trunc
                divs = [x for x in exprs if isinstance(x.op, ast.FloorDiv)]
                ok = bool(divs) and all((roles.get(dotted(x.left)), roles.get(dotted(x.right))) == want for x in divs)
                run.ob(ok, construct, file=rel, line=f.node.lineno, detail="unsigned-division", expected=f"<dividend:{want[0]}> // <divisor:{want[1]}> on non-negative operands",
                       found="; ".join(f"{src(x)} [{roles.get(dotted(x.left))} // {roles.get(dotted(x.right))}]" for x in divs) or "none")
    if unknown_idiom is not None and not run.findings:
        raise AnalysisError(unknown_idiom)
    run.end()


def run_extension_rule(run, rule_id="C09.ext"):
    """operands are extended with their own sign bit (Signed) / with zero (Unsigned)."""
    run.begin(
        rule_id,
        "mixed-width folding extends each operand with ITS OWN fill value: X._value.iter_extend(f) where f is "
        "X._value[-1] (sign bit of the same operand) in Signed and a constant zero bit in Unsigned",
        floor=4,
    )
    idx = run.idx
    for rel, own in (("cohdl/_core/_unsigned.py", "Unsigned"), ("cohdl/_core/_signed.py", "Signed")):
        mod = idx.mod(rel)
        f = mod.func(f"{own}.add")
        sites = [c for c in ast.walk(f.node) if isinstance(c, ast.Call) and isinstance(c.func, ast.Attribute)
                 and c.func.attr == "iter_extend" and (dotted(c.func.value) or "").endswith("._value")]
        if len(sites) < 2:
            raise AnalysisError(f"{own}.add: extension sites not found")
        for c in sites:
            base = dotted(c.func.value).rsplit(".", 1)[0]
            arg = c.args[0] if c.args else None
            defs = []
            if isinstance(arg, ast.Name):
                for n in walk_local(f.node):
                    if isinstance(n, ast.Assign) and any(isinstance(t, ast.Name) and t.id == arg.id for t in n.targets):
                        defs.append(n.value)
            val = defs[0] if len(defs) == 1 else arg
            text = P.T(val)
            if own == "Signed":
                # plain source comparison: P.T treats locals as metavariables, and here the point is WHICH local it is
                # (`narrow._value.iter_extend(wide._value[-1])` extends one operand with the other operand's sign)
                ok = str(src(val)) == f"{base}._value[-1]"
                exp = f"{base}._value[-1] (sign bit of the extended operand)"
            else:
                ok = text in ("Bit(0)", "Bit(False)", "Bit('0')")
                exp = "constant zero bit"
            run.ob(ok, f"{own}.add", file=rel, line=c.lineno, detail=f"extend[{base}]", expected=exp, found=f"{src(arg)} = {text}")
        # trial assignment from a narrower source: every bit of the target is (re)written - the bits above the source get
        # the source's extension (zero / the sign), never keep the target's previous content
        for fn in ("_assign",):
            g = mod.func(f"{own}.{fn}")
            zips = [c for c in ast.walk(g.node) if isinstance(c, ast.Call) and isinstance(c.func, ast.Attribute) and c.func.attr == "apply_zip"]
            if not zips:
                raise AnalysisError(f"{own}.{fn}: bit-copy sites not found")
            for k, c in enumerate(zips):
                a = c.args[1] if len(c.args) > 1 else None
                ext = isinstance(a, ast.Call) and isinstance(a.func, ast.Attribute) and a.func.attr == "iter_extend" and a.args
                fill = src(a.args[0]) if ext else None
                if own == "Unsigned":
                    ok = ext and fill in ("'0'", '"0"', "Bit(0)", "Bit(False)")
                    exp = "<source>.iter_extend(zero)"
                else:
                    neg = any(isinstance(anc, ast.If) and src(anc.test).replace(" ", "") in ("other<0",) and any(x is c for b in anc.body for x in ast.walk(b)) for anc in mod.parents.ancestors(c))
                    ok = ext and fill in (("'1'", '"1"') if neg else ("'0'", '"0"'))
                    exp = "<bits>.iter_extend('1')" if neg else "<bits>.iter_extend('0')"
                run.ob(bool(ok), f"{own}.{fn}", file=rel, line=c.lineno, detail=f"fill#{k}", expected=exp + " (all target bits written)", found=src(a)[:60] if a is not None else "?")
    # subtraction = addition of the negated right operand: the negation is formed at the width of the RESULT
    for rel, own in (("cohdl/_core/_unsigned.py", "Unsigned"), ("cohdl/_core/_signed.py", "Signed")):
        mod = idx.mod(rel)
        g = mod.func(f"{own}.sub")
        p_rhs = g.node.args.args[1].arg
        negs = [n for n in walk_local(g.node) if isinstance(n, ast.Assign) and isinstance(n.value, ast.UnaryOp) and isinstance(n.value.op, ast.USub) and dotted(n.value.operand) == p_rhs]
        vec_negs = []
        for n in negs:
            # the negation of a VECTOR operand (not the integer branch)
            int_branch = any(isinstance(anc, ast.If) and "int" in src(anc.test) and any(x is n for b in anc.body for x in ast.walk(b)) for anc in mod.parents.ancestors(n))
            if not int_branch:
                vec_negs.append(n)
        if not vec_negs:
            # integer form: (a - b) % M must wrap modulo 2**width
            mods = [x for x in walk_local(g.node) if isinstance(x, ast.BinOp) and isinstance(x.op, ast.Mod) and any(isinstance(y, ast.BinOp) and isinstance(y.op, ast.Sub) for y in ast.walk(x.left))]
            if not mods:
                raise AnalysisError(f"{own}.sub: neither a negated operand nor an integer difference found (unknown idiom)")
            for x in mods:
                r = x.right
                pow2 = (isinstance(r, ast.BinOp) and isinstance(r.op, ast.Pow) and src(r.left) == "2") or (isinstance(r, ast.BinOp) and isinstance(r.op, ast.LShift) and src(r.left) == "1")
                run.ob(pow2, f"{own}.sub", file=rel, line=x.lineno, detail="wraps-modulo-2**w", expected="(a - b) % 2**width", found=src(x)[:70])
            continue
        for n in vec_negs:
            # some earlier statement on every path to it widens a narrower operand: `if rhs.width < self.width: rhs = rhs.resize(self.width)`
            widened = any(isinstance(a, ast.Assign) and dotted(a.targets[0]) == p_rhs and isinstance(a.value, ast.Call) and isinstance(a.value.func, ast.Attribute) and a.value.func.attr == "resize"
                          and dotted(a.value.func.value) == p_rhs and a.lineno < n.lineno for a in walk_local(g.node))
            run.ob(widened, f"{own}.sub", file=rel, line=n.lineno, detail="negate-at-result-width", expected=f"{p_rhs} is extended to the result width before `-{p_rhs}` (two's complement of a narrower operand differs)", found="extended" if widened else "negated in its own width")
    # two's complement negation wraps (like numeric_std), it never saturates
    sm = idx.mod("cohdl/_core/_signed.py")
    ng = sm.func("Signed.__neg__")
    rets = [r for r in walk_local(ng.node) if isinstance(r, ast.Return)]
    ok = any(src(r.value) in ("~self + 1", "(~self) + 1", "1 + ~self") for r in rets) and not any(isinstance(c.func, ast.Attribute) and c.func.attr in ("max_int", "min_int", "max", "min") for c in ast.walk(ng.node) if isinstance(c, ast.Call))
    run.ob(ok, "Signed.__neg__", file=sm.rel, line=ng.node.lineno, detail="wraps", expected="~self + 1 (the most negative value maps to itself, as in numeric_std)", found="; ".join(src(r.value)[:40] for r in rets))
    run.end()
