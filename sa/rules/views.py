"""F-VIEW - views of qualified objects keep root, qualifier and reference spec."""

from __future__ import annotations

import ast

from ..astutil import AnalysisError, dotted, src, walk_local, calls_in, kwarg
from .. import pattern as P

TQ = "cohdl/_core/_type_qualifier.py"
IRR = "cohdl/_core/_ir/_repr.py"
GEN = "cohdl/_compiler/frontend/_generate_ir.py"


def _aliases_storage(fn: ast.AST, expr: ast.AST) -> bool:
    """expr denotes (part of) the receiver's storage: self._value[...], self._value.<view>, loop element of self._value"""
    def direct(e):
        if isinstance(e, ast.Subscript) and dotted(e.value) == "self._value":
            return True
        if isinstance(e, ast.Attribute) and dotted(e.value) == "self._value":
            return True  # a view attribute (.unsigned/.signed/.bitvector), not a method call
        return False

    if direct(expr):
        return True
    if isinstance(expr, ast.Name):
        for n in ast.walk(fn):
            if isinstance(n, ast.Assign) and any(isinstance(x, ast.Name) and x.id == expr.id for x in n.targets):
                if direct(n.value):
                    return True
            if isinstance(n, ast.For) and expr.id in {x.id for x in ast.walk(n.target) if isinstance(x, ast.Name)} and "self._value" in P.T(n.iter):
                return True
    return False


def view_sites(idx):
    """-> list of (module, function FuncInfo, call, kind)"""
    out = []
    tq = idx.mod(TQ)
    for name, f in tq.methods("TypeQualifier").items():
        for g in tq.funcs_named(f"TypeQualifier.{name}"):
            for c in ast.walk(g.node):
                if isinstance(c, ast.Call) and isinstance(c.func, ast.Subscript) and dotted(c.func.value) in ("self.qualifier", "Temporary", "Signal", "Variable", "Port") and c.args:
                    if _aliases_storage(g.node, c.args[0]):
                        out.append((tq, g, c, "view"))
    seen = set()
    uniq = []
    for s in out:
        if id(s[2]) not in seen:
            seen.add(id(s[2]))
            uniq.append(s)
    return uniq


def run_rule(run, rule_id="F-VIEW"):
    _run_sites_rule(run, rule_id)
    from . import viewoffsets
    viewoffsets.run_rule(run, "F-VIEW.offsets")
    run_kind_rule(run, "F-VIEW.kind")


def run_kind_rule(run, rule_id="F-VIEW.kind"):
    run.begin(
        rule_id,
        "the typed views of a qualified object (.unsigned / .signed / .bitvector) have exactly the requested kind: the "
        "object itself is returned only when it already IS of that kind, otherwise a view of the value's sibling type "
        "over the same root and reference (abstract evaluation of the three getters over the kind lattice)",
        floor=9,
    )
    from ..absint import Interp, Reject

    TQ = "cohdl/_core/_type_qualifier.py"
    tq = run.idx.mod(TQ)

    class _BV:
        def __init__(self, store=None):
            self.store = store if store is not None else object()

        unsigned = property(lambda self: _U(self.store))
        signed = property(lambda self: _S(self.store))
        bitvector = property(lambda self: _BV(self.store))

    class _U(_BV):
        pass

    class _S(_BV):
        pass

    class _View:
        def __init__(self, kind, value, ref, root):
            self.kind, self.value, self.ref, self.root = kind, value, ref, root

    class _Q:
        def __getitem__(self, kind):
            return lambda value, _ref_spec=None, _root=None: _View(kind, value, _ref_spec, _root)

    class _Me:
        pass

    kinds = {"bitvector": _BV, "unsigned": _U, "signed": _S}
    for prop, want in kinds.items():
        getters = [g for g in tq.funcs_named(f"TypeQualifier.{prop}") if not any((dotted(d) or "").endswith(".setter") for d in g.node.decorator_list)]
        if not getters:
            raise AnalysisError(f"TypeQualifier.{prop}: getter not found")
        g = getters[0]
        for hname, have in kinds.items():
            me = _Me()
            me._Wrapped = have
            me._value = have()
            me._ref_spec = ["ref"]
            me._root = object()
            me.qualifier = _Q()
            prims = {"issubclass": lambda c, b: issubclass(c, b), "Signed": _S, "Unsigned": _U, "BitVector": _BV, "type": type,
                     "isinstance": lambda v, t: isinstance(v, t) if isinstance(t, (type, tuple)) else False}
            try:
                got = Interp(tq, prims).call_node(g.node, [me], {}, __import__("sa.absint", fromlist=["Env"]).Env())
            except Reject as e:
                got = f"rejected: {e}"
            if got is me:
                ok = have is want
                found = f"the {hname} object itself"
            elif isinstance(got, _View):
                ok = got.kind is want and isinstance(got.value, want) and type(got.value) is want and got.value.store is me._value.store and got.root is me._root and got.ref is me._ref_spec
                found = f"view of kind {[k for k, v in kinds.items() if v is got.kind] or got.kind}" + ("" if got.root is me._root and got.ref is me._ref_spec else " with another root/reference")
            else:
                ok, found = False, str(got)[:60]
            run.ob(ok, f"TypeQualifier.{prop}", file=tq.rel, line=g.node.lineno, detail=f"of-{hname}", expected=f"a {prop} view (the object itself only if it is {prop} already)", found=found, sample=(prop, hname) == ("signed", "unsigned"))
    run.end()


def _run_sites_rule(run, rule_id="F-VIEW"):
    run.begin(
        rule_id,
        "every construction of a qualified object that aliases the receiver's storage (slice, element, iteration, "
        ".unsigned/.signed/.bitvector, alias and always-block rewrites) passes _root derived from the receiver's root and "
        "a _ref_spec that extends the receiver's reference spec with the index that was applied",
        floor=9,
    )
    idx = run.idx
    sites = view_sites(idx)
    for mod, f, c, kind in sites:
        name = f.qualname.split("#")[0]
        root = kwarg(c, "_root")
        ref = kwarg(c, "_ref_spec")
        n = sum(1 for s in sites if s[1] is f and s[2].lineno <= c.lineno)
        construct = f"{name}#{n}"
        run.ob(root is not None and P.T(root) == "self._root", construct, file=mod.rel, line=c.lineno, detail="_root",
               expected="_root=self._root", found=src(root) if root is not None else "not passed: the view becomes its own root")
        if ref is None:
            run.ob(False, construct, file=mod.rel, line=c.lineno, detail="_ref_spec", expected="_ref_spec passed", found="not passed: the view refers to the whole object")
            continue
        t = P.T(ref)
        if t == "self._ref_spec":
            run.ob(True, construct, file=mod.rel, line=c.lineno, detail="_ref_spec", expected="same bits: self._ref_spec", found=t)
            # only the type views may reuse the spec unchanged
            ok = src(c.args[0]) in ("cast",) or ".unsigned" in P.T(c.args[0]) or ".signed" in P.T(c.args[0]) or ".bitvector" in P.T(c.args[0]) or any(
                isinstance(a, ast.Assign) and dotted(a.targets[0]) == dotted(c.args[0]) and src(a.value) in ("self._value.unsigned", "self._value.signed", "self._value.bitvector")
                for a in ast.walk(f.node))
            run.ob(ok, construct, file=mod.rel, line=c.lineno, detail="_ref_spec.unchanged-only-for-type-views", expected="unchanged spec only for .unsigned/.signed/.bitvector", found=src(c.args[0]))
            continue
        # [*<the receiver's reference spec without the slice being refined>, Slice|Offset(..)]: the starred local is
        # assigned from the receiver's _ref_spec (whatever it is called)
        def _from_ref_spec(e):
            if not isinstance(e, ast.Name):
                return False
            defs = [a.value for a in ast.walk(f.node) if isinstance(a, ast.Assign) and dotted(a.targets[0]) == e.id]
            seen = set()
            while defs:
                d = defs.pop()
                if "_ref_spec" in src(d):
                    return True
                for nm in [x.id for x in ast.walk(d) if isinstance(x, ast.Name) and x.id not in seen]:
                    seen.add(nm)
                    defs.extend(a.value for a in ast.walk(f.node) if isinstance(a, ast.Assign) and dotted(a.targets[0]) == nm)
            return False
        ok = isinstance(ref, ast.List) and len(ref.elts) == 2 and isinstance(ref.elts[0], ast.Starred) and _from_ref_spec(ref.elts[0].value) and isinstance(ref.elts[1], ast.Call) and dotted(ref.elts[1].func) in ("Slice", "Offset")
        run.ob(ok, construct, file=mod.rel, line=c.lineno, detail="_ref_spec", expected="[*prev, Slice|Offset(<index>, base_offset)]", found=t[:80])
        if ok:
            last = ref.elts[1]
            args = [src(a) for a in last.args]
            kind2 = dotted(last.func)
            idx_src = src(c.args[0])
            # the applied index: self._value[<index>] of the object passed as first argument
            val = c.args[0]
            applied = None
            if isinstance(val, ast.Name):
                for a in ast.walk(f.node):
                    if isinstance(a, ast.Assign) and dotted(a.targets[0]) == val.id and isinstance(a.value, ast.Subscript) and a.lineno < c.lineno:
                        applied = a.value.slice
            if name.endswith("__getitem__"):
                if kind2 == "Slice":
                    ok2 = args == ["arg.start", "arg.stop", "base_offset"] and applied is not None and P.T(applied) == "arg.start:arg.stop"
                    exp = "Slice(arg.start, arg.stop, base_offset) for self._value[arg.start:arg.stop]"
                else:
                    ok2 = args == ["arg", "base_offset"]
                    exp = "Offset(arg, base_offset)"
                run.ob(ok2, construct, file=mod.rel, line=last.lineno, detail="_ref_spec.index", expected=exp, found=f"{kind2}({', '.join(args)}) for self._value[{src(applied) if applied is not None else '?'}]")
            # (the index arithmetic of __iter__ and of nested slices is decided semantically by F-VIEW.offsets)
    # the two rewrite sites outside the class
    for rel, q, rootexpr in ((IRR, "CodeBlock._fix_alias.<locals>.apply_alias", "alias_map[obj._root]"), (GEN, "IrGenerator.convert_sequential.<locals>.replace_temporaries", "temp_replacement[parent]")):
        m = idx.mod(rel)
        f = m.func(q)
        cs = [c for c in ast.walk(f.node) if isinstance(c, ast.Call) and isinstance(c.func, ast.Subscript) and kwarg(c, "_root") is not None]
        # _root=<map>[<the root of obj>]: the key is obj._root itself or a local assigned from it (any spelling)
        ok = False
        if len(cs) == 1:
            rk = kwarg(cs[0], "_root")
            key_ok = False
            if isinstance(rk, ast.Subscript) and isinstance(rk.value, ast.Name):
                key = rk.slice
                key_ok = src(key) == "obj._root" or (isinstance(key, ast.Name) and P.has(f.node, "__k = obj._root", {"__k": key.id}))
            ok = key_ok and src(kwarg(cs[0], "_ref_spec") or ast.Constant(value=None)) == "obj._ref_spec"
            # ... and the rewrite happens for every view whose ROOT is mapped: the guarding membership test uses the same key
            if ok:
                guards_ = [anc for anc in m.parents.ancestors(cs[0]) if isinstance(anc, ast.If)]
                mem = [g for g in guards_ if isinstance(g.test, ast.Compare) and len(g.test.ops) == 1 and isinstance(g.test.ops[0], ast.In) and dotted(g.test.comparators[0]) == rk.value.id]
                same_key = any(src(g.test.left) == src(rk.slice) for g in mem)
                run.ob(same_key, q.split(".<locals>.")[-1], file=rel, line=cs[0].lineno, detail="rewrite-keyed-by-root", expected=f"if {src(rk.slice)} in {rk.value.id}: (slices and elements of a mapped root are rewritten too)",
                       found="ok" if same_key else "; ".join(src(g.test) for g in mem) or "no membership guard")
        run.ob(ok, q.split(".<locals>.")[-1], file=rel, line=(cs[0].lineno if cs else f.node.lineno), detail="rewrite-keeps-view",
               expected=f"_root={rootexpr}, _ref_spec=obj._ref_spec", found=src(cs[0])[:100] if cs else "missing")
    run.end()
