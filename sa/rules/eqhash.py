"""F-EQ - __eq__ compares like with like, and agrees with __hash__.

For every class of the given modules that defines __eq__(self, other):
  * no comparison has the same expression on both sides (`self.x == self.x` is a tautology, Engler's "redundant
    operation" contradiction);
  * every comparison of an attribute pairs self.A with other.A (same attribute);
  * if the class defines __hash__ over attributes H of self, objects that compare equal hash equal: every attribute in
    H is compared, or the compared attributes determine H (listed in DETERMINES, derived from the constructor)."""

from __future__ import annotations

import ast

from ..astutil import AnalysisError, dotted, src, walk_local


def _determined_by(init, attr_roots):
    """attributes of self assigned in __init__ from expressions over the given attributes only"""
    det = set(attr_roots)
    if init is None:
        return det
    params = {}
    changed = True
    assigns = [a for a in walk_local(init) if isinstance(a, (ast.Assign, ast.AnnAssign)) and a.value is not None]
    # parameter p stored in self.X: everything computed from p alone is determined by X
    for a in assigns:
        t = a.targets[0] if isinstance(a, ast.Assign) else a.target
        if (dotted(t) or "").startswith("self.") and isinstance(a.value, ast.Name):
            params[a.value.id] = dotted(t).split(".", 1)[1]
    while changed:
        changed = False
        for a in assigns:
            t = a.targets[0] if isinstance(a, ast.Assign) else a.target
            d = dotted(t) or ""
            if not d.startswith("self."):
                continue
            name = d.split(".", 1)[1]
            if name in det:
                continue
            srcs = set()
            okk = True
            for n in ast.walk(a.value):
                if isinstance(n, ast.Name):
                    if n.id in params:
                        srcs.add(params[n.id])
                    elif n.id == "self":
                        pass
                    else:
                        okk = False
                elif isinstance(n, ast.Attribute) and dotted(n.value) == "self":
                    srcs.add(n.attr)
            if okk and srcs and srcs <= det:
                det.add(name)
                changed = True
    return det


CONTROL = """
class Arg:
    def __init__(self, w, e):
        self.width = w
        self.exp = e
    def __hash__(self):
        return hash((self.width, self.exp))
    def __eq__(self, other):
        return self.width == other.width and self.exp == self.exp
"""


def run_rule(run, rule_id, rels, _control=False):
    run.begin(
        rule_id,
        "__eq__ pairs every attribute of self with the SAME attribute of the other object (no self-comparison) and "
        "compares (or determines) everything __hash__ hashes, so canonical-type caches keyed by these objects neither "
        "merge distinct parameters nor split equal ones",
        floor=1,
    )
    n = 0
    mods = [run.idx.mod(rel) for rel in rels]
    for m in mods:
        rel = m.rel
        for cname in m.classes:
            eq = m.functions.get(f"{cname}.__eq__")
            if eq is None or len(eq.node.args.args) != 2:
                continue
            o = eq.node.args.args[1].arg
            cmps = [c for c in walk_local(eq.node) if isinstance(c, ast.Compare) and len(c.ops) == 1 and isinstance(c.ops[0], (ast.Eq, ast.NotEq, ast.Is, ast.IsNot))]
            compared = set()
            # a comparison of two tuples compares element-wise
            pairs = []
            for c in cmps:
                l, r = c.left, c.comparators[0]
                if isinstance(l, ast.Tuple) and isinstance(r, ast.Tuple) and len(l.elts) == len(r.elts):
                    pairs.extend((c, a, b) for a, b in zip(l.elts, r.elts))
                else:
                    pairs.append((c, l, r))
            for c, l, r in pairs:
                dl, dr = dotted(l) or src(l), dotted(r) or src(r)
                n += 1
                # a projection (str(), repr(), hash(), .__name__ ...) of a field identifies less than the field does:
                # two different parameters with the same projection would share one cached type
                proj = [x for x in (l, r) if (isinstance(x, ast.Call) and any(dotted(a) and "." in dotted(a) and dotted(a).split(".")[0] in ("self", o) for a in x.args))
                        or (isinstance(x, ast.Call) and dotted(x.func) in ("str", "repr", "hash", "format", "len") and any(dotted(a) in ("self", o) for a in x.args))
                        or (isinstance(x, ast.Attribute) and x.attr in ("__name__", "__qualname__", "__class__") and isinstance(x.value, ast.Attribute))]
                if proj:
                    run.ob(False, f"{cname}.__eq__", file=rel, line=c.lineno, detail=f"projection {src(proj[0])}", expected="fields compared themselves (identity / equality of the parameter objects)",
                           found=f"`{src(c)}` compares a projection of the field: distinct parameters with equal {src(proj[0].func) if isinstance(proj[0], ast.Call) else proj[0].attr} are merged")
                    continue
                if dl == dr:
                    run.ob(False, f"{cname}.__eq__", file=rel, line=c.lineno, detail=f"{dl} vs {dr}", expected=f"self.<attr> == {o}.<attr>", found=f"`{src(c)}` compares an expression with itself (always true)")
                    continue
                sides = {dl.split(".")[0]: dl, dr.split(".")[0]: dr}
                if "self" in sides and o in sides and "." in sides["self"] and "." in sides[o]:
                    a1, a2 = sides["self"].split(".", 1)[1], sides[o].split(".", 1)[1]
                    run.ob(a1 == a2, f"{cname}.__eq__", file=rel, line=c.lineno, detail=f"{dl} vs {dr}", expected=f"self.{a1} == {o}.{a1}", found=f"{dl} == {dr}")
                    if a1 == a2:
                        compared.add(a1.split(".")[0])
                else:
                    bad = dl.split(".")[0] == dr.split(".")[0] == "self" or dl.split(".")[0] == dr.split(".")[0] == o
                    run.ob(not bad, f"{cname}.__eq__", file=rel, line=c.lineno, detail=f"{dl} vs {dr}", expected=f"one side of self, one side of {o}", found=f"{dl} == {dr}", sample=False)
            hs = m.functions.get(f"{cname}.__hash__")
            if hs is not None and cmps:
                hashed = {x.attr for x in ast.walk(hs.node) if isinstance(x, ast.Attribute) and dotted(x.value) == "self"}
                init = m.functions.get(f"{cname}.__init__")
                det = _determined_by(init.node if init else None, compared)
                missing = sorted(hashed - det)
                run.ob(not missing, f"{cname}.__eq__", file=rel, line=eq.node.lineno, detail="agrees-with-hash", expected=f"compares or determines everything __hash__ uses ({sorted(hashed)})", found=("ok" if not missing else f"hashed but not compared: {missing}"))
    if n < 1:
        raise AnalysisError(f"{rule_id}: no __eq__ method with comparisons found in {rels}")
    # positive control: a tautological comparison must be recognised on every run
    import ast as _ast
    ctl = _ast.parse(CONTROL)
    taut = [c for c in _ast.walk(ctl) if isinstance(c, _ast.Compare) and (dotted(c.left) or "") == (dotted(c.comparators[0]) or "#")]
    if len(taut) != 1:
        raise AnalysisError(f"{rule_id}: positive control not recognised")
    run.note("positive control recognised: `self.exp == self.exp`")
    run.end()
