"""E4/F-SHAPE - a small abstract interpreter for the Python subset used by the std helpers and the
primitive types, evaluated over *symbolic bit sequences*.

Abstract domain
  BV(bits)      bit vector; bits[0] is the least significant bit; each bit is an opaque token such as
                "x0[3]" (bit 3 of input x0) or the constants "0"/"1".  `a @ b` puts a in the upper bits,
                `v[hi:lo]` is the inclusive DOWNTO slice, iteration yields bit 0 first.
  Opaque(tag)   anything the analysis does not look into (operator applications `fn(a, b)` of a
                symbolic binary operator are recorded as trees so that operand ORDER can be observed)
  plus ordinary Python ints / bools / None / str / tuples / lists / dicts.

The interpreter never imports or runs cohdl: it walks the function's AST.  Calls are resolved to
(1) a model supplied by the rule (primitive), (2) a function defined in the same module (interpreted
recursively), (3) a whitelisted pure builtin.  Anything else is an AnalysisError (unknown idiom).
"""

from __future__ import annotations

import ast

from .astutil import AnalysisError, dotted, src


class Reject(Exception):
    """the interpreted code rejects its input (assert / raise)."""


class _Return(Exception):
    def __init__(self, value):
        self.value = value


class _Break(Exception):
    pass


class _Continue(Exception):
    pass


class Bit:
    __slots__ = ("tok",)

    def __init__(self, tok):
        self.tok = tok

    def __repr__(self):
        return self.tok

    def __eq__(self, o):
        return isinstance(o, Bit) and o.tok == self.tok

    def __hash__(self):
        return hash(self.tok)


class BV:
    def __init__(self, bits, kind="BitVector"):
        self.bits = tuple(bits)
        self.kind = kind

    @staticmethod
    def sym(name, width, kind="BitVector"):
        return BV([Bit(f"{name}[{i}]") for i in range(width)], kind)

    @property
    def width(self):
        return len(self.bits)

    def __len__(self):
        return len(self.bits)

    def __iter__(self):
        return iter([BV([b], "Bit") for b in self.bits])

    def __repr__(self):
        return f"{self.kind}<{' '.join(repr(b) for b in reversed(self.bits))}>"

    def __eq__(self, o):
        return isinstance(o, BV) and o.bits == self.bits

    def __hash__(self):
        return hash(self.bits)

    def concat(self, low: "BV"):
        return BV(low.bits + self.bits)

    def slice(self, hi, lo):
        if not (isinstance(hi, int) and isinstance(lo, int)):
            raise AnalysisError("absint: symbolic slice bounds")
        if not (0 <= lo <= hi < self.width):
            raise Reject(f"slice [{hi}:{lo}] outside vector of width {self.width}")
        return BV(self.bits[lo:hi + 1])


class Opaque:
    def __init__(self, tag, children=()):
        self.tag = tag
        self.children = tuple(children)

    def __repr__(self):
        if self.children:
            return f"{self.tag}({', '.join(map(repr, self.children))})"
        return self.tag

    def __eq__(self, o):
        return isinstance(o, Opaque) and (o.tag, o.children) == (self.tag, self.children)

    def __hash__(self):
        return hash((self.tag, self.children))

    def leaves(self):
        if not self.children:
            return [self]
        out = []
        for c in self.children:
            out.extend(c.leaves() if isinstance(c, Opaque) else [c])
        return out


class TypeTok:
    """a (parametrised) type object: BitVector[8], Bit, Array[T, n] ..."""

    def __init__(self, name, **params):
        self.name = name
        self.params = params

    def __repr__(self):
        if self.params:
            return f"{self.name}[{', '.join(f'{k}={v}' for k, v in self.params.items())}]"
        return self.name

    def __eq__(self, o):
        return isinstance(o, TypeTok) and (o.name, o.params) == (self.name, self.params)

    def __hash__(self):
        return hash((self.name, tuple(sorted((k, repr(v)) for k, v in self.params.items()))))


class Closure:
    def __init__(self, node, env, interp):
        self.node = node
        self.env = env
        self.interp = interp

    def __call__(self, *args, **kwargs):
        return self.interp.call_node(self.node, list(args), dict(kwargs), self.env)


class Env:
    def __init__(self, parent=None):
        self.vars = {}
        self.parent = parent

    def lookup(self, name):
        e = self
        while e is not None:
            if name in e.vars:
                return True, e.vars[name]
            e = e.parent
        return False, None


SAFE_BUILTINS = {
    "len": len, "range": range, "enumerate": enumerate, "zip": zip, "reversed": reversed, "min": min, "max": max,
    "sum": sum, "list": list, "tuple": tuple, "int": int, "bool": bool, "abs": abs, "all": all, "any": any,
    "sorted": sorted, "dict": dict, "set": set, "str": str, "isinstance": None, "True": True, "False": False, "None": None,
}


class Interp:
    def __init__(self, module, primitives: dict, step_limit=200000):
        self.module = module  # ModuleInfo whose top-level functions may be interpreted
        self.prims = primitives
        self.steps = 0
        self.step_limit = step_limit
        self.trace = []

    # ------------------------------------------------------------------ calls
    def call_function(self, qualname: str, *args, **kwargs):
        f = self.module.functions.get(qualname)
        if f is None:
            raise AnalysisError(f"absint: function {qualname} not found in {self.module.rel}")
        return self.call_node(f.node, list(args), dict(kwargs), Env())

    def call_generator(self, qualname: str, *args, **kwargs):
        """run a generator function to exhaustion; -> list of the yielded values"""
        self._yields = []
        self.call_function(qualname, *args, **kwargs)
        out, self._yields = self._yields, None
        return out

    def call_node(self, node, args, kwargs, env):
        local = Env(env)
        if isinstance(node, ast.Lambda):
            self.bind(node.args, args, kwargs, local)
            return self.ev(node.body, local)
        self.bind(node.args, args, kwargs, local)
        try:
            self.run(node.body, local)
        except _Return as r:
            return r.value
        return None

    def bind(self, a: ast.arguments, args, kwargs, env):
        params = [p.arg for p in a.posonlyargs + a.args]
        defaults = [None] * (len(params) - len(a.defaults)) + list(a.defaults)
        args = list(args)
        for p, d in zip(params, defaults):
            if args:
                env.vars[p] = args.pop(0)
            elif p in kwargs:
                env.vars[p] = kwargs.pop(p)
            elif d is not None:
                env.vars[p] = self.ev(d, env)
            else:
                raise Reject(f"missing argument {p}")
        if a.vararg:
            env.vars[a.vararg.arg] = tuple(args)
        elif args:
            raise Reject("too many positional arguments")
        for p, d in zip(a.kwonlyargs, a.kw_defaults):
            if p.arg in kwargs:
                env.vars[p.arg] = kwargs.pop(p.arg)
            elif d is not None:
                env.vars[p.arg] = self.ev(d, env)
            else:
                raise Reject(f"missing keyword argument {p.arg}")
        if a.kwarg:
            env.vars[a.kwarg.arg] = dict(kwargs)
        elif kwargs:
            raise Reject(f"unexpected keyword arguments {list(kwargs)}")

    # ------------------------------------------------------------------ names
    def name(self, ident, env):
        ok, v = env.lookup(ident)
        if ok:
            return v
        if ident in self.prims:
            return self.prims[ident]
        if ident in self.module.functions and "." not in ident:
            return Closure(self.module.functions[ident].node, Env(), self)
        if ident in SAFE_BUILTINS and SAFE_BUILTINS[ident] is not None or ident in ("True", "False", "None"):
            return SAFE_BUILTINS[ident]
        # module-level constant / lambda bound to a name
        for s in self.module.tree.body:
            if isinstance(s, ast.Assign) and any(isinstance(t, ast.Name) and t.id == ident for t in s.targets):
                if isinstance(s.value, (ast.Lambda, ast.Constant)):
                    return self.ev(s.value, Env())
                # constant arithmetic (`LIMIT = 2**63`, `MASK = (1 << 8) - 1`)
                if all(isinstance(x, (ast.Constant, ast.BinOp, ast.UnaryOp, ast.operator, ast.unaryop)) for x in ast.walk(s.value)):
                    return self.ev(s.value, Env())
        raise AnalysisError(f"absint: unknown name `{ident}` (no model supplied)")

    # ------------------------------------------------------------------ statements
    def run(self, stmts, env):
        for s in stmts:
            self.steps += 1
            if self.steps > self.step_limit:
                raise AnalysisError("absint: step limit exceeded")
            self.stmt(s, env)

    def assign(self, target, value, env):
        if isinstance(target, ast.Name):
            env.vars[target.id] = value
        elif isinstance(target, (ast.Tuple, ast.List)):
            vals = list(value)
            star = [i for i, t in enumerate(target.elts) if isinstance(t, ast.Starred)]
            if star:
                i = star[0]
                n_after = len(target.elts) - i - 1
                if len(vals) < len(target.elts) - 1:
                    raise Reject("not enough values to unpack")
                for t, v in zip(target.elts[:i], vals[:i]):
                    self.assign(t, v, env)
                self.assign(target.elts[i].value, vals[i:len(vals) - n_after], env)
                for t, v in zip(target.elts[i + 1:], vals[len(vals) - n_after:]):
                    self.assign(t, v, env)
            else:
                if len(vals) != len(target.elts):
                    raise Reject("unpack length mismatch")
                for t, v in zip(target.elts, vals):
                    self.assign(t, v, env)
        elif isinstance(target, ast.Subscript):
            base = self.ev(target.value, env)
            if isinstance(target.slice, ast.Slice):
                sl = target.slice
                idx = slice(self.ev(sl.lower, env) if sl.lower is not None else None, self.ev(sl.upper, env) if sl.upper is not None else None,
                            self.ev(sl.step, env) if sl.step is not None else None)
                if not isinstance(base, list):
                    raise AnalysisError(f"absint: unsupported slice store {src(target)}")
                base[idx] = list(value) if not isinstance(value, list) else value
                return
            idx = self.ev(target.slice, env)
            if isinstance(base, (list, dict)):
                base[idx] = value
            elif type(base).__module__.startswith("sa.") and hasattr(type(base), "__setitem__"):
                base[idx] = value  # a model object supplied by the rule
            else:
                raise AnalysisError(f"absint: unsupported subscript store {src(target)}")
        elif isinstance(target, ast.Attribute):
            base = self.ev(target.value, env)
            if isinstance(base, dict):
                base[target.attr] = value
            elif "__setattr__" in self.prims:
                self.prims["__setattr__"](base, target.attr, value)
            else:
                raise AnalysisError(f"absint: unsupported attribute store {src(target)}")
        else:
            raise AnalysisError(f"absint: unsupported assignment target {src(target)}")

    def stmt(self, s, env):
        if isinstance(s, ast.Assign):
            v = self.ev(s.value, env)
            for t in s.targets:
                self.assign(t, v, env)
        elif isinstance(s, ast.AnnAssign):
            if s.value is not None:
                self.assign(s.target, self.ev(s.value, env), env)
        elif isinstance(s, ast.AugAssign):
            cur = self.ev(s.target, env)
            val = self.binop(s.op, cur, self.ev(s.value, env), s)
            self.assign(s.target, val, env)
        elif isinstance(s, ast.Return):
            raise _Return(self.ev(s.value, env) if s.value is not None else None)
        elif isinstance(s, ast.If):
            self.run(s.body if self.truth(self.ev(s.test, env), s.test) else s.orelse, env)
        elif isinstance(s, ast.For):
            for item in self.iterate(self.ev(s.iter, env), s.iter):
                self.assign(s.target, item, env)
                try:
                    self.run(s.body, env)
                except _Break:
                    break
                except _Continue:
                    continue
            else:
                self.run(s.orelse, env)
        elif isinstance(s, ast.While):
            n = 0
            while self.truth(self.ev(s.test, env), s.test):
                n += 1
                if n > 10000:
                    raise AnalysisError("absint: loop bound exceeded")
                try:
                    self.run(s.body, env)
                except _Break:
                    break
                except _Continue:
                    continue
        elif isinstance(s, ast.Assert):
            if not self.truth(self.ev(s.test, env), s.test):
                raise Reject("assert " + src(s.test)[:80])
        elif isinstance(s, ast.Raise):
            raise Reject("raise " + (src(s.exc)[:60] if s.exc else ""))
        elif isinstance(s, ast.Expr):
            if not isinstance(s.value, ast.Constant):
                self.ev(s.value, env)
        elif isinstance(s, (ast.Pass, ast.Global, ast.Nonlocal)):
            pass
        elif isinstance(s, ast.Delete):
            for t in s.targets:
                if isinstance(t, ast.Subscript):
                    base = self.ev(t.value, env)
                    k = self.ev(t.slice, env)
                    if isinstance(base, (list, dict)):
                        try:
                            del base[k]
                        except (IndexError, KeyError):
                            raise Reject(f"del of missing item {k!r}")
                    else:
                        raise AnalysisError(f"absint: unsupported del target {src(t)}")
                elif isinstance(t, ast.Name):
                    env.vars.pop(t.id, None)
                else:
                    raise AnalysisError(f"absint: unsupported del target {src(t)}")
        elif isinstance(s, ast.Break):
            raise _Break()
        elif isinstance(s, ast.Continue):
            raise _Continue()
        elif isinstance(s, (ast.FunctionDef,)):
            env.vars[s.name] = Closure(s, env, self)
        elif isinstance(s, (ast.ImportFrom, ast.Import)):
            pass   # function-local imports: the names are resolved through the models the rule supplies (unknown name otherwise)
        else:
            raise AnalysisError(f"absint: unsupported statement {type(s).__name__}: {src(s)[:60]}")

    # ------------------------------------------------------------------ expressions
    def truth(self, v, node=None):
        if isinstance(v, (bool, int)) or v is None or isinstance(v, (list, tuple, dict, str)):
            return bool(v)
        if type(v).__module__.startswith("sa.") and "__bool__" in type(v).__dict__:
            return bool(v)  # a model object with a defined truth value (e.g. a concrete bit vector)
        raise AnalysisError(f"absint: truth value of abstract object needed in `{src(node) if node is not None else v}`")

    def iterate(self, v, node=None):
        if isinstance(v, BV):
            return [BV([b], "Bit") for b in v.bits]
        if isinstance(v, (list, tuple, range, dict, str, enumerate, zip, reversed)) or hasattr(v, "__iter__") and not isinstance(v, (Opaque,)):
            return list(v)
        raise AnalysisError(f"absint: cannot iterate over {v!r}")

    def binop(self, op, l, r, node):
        if isinstance(op, ast.MatMult):
            if isinstance(l, BV) and isinstance(r, BV):
                return l.concat(r)
            f = self.prims.get("__matmul__")
            if f is not None:
                return f(l, r)
            raise AnalysisError(f"absint: `@` on {l!r}, {r!r}")
        if isinstance(l, (Opaque, BV)) or isinstance(r, (Opaque, BV)) or type(l).__module__.startswith("sa.") or type(r).__module__.startswith("sa."):
            f = self.prims.get("__binop__")
            if f is not None:
                return f(type(op).__name__, l, r)
            raise AnalysisError(f"absint: operator {type(op).__name__} on abstract operands in `{src(node)[:60]}`")
        import operator as o
        table = {ast.Add: o.add, ast.Sub: o.sub, ast.Mult: o.mul, ast.FloorDiv: o.floordiv, ast.Mod: o.mod, ast.Pow: o.pow,
                 ast.LShift: o.lshift, ast.RShift: o.rshift, ast.BitAnd: o.and_, ast.BitOr: o.or_, ast.BitXor: o.xor}
        fn = table.get(type(op))
        if fn is None:
            raise AnalysisError(f"absint: unsupported operator {type(op).__name__}")
        try:
            return fn(l, r)
        except ZeroDivisionError:
            raise Reject("division by zero")
        except TypeError as e:
            raise AnalysisError(f"absint: {e} in `{src(node)[:60]}`")

    def ev(self, e, env):
        self.steps += 1
        if self.steps > self.step_limit:
            raise AnalysisError("absint: step limit exceeded")
        if isinstance(e, ast.Constant):
            return e.value
        if isinstance(e, ast.Name):
            return self.name(e.id, env)
        if isinstance(e, ast.Tuple):
            return tuple(self.elts(e.elts, env))
        if isinstance(e, ast.List):
            return self.elts(e.elts, env)
        if isinstance(e, ast.Dict):
            return {self.ev(k, env): self.ev(v, env) for k, v in zip(e.keys, e.values)}
        if isinstance(e, ast.BinOp):
            return self.binop(e.op, self.ev(e.left, env), self.ev(e.right, env), e)
        if isinstance(e, ast.UnaryOp):
            v = self.ev(e.operand, env)
            if isinstance(e.op, ast.Not):
                return not self.truth(v, e.operand)
            if isinstance(e.op, ast.USub) and isinstance(v, int):
                return -v
            if isinstance(e.op, ast.Invert) and isinstance(v, int):
                return ~v
            f = self.prims.get("__unop__")
            if f is not None:
                return f(type(e.op).__name__, v)
            raise AnalysisError(f"absint: unary operator on abstract value in `{src(e)[:60]}`")
        if isinstance(e, ast.BoolOp):
            res = None
            for v in e.values:
                res = self.ev(v, env)
                t = self.truth(res, v)
                if isinstance(e.op, ast.And) and not t:
                    return res
                if isinstance(e.op, ast.Or) and t:
                    return res
            return res
        if isinstance(e, ast.Compare):
            left = self.ev(e.left, env)
            for op, c in zip(e.ops, e.comparators):
                right = self.ev(c, env)
                if not self.compare(op, left, right, e):
                    return False
                left = right
            return True
        if isinstance(e, ast.Yield):
            if getattr(self, "_yields", None) is None:
                raise AnalysisError("absint: yield outside call_generator")
            self._yields.append(self.ev(e.value, env) if e.value is not None else None)
            return None
        if isinstance(e, ast.IfExp):
            tv = self.ev(e.test, env)
            if isinstance(tv, (BV, Opaque)) and "__ifexp__" in self.prims:
                # symbolic condition: both arms are evaluated and merged by the client's if-then-else model
                return self.prims["__ifexp__"](tv, self.ev(e.body, env), self.ev(e.orelse, env))
            return self.ev(e.body if self.truth(tv, e.test) else e.orelse, env)
        if isinstance(e, ast.Lambda):
            return Closure(e, env, self)
        if isinstance(e, (ast.ListComp, ast.GeneratorExp)):
            out = []
            self.comp(e.generators, 0, env, lambda en: out.append(self.ev(e.elt, en)))
            return out
        if isinstance(e, ast.DictComp):
            out = {}
            self.comp(e.generators, 0, env, lambda en: out.__setitem__(self.ev(e.key, en), self.ev(e.value, en)))
            return out
        if isinstance(e, ast.Subscript):
            return self.subscript(self.ev(e.value, env), e.slice, env, e)
        if isinstance(e, ast.Attribute):
            return self.attribute(self.ev(e.value, env), e.attr, e)
        if isinstance(e, ast.Call):
            return self.call(e, env)
        if isinstance(e, ast.Starred):
            raise AnalysisError("absint: starred expression outside call/list")
        if isinstance(e, ast.JoinedStr):
            # mostly error messages; evaluated when every piece can be (models print as their repr), otherwise opaque
            parts = []
            try:
                for v in e.values:
                    if isinstance(v, ast.Constant):
                        parts.append(str(v.value))
                    elif isinstance(v, ast.FormattedValue) and v.format_spec is None and v.conversion == -1:
                        x = self.ev(v.value, env)
                        if not isinstance(x, (str, int, bool)):
                            return "<fstring>"
                        parts.append(str(x))
                    else:
                        return "<fstring>"
            except (AnalysisError, Reject):
                return "<fstring>"
            return "".join(parts)
        raise AnalysisError(f"absint: unsupported expression {type(e).__name__}: {src(e)[:60]}")

    def elts(self, elts, env):
        out = []
        for x in elts:
            if isinstance(x, ast.Starred):
                out.extend(self.iterate(self.ev(x.value, env), x.value))
            else:
                out.append(self.ev(x, env))
        return out

    def comp(self, gens, i, env, emit):
        if i == len(gens):
            emit(env)
            return
        g = gens[i]
        for item in self.iterate(self.ev(g.iter, env), g.iter):
            en = Env(env)
            self.assign(g.target, item, en)
            if all(self.truth(self.ev(c, en), c) for c in g.ifs):
                self.comp(gens, i + 1, en, emit)

    def compare(self, op, l, r, node):
        if isinstance(op, ast.Is):
            return l is r or (isinstance(l, TypeTok) and l == r)
        if isinstance(op, ast.IsNot):
            return not (l is r or (isinstance(l, TypeTok) and l == r))
        if isinstance(op, (ast.Eq, ast.NotEq)):
            res = l == r
            return res if isinstance(op, ast.Eq) else not res
        if isinstance(op, (ast.In, ast.NotIn)):
            res = l in r
            return res if isinstance(op, ast.In) else not res
        if isinstance(l, (Opaque, BV)) or isinstance(r, (Opaque, BV)) or type(l).__module__.startswith("sa.") or type(r).__module__.startswith("sa."):
            f = self.prims.get("__compare__")
            if f is not None:
                return f(type(op).__name__, l, r)
            raise AnalysisError(f"absint: ordering comparison on abstract values in `{src(node)[:60]}`")
        import operator as o
        return {ast.Lt: o.lt, ast.LtE: o.le, ast.Gt: o.gt, ast.GtE: o.ge}[type(op)](l, r)

    def subscript(self, base, sl, env, node):
        if isinstance(sl, ast.Slice):
            lo = self.ev(sl.lower, env) if sl.lower is not None else None
            hi = self.ev(sl.upper, env) if sl.upper is not None else None
            st = self.ev(sl.step, env) if sl.step is not None else None
            if isinstance(base, BV):
                if st is not None or lo is None or hi is None:
                    raise AnalysisError(f"absint: unsupported vector slice `{src(node)}`")
                return base.slice(lo, hi)  # v[hi:lo] : python lower = hi, upper = lo
            if isinstance(base, (list, tuple, str, range)):
                return base[slice(lo, hi, st)]
            if type(base).__module__.startswith("sa.") and hasattr(type(base), "__getitem__"):
                return base[slice(lo, hi, st)]  # model object (e.g. SFixed[left:right])
            raise AnalysisError(f"absint: slice of {base!r}")
        idx = self.ev(sl, env)
        if isinstance(base, BV):
            if isinstance(idx, tuple):
                f = self.prims.get("__bv_getitem_tuple__")
                if f is not None:
                    return f(base, idx)
            if not isinstance(idx, int):
                raise AnalysisError(f"absint: symbolic vector index in `{src(node)}`")
            if not 0 <= idx < base.width:
                raise Reject(f"index {idx} outside vector of width {base.width}")
            return BV([base.bits[idx]], "Bit")
        if isinstance(base, (list, tuple, str, dict, range)):
            try:
                return base[idx]
            except (IndexError, KeyError):
                raise Reject(f"index {idx!r} not in {type(base).__name__}")
        f = self.prims.get("__getitem__")
        if f is not None:
            return f(base, idx)
        if not isinstance(base, (Opaque, Closure)) and hasattr(type(base), "__getitem__"):
            return base[idx]  # a model object supplied by the rule (e.g. BitVector[n], Value[T])
        raise AnalysisError(f"absint: subscript of {base!r} in `{src(node)[:60]}`")

    def attribute(self, base, attr, node):
        if isinstance(base, BV):
            if attr in ("width", "_width"):
                return base.width
            if attr in ("bitvector", "unsigned", "signed"):
                return BV(base.bits, {"bitvector": "BitVector", "unsigned": "Unsigned", "signed": "Signed"}[attr])
            if attr in ("lsb", "msb", "copy", "resize", "get"):
                return _BoundBV(base, attr)
        if isinstance(base, dict) and attr in base:
            return base[attr]
        if isinstance(base, TypeTok):
            if attr in base.params:
                return base.params[attr]
            if attr == "width" and "width" in base.params:
                return base.params["width"]
        if isinstance(base, (list, dict, str, tuple, set)) and attr in ("append", "extend", "items", "keys", "values", "get", "bit_length", "pop", "insert", "index", "copy", "format",
                                                                        "remove", "clear", "count", "sort", "reverse", "add", "discard", "update", "setdefault", "join", "startswith", "endswith"):
            if not hasattr(base, attr):
                raise AnalysisError(f"absint: {type(base).__name__} has no attribute {attr}")
            return getattr(base, attr)
        if isinstance(base, int) and attr in ("bit_length", "bit_count"):
            return getattr(base, attr)
        if isinstance(base, slice) and attr in ("start", "stop", "step"):
            return getattr(base, attr)
        f = self.prims.get("__getattr__")
        if f is not None:
            return f(base, attr)
        if type(base).__module__.startswith("sa.") and (not attr.startswith("__") or attr in ("__setitem__", "__getitem__", "__delitem__", "__contains__", "__call__", "__len__", "__init__", "__dict__")) and hasattr(base, attr):
            return getattr(base, attr)  # attribute of a model object supplied by the rule
        if isinstance(base, type) and attr in ("__getattribute__", "__getattr__", "__name__", "__mro__") and hasattr(base, attr):
            return getattr(base, attr)  # introspection of a class object (any class: builtin types of sample values too)
        if isinstance(base, type) and base.__module__.startswith("sa.") and not attr.startswith("__") and hasattr(base, attr):
            return getattr(base, attr)  # class attribute of a model class supplied by the rule
        raise AnalysisError(f"absint: attribute `{attr}` of {base!r} in `{src(node)[:60]}`")

    def call(self, e, env):
        fn = self.ev(e.func, env)
        args = []
        for a in e.args:
            if isinstance(a, ast.Starred):
                args.extend(self.iterate(self.ev(a.value, env), a.value))
            else:
                args.append(self.ev(a, env))
        kwargs = {}
        for k in e.keywords:
            if k.arg is None:
                kwargs.update(self.ev(k.value, env))
            else:
                kwargs[k.arg] = self.ev(k.value, env)
        if fn is None and dotted(e.func) == "isinstance":
            f = self.prims.get("isinstance")
            if f is None:
                raise AnalysisError("absint: isinstance without a model")
            return f(*args)
        if callable(fn):
            try:
                return fn(*args, **kwargs)
            except (Reject, AnalysisError, _Return):
                raise
            except (TypeError, ValueError, IndexError, KeyError) as ex:
                raise AnalysisError(f"absint: call `{src(e)[:60]}` failed: {ex}")
        raise AnalysisError(f"absint: call of non-callable in `{src(e)[:60]}`")


class _BoundBV:
    def __init__(self, bv, name):
        self.bv = bv
        self.name = name

    def __call__(self, *args, **kwargs):
        bv = self.bv
        w = bv.width
        if self.name in ("copy", "get"):
            return BV(bv.bits, bv.kind)
        if self.name in ("lsb", "msb"):
            count = args[0] if args else kwargs.get("count", kwargs.get("width"))
            rest = args[1] if len(args) > 1 else kwargs.get("rest")
            if count is None and rest is None:
                return BV([bv.bits[0 if self.name == "lsb" else -1]], "Bit")
            if count is None:
                count = w - rest
            if not isinstance(count, int) or not 0 < count <= w:
                raise Reject(f"{self.name}({count}) on vector of width {w}")
            if rest is not None and count + rest != w:
                raise Reject("count + rest != width")
            return BV(bv.bits[:count] if self.name == "lsb" else bv.bits[w - count:])
        if self.name == "resize":
            tw = args[0] if args else kwargs.get("target_width")
            zeros = kwargs.get("zeros", 0)
            if tw is None:
                tw = w + zeros
            if w + zeros > tw:
                raise Reject("resize narrower than value")
            fill = Bit("0") if bv.kind != "Signed" else bv.bits[-1]
            return BV((Bit("0"),) * zeros + bv.bits + (fill,) * (tw - w - zeros), bv.kind)
        raise AnalysisError(f"absint: BV method {self.name}")
