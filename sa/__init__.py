"""Static-analysis machinery for the CoHDL properties (see /verif/DESIGN.md).

Nothing in this package imports or executes `cohdl`; every verdict is computed
from the syntax trees of the repository working tree.
"""
