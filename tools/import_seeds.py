"""Dev tool: copy verified sub-agent mutations from /tmp/seed/<P>/out/m* into /verif/seeded, given a verify log."""
import json, os, shutil, re, sys, subprocess
head = subprocess.run(["git","-C","/repo","rev-parse","--short","HEAD"],capture_output=True,text=True).stdout.strip()
SRC = os.environ.get("SEED_SRC", "/tmp/seed/{pid}/out/{k}")   # round 2: SEED_SRC=/tmp/seed2out/{pid}/{k} SEED_TAG=r2
TAG = os.environ.get("SEED_TAG", "")
for log in sys.argv[1:]:
    for l in open(log):
        m = re.match(r"(C\d+)/(m\d) clean_exit=(\d+) mutated_exit=(\d+) tests: (.*)", l.strip())
        if not m: continue
        pid, k, ce, me, tests = m.groups()
        if ce != '0' or me == '0' or not tests.startswith('66 passed'):
            print("skip", pid, k, l.strip()); continue
        src = SRC.format(pid=pid, k=k); dst = f"/verif/seeded/{pid}-{TAG}{k}"
        os.makedirs(dst, exist_ok=True)
        shutil.copy(src + "/patch.diff", dst); shutil.copy(src + "/demo.py", dst)
        meta = json.load(open(src + "/meta.json"))
        out = {"property": pid, "id": f"{pid}-{TAG}{k}", "summary": meta.get("summary"), "why_breaks": meta.get("why_breaks"),
               "needs_to_manifest": meta.get("needs_to_manifest"), "files": meta.get("files"),
               "author": "independent sub-agent given only the property text and a scratch worktree",
               "confirmed_by_me": {"base_commit": head, "ran": ["git apply patch.diff in a scratch worktree of /repo HEAD",
                   f"baseline pytest with patch: {tests}", f"demo.py on clean tree: exit {ce}", f"demo.py with patch: exit {me}"]}}
        json.dump(out, open(dst + "/meta.json", "w"), indent=1)
print(len([d for d in os.listdir('/verif/seeded') if os.path.isdir('/verif/seeded/'+d)]))
