"""Dev tool (NOT a registered check): compile every entity of tests/reference_builds to VHDL
with cocotb/cohdl_testutil stubbed, and dump text per entity, to diff before/after a fix.
usage: cd <checkout> && PYTHONPATH=<checkout> /venv/bin/python /verif/tools/refbuild.py OUTDIR
"""
import sys, os, types, importlib, traceback, glob, hashlib

class _Any:
    def __init__(self, *a, **k): pass
    def __call__(self, *a, **k):
        if len(a) == 1 and callable(a[0]) and not k:
            return a[0]
        return _Any()
    def __getattr__(self, n): return _Any()
    def __iter__(self): return iter(())
    def __mro_entries__(self, bases): return (object,)

def stub(name):
    m = types.ModuleType(name)
    def _ga(n):
        if n.startswith('__'):
            raise AttributeError(n)
        return _Any()
    m.__getattr__ = _ga
    m.__path__ = []
    sys.modules[name] = m
    return m

for n in ["cocotb", "cocotb.clock", "cocotb.triggers", "cocotb.types", "cocotb.handle", "cocotb_test", "cocotb_test.simulator",
          "cohdl_testutil", "cohdl_testutil.cocotb_util", "cohdl_testutil.cocotb_mock", "cocotbext", "cocotbext.axi", "cocotbext.spi", "cocotbext.uart"]:
    stub(n)

def main(outdir):
    os.makedirs(outdir, exist_ok=True)
    root = os.getcwd()
    sys.path.insert(0, root)
    import cohdl
    from cohdl import std
    print("cohdl from", cohdl.__file__)
    files = sorted(glob.glob("tests/reference_builds/**/test_*.py", recursive=True))
    ok = fail = 0
    for f in files:
        modname = f[:-3].replace("/", ".")
        try:
            mod = importlib.import_module(modname)
        except BaseException as e:
            open(os.path.join(outdir, modname + ".IMPORT-ERROR"), "w").write(repr(e)[:300])
            fail += 1
            continue
        ents = [v for k, v in vars(mod).items() if isinstance(v, type) and issubclass(v, cohdl.Entity) and v.__module__ == modname]
        base = os.path.basename(f)[:-3]
        top = [e for e in ents if e.__name__ == base] or ents[-1:]
        for e in top:
            try:
                text = std.VhdlCompiler.to_string(e)
                ok += 1
            except BaseException as ex:
                text = "COMPILE-ERROR " + type(ex).__name__ + " " + str(ex)[:300]
                fail += 1
            open(os.path.join(outdir, f"{modname}.{e.__name__}.vhd"), "w").write(text)
    print("compiled", ok, "failed", fail)

if __name__ == "__main__":
    main(sys.argv[1])
