"""Dev tool: run single rule functions of a property module and print their findings (no evidence written).
usage: tools/run_rule.py C09 rule_ctor_domain [rule_x ...] [--repo PATH] [--tier thorough]"""
import importlib, os, sys
VERIF = os.path.dirname(os.path.dirname(os.path.abspath(__file__)))
sys.path.insert(0, VERIF)
from sa.index import Index  # noqa
from sa.report import Run  # noqa

args = sys.argv[1:]
repo = "/repo"
tier = "quick"
if "--repo" in args:
    i = args.index("--repo"); repo = args[i + 1]; del args[i:i + 2]
if "--tier" in args:
    i = args.index("--tier"); tier = args[i + 1]; del args[i:i + 2]
prop, names = args[0], args[1:]
mod = importlib.import_module(f"sa.props.{prop.lower()}")
run = Run(prop, Index(repo), tier)
for n in names:
    getattr(mod, n)(run)
    if run._cur is not None:
        run.end()
print(f"{len(run.findings)} findings")
for f in run.findings[:20]:
    print(" ", f.text()[:300])
