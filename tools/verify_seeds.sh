#!/bin/bash
# Dev tool: confirm sub-agent mutations. usage: verify_seeds.sh <srcdir with m*/> <PROP> 
# For each m<k>: apply to a scratch worktree of /repo HEAD, run baseline tests (expect 66 pass), demo must FAIL; revert; demo must PASS.
SRC=$1; PROP=$2
WT=/tmp/seedverify_$PROP
git -C /repo worktree remove --force $WT 2>/dev/null
git -C /repo worktree add -q --detach $WT HEAD || exit 2
for d in $SRC/m*/; do
  k=$(basename $d)
  cd $WT
  if ! git apply --check $d/patch.diff 2>/dev/null; then echo "$PROP/$k APPLY-FAIL"; continue; fi
  PYTHONPATH=$WT /venv/bin/python $d/demo.py >/tmp/seedverify_$PROP.clean.log 2>&1; clean=$?
  git apply $d/patch.diff
  n=$(PYTHONPATH=$WT /venv/bin/python -m pytest -q -p no:cacheprovider --timeout=900 --continue-on-collection-errors 2>&1 | tail -1)
  PYTHONPATH=$WT /venv/bin/python $d/demo.py >/tmp/seedverify_$PROP.mut.log 2>&1; mut=$?
  git checkout -q -- . ; git clean -qfd -e out
  echo "$PROP/$k clean_exit=$clean mutated_exit=$mut tests: $n"
done
cd /; git -C /repo worktree remove --force $WT
