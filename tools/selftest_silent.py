"""Dev tool (not a registered check): behaviour-preserving variants of /repo, analysed in memory.

A check must never raise a VIOLATION (exit 1) on a variant that leaves behaviour unchanged.  ANALYSIS-ERROR
(cannot decide) is tolerated but counted.  Variants:
  reformat   every module re-emitted with ast.unparse (comments gone, all line numbers moved, quoting changed)
  shift      40 blank comment lines prepended to every module
  noise      an unused assignment `_verif_noise = None` inserted at the top of every function body
  rename:<f> in ONE function, one frequently used local variable renamed consistently (incl. nested functions)
usage: tools/selftest_silent.py [PROP ...] [--max-rename N]
"""
import ast, glob, io, os, sys, contextlib, collections, random

os.environ["VERIF_PARSE_CACHE"] = "1"
VERIF = os.path.dirname(os.path.dirname(os.path.abspath(__file__)))
sys.path.insert(0, VERIF)
from sa.main import run_property  # noqa
from sa.astutil import AnalysisError  # noqa
from sa.index import Index  # noqa

REPO = "/repo"


def sources():
    out = {}
    for p in glob.glob(REPO + "/cohdl/**/*.py", recursive=True):
        out[os.path.relpath(p, REPO)] = open(p).read()
    return out


def v_reformat(srcs):
    return {k: ast.unparse(ast.parse(v)) + "\n" for k, v in srcs.items()}


def v_shift(srcs):
    return {k: "# shifted\n" * 40 + v for k, v in srcs.items()}


class _Noise(ast.NodeTransformer):
    def _f(self, node):
        self.generic_visit(node)
        body = node.body
        i = 1 if body and isinstance(body[0], ast.Expr) and isinstance(body[0].value, ast.Constant) and isinstance(body[0].value.value, str) else 0
        node.body = body[:i] + [ast.parse("_verif_noise = None").body[0]] + body[i:]
        return node
    visit_FunctionDef = _f
    visit_AsyncFunctionDef = _f


def v_noise(srcs):
    out = {}
    for k, v in srcs.items():
        t = _Noise().visit(ast.parse(v))
        ast.fix_missing_locations(t)
        out[k] = ast.unparse(t) + "\n"
    return out


def rename_candidates(tree):
    """(function node, local name) pairs safe to rename: assigned in the function, not a parameter, not declared
    global/nonlocal anywhere inside, not an attribute name collision risk (only Name nodes are renamed)."""
    out = []
    for fn in ast.walk(tree):
        if not isinstance(fn, (ast.FunctionDef, ast.AsyncFunctionDef)):
            continue
        params = {a.arg for a in fn.args.posonlyargs + fn.args.args + fn.args.kwonlyargs}
        if fn.args.vararg:
            params.add(fn.args.vararg.arg)
        if fn.args.kwarg:
            params.add(fn.args.kwarg.arg)
        declared = set()
        stores = collections.Counter()
        uses = collections.Counter()
        nested_params = set()
        for n in ast.walk(fn):
            if isinstance(n, (ast.Global, ast.Nonlocal)):
                declared.update(n.names)
            elif isinstance(n, ast.Name):
                uses[n.id] += 1
                if isinstance(n.ctx, ast.Store):
                    stores[n.id] += 1
            elif isinstance(n, (ast.FunctionDef, ast.AsyncFunctionDef, ast.Lambda)) and n is not fn:
                a = n.args
                nested_params.update(x.arg for x in a.posonlyargs + a.args + a.kwonlyargs)
                if isinstance(n, (ast.FunctionDef, ast.AsyncFunctionDef)):
                    nested_params.add(n.name)
            elif isinstance(n, ast.keyword) and n.arg:
                nested_params.add(n.arg)  # keyword argument names must not clash with the renamed identifier
        # only names stored at the function's own level
        own = set()
        stack = list(fn.body)
        while stack:
            s = stack.pop()
            if isinstance(s, (ast.FunctionDef, ast.AsyncFunctionDef, ast.ClassDef, ast.Lambda)):
                continue
            for c in ast.iter_child_nodes(s):
                stack.append(c)
            if isinstance(s, ast.Name) and isinstance(s.ctx, ast.Store):
                own.add(s.id)
        cands = [n for n in own if n not in params and n not in declared and n not in nested_params and uses[n] >= 3 and not n.startswith("__")]
        if cands:
            best = max(cands, key=lambda n: uses[n])
            out.append((fn, best))
    return out


class _Ren(ast.NodeTransformer):
    def __init__(self, old, new):
        self.old, self.new = old, new

    def visit_Name(self, n):
        if n.id == self.old:
            return ast.copy_location(ast.Name(id=self.new, ctx=n.ctx), n)
        return n


def rename_specs(srcs, rels, limit, rng):
    out = []
    for rel in rels:
        tree = ast.parse(srcs[rel])
        cands = rename_candidates(tree)
        rng.shuffle(cands)
        for fn, name in cands[:limit]:
            out.append(("rename", rel, fn.lineno, fn.name, name))
    return out


def repo_keywords(srcs):
    """every identifier used as a keyword-argument name, attribute or string anywhere in the repo or its tests: a
    parameter with such a name may be passed by keyword or looked up reflectively, so renaming it is not known to
    preserve behaviour"""
    kws = set()
    texts = list(srcs.values())
    for p in glob.glob(REPO + "/tests/**/*.py", recursive=True) + glob.glob(REPO + "/examples/**/*.py", recursive=True):
        try:
            texts.append(open(p).read())
        except OSError:
            pass
    for v in texts:
        try:
            t = ast.parse(v)
        except SyntaxError:
            continue
        for n in ast.walk(t):
            if isinstance(n, ast.keyword) and n.arg:
                kws.add(n.arg)
            elif isinstance(n, ast.Constant) and isinstance(n.value, str) and n.value.isidentifier():
                kws.add(n.value)
    return kws


def param_candidates(tree, kws):
    """(function, parameter) pairs whose rename keeps behaviour: never passed by keyword anywhere, not rebound by a
    nested scope, not declared global/nonlocal, method overrides excluded by the keyword test (same name in every sibling
    would be needed only for keyword calls)"""
    out = []
    for fn in ast.walk(tree):
        if not isinstance(fn, (ast.FunctionDef, ast.AsyncFunctionDef)):
            continue
        a = fn.args
        params = [x.arg for x in a.posonlyargs + a.args]
        nested = set()
        declared = set()
        uses = collections.Counter()
        for n in ast.walk(fn):
            if isinstance(n, (ast.Global, ast.Nonlocal)):
                declared.update(n.names)
            elif isinstance(n, ast.Name):
                uses[n.id] += 1
            elif isinstance(n, (ast.FunctionDef, ast.AsyncFunctionDef, ast.Lambda)) and n is not fn:
                b = n.args
                nested.update(x.arg for x in b.posonlyargs + b.args + b.kwonlyargs)
                if b.vararg:
                    nested.add(b.vararg.arg)
                if b.kwarg:
                    nested.add(b.kwarg.arg)
                if not isinstance(n, ast.Lambda):
                    nested.add(n.name)
                for m in ast.walk(n):
                    if isinstance(m, ast.Name) and isinstance(m.ctx, ast.Store):
                        nested.add(m.id)
            elif isinstance(n, ast.ClassDef):
                nested.update(m.id for m in ast.walk(n) if isinstance(m, ast.Name))
        cands = [p for p in params if p not in ("self", "cls") and p not in kws and p not in nested and p not in declared
                 and uses[p] >= 2 and not p.startswith("__") and (p + "_renamed") not in uses]
        if cands:
            out.append((fn, max(cands, key=lambda n: uses[n])))
    return out


class _RenParam(_Ren):
    def visit_arg(self, n):
        if n.arg == self.old:
            n.arg = self.new
        return n


def renparam_specs(srcs, rels, limit, rng):
    kws = repo_keywords(srcs)
    out = []
    for rel in rels:
        cands = param_candidates(ast.parse(srcs[rel]), kws)
        rng.shuffle(cands)
        for fn, name in cands[:limit]:
            out.append(("renparam", rel, fn.lineno, fn.name, name))
    return out


def movemethod_specs(srcs, rels, limit, rng):
    """(class, method) pairs: an undecorated method whose name is defined once in the class and is not referenced by any
    class-level statement may be moved to the end of the class body without changing behaviour"""
    out = []
    for rel in rels:
        cands = []
        for c in ast.walk(ast.parse(srcs[rel])):
            if not isinstance(c, ast.ClassDef):
                continue
            names = collections.Counter(m.name for m in c.body if isinstance(m, (ast.FunctionDef, ast.AsyncFunctionDef)))
            level = set()
            for st in c.body:
                if isinstance(st, (ast.FunctionDef, ast.AsyncFunctionDef)):
                    for d in st.decorator_list:
                        level.update(n.id for n in ast.walk(d) if isinstance(n, ast.Name))
                    for d in st.args.defaults + [x for x in st.args.kw_defaults if x is not None]:
                        level.update(n.id for n in ast.walk(d) if isinstance(n, ast.Name))
                else:
                    level.update(n.id for n in ast.walk(st) if isinstance(n, ast.Name))
            for i, m in enumerate(c.body[:-1]):
                if isinstance(m, (ast.FunctionDef, ast.AsyncFunctionDef)) and not m.decorator_list and names[m.name] == 1 and m.name not in level:
                    cands.append(("movemethod", rel, c.lineno, c.name, m.name))
        rng.shuffle(cands)
        out += cands[:limit]
    return out


_SRCS = None


class _IfSwap(ast.NodeTransformer):
    """if c: A else: B  ->  if not (c): B else: A   (only plain if/else, elif chains are left alone)"""

    def visit_If(self, n):
        self.generic_visit(n)
        if n.orelse and not (len(n.orelse) == 1 and isinstance(n.orelse[0], ast.If)):
            t = n.test
            nt = t.operand if isinstance(t, ast.UnaryOp) and isinstance(t.op, ast.Not) else ast.UnaryOp(op=ast.Not(), operand=t)
            n.test, n.body, n.orelse = nt, n.orelse, n.body
        return n


def v_ifswap(srcs, rel):
    t = _IfSwap().visit(ast.parse(srcs[rel]))
    ast.fix_missing_locations(t)
    return {**srcs, rel: ast.unparse(t) + "\n"}


def build_variant(spec):
    global _SRCS
    if _SRCS is None:
        _SRCS = sources()
    srcs = _SRCS
    kind = spec[0]
    if kind == "reformat":
        return v_reformat(srcs)
    if kind == "shift":
        return v_shift(srcs)
    if kind == "noise":
        return v_noise(srcs)
    if kind == "ifswap":
        return v_ifswap(srcs, spec[1])
    _, rel, lineno, fname, name = spec
    t2 = ast.parse(srcs[rel])
    target = ([f for f in ast.walk(t2) if isinstance(f, (ast.FunctionDef, ast.AsyncFunctionDef)) and f.lineno == lineno and f.name == fname] or [None])[0]
    if kind == "movemethod":
        c = [c for c in ast.walk(t2) if isinstance(c, ast.ClassDef) and c.lineno == lineno and c.name == fname][0]
        m = [m for m in c.body if isinstance(m, (ast.FunctionDef, ast.AsyncFunctionDef)) and m.name == name][0]
        c.body.remove(m)
        c.body.append(m)
        return {**srcs, rel: ast.unparse(t2) + "\n"}
    if kind == "renparam":
        # only the function's own parameter list and its body; defaults/annotations are evaluated outside
        for x in target.args.posonlyargs + target.args.args:
            if x.arg == name:
                x.arg = name + "_renamed"
        for st in target.body:
            _Ren(name, name + "_renamed").visit(st)
        return {**srcs, rel: ast.unparse(t2) + "\n"}
    _Ren(name, name + "_renamed").visit(target)
    return {**srcs, rel: ast.unparse(t2) + "\n"}


def work(job):
    prop, spec = job
    code, msg, _ = run(prop, build_variant(spec))
    return prop, spec, code, msg


def run(prop, overrides):
    buf = io.StringIO()
    try:
        with contextlib.redirect_stdout(buf):
            mod, r = run_property(prop, "quick", REPO, overrides)
        from sa.report import load_known
        known = {k["key"] for k in load_known() if k.get("property") == prop and k.get("status") == "known"}
        new = [f for f in r.findings if f.key not in known]
        return (1 if new else 0), [f.text()[:200] for f in new[:3]], r.idx.consulted
    except AnalysisError as e:
        return 2, [str(e)[:200]], set()
    except Exception as e:  # internal error = broken check
        return 3, [repr(e)[:200]], set()


def main():
    import multiprocessing as mp
    args = [a for a in sys.argv[1:] if a.startswith("C")]
    max_rename = 3
    if "--max-rename" in sys.argv:
        max_rename = int(sys.argv[sys.argv.index("--max-rename") + 1])
    props = args or sorted(os.path.basename(p)[:-3].upper() for p in glob.glob(VERIF + "/sa/props/c*.py"))
    srcs = sources()
    rng = random.Random(int(os.environ.get("VERIF_SEED", "1")))
    jobs = []
    if "--from" in sys.argv:  # re-run the problem variants listed in a previous report
        props = []
        for l in open(sys.argv[sys.argv.index("--from") + 1]):
            w = l.split()
            if len(w) > 2 and w[2] in ("FALSE-ALARM", "cannot-decide", "CRASH"):
                sp = w[1].split(":")
                spec = (sp[0],) if len(sp) == 1 else (sp[0], sp[1]) if sp[0] == "ifswap" else (sp[0], sp[1], int(sp[2]), sp[3], sp[4])
                jobs.append((w[0], spec))
                if w[0] not in props:
                    props.append(w[0])
    for prop in ([] if jobs else props):
        code, msg, consulted = run(prop, None)
        if code != 0:
            print(f"{prop}: unchanged tree gives {code}: {msg}")
            continue
        specs = [("reformat",), ("shift",), ("noise",)] + rename_specs(srcs, sorted(consulted), max_rename, rng)
        if "--movemethod" in sys.argv:
            specs = movemethod_specs(srcs, sorted(consulted), max_rename, rng)
        if "--renparam" in sys.argv:
            specs = renparam_specs(srcs, sorted(consulted), max_rename, rng)
        if "--ifswap" in sys.argv:
            specs = [("ifswap", rel) for rel in sorted(consulted)]
        jobs += [(prop, s) for s in specs]
    tally = collections.Counter()
    per = collections.defaultdict(collections.Counter)
    problems = []
    with mp.Pool(int(os.environ.get("JOBS", "16"))) as pool:
        for prop, spec, code, msg in pool.imap_unordered(work, jobs, chunksize=4):
            tally[code] += 1
            per[prop][code] += 1
            if code != 0:
                problems.append((prop, ":".join(str(x) for x in spec), code, msg))
    for prop in props:
        res = per[prop]
        print(f"{prop}: {sum(res.values())} variants -> silent {res[0]}, VIOLATION {res[1]}, ANALYSIS-ERROR {res[2]}, crash {res[3]}")
    print("TOTAL", dict(tally))
    for p in sorted(problems):
        print(p[0], p[1], {1: "FALSE-ALARM", 2: "cannot-decide", 3: "CRASH"}[p[2]], p[3][0] if p[3] else "")


if __name__ == "__main__":
    main()
