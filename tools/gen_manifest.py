"""Regenerate /verif/MANIFEST.json from the per-property modules (sa/props/cXX.py).
Each module may define MANIFEST = {level_text, level_note, technique, category, design_ref}."""
import importlib, json, os, sys
ROOT = os.path.dirname(os.path.dirname(os.path.abspath(__file__)))
sys.path.insert(0, ROOT)
NA = {
 "C14": "order/occupancy of Fifo/Stack is a property of clock-by-clock schedules of push/pop requests over run-time index values; no clause of it is visible in code shape beyond sibling hygiene, which does not imply it (static analysis not applicable)",
 "C15": "exactly-once hand-over depends on the relative timing of two processes and a delay line: a reachability question over a product state space (model checking), not a code-shape question (static analysis not applicable)",
 "C16": "'exactly n clocks' is an arithmetic statement about counters over time (and about C01); a static rule could only restate the source (static analysis not applicable)",
 "C20": "AXI4-Lite correctness is a protocol property over valid/ready interleavings on five channels; the only structural clause (apply_mask) is covered under C18 (static analysis not applicable)",
}
props = [json.loads(l) for l in open(os.path.join(ROOT, "properties.jsonl"))]
checks, na = [], []
for p in props:
    pid = p["id"]
    path = os.path.join(ROOT, "sa", "props", pid.lower() + ".py")
    if pid in NA:
        na.append({"property_id": pid, "reason": NA[pid]}); continue
    if not os.path.exists(path):
        na.append({"property_id": pid, "reason": "not claimed yet: the static rules for this property are not built (see DESIGN.md section 2.3 build order)"}); continue
    mod = importlib.import_module(f"sa.props.{pid.lower()}")
    M = getattr(mod, "MANIFEST", {})
    checks.append({
        "property_id": pid,
        "quick_cmd": f"./check {pid} --tier quick",
        "thorough_cmd": f"./check {pid} --tier thorough",
        "evidence_file": f"/verif/evidence/{pid}.json",
        "replay_cmd_template": f"./check {pid} --replay {{path}}",
        "engine": "sa",
        "level_claimed": {"category": getattr(mod, "LEVEL", "other"), "text": M.get("level_text", mod.EXPLANATION), "design_ref": M.get("design_ref", f"DESIGN.md section 4, {pid}")},
        "level_note": M.get("level_note", "; ".join(getattr(mod, "ASSUMPTIONS", []))),
        "technique": M.get("technique", "static analysis: custom AST rules over the repository's syntax trees"),
    })
manifest = {
 "version": 1,
 "setup_cmd": "true",
 "hooks": {"guard": "COHDL_VERIF", "enable": "none needed: the checks never execute cohdl, they parse /repo's working tree", "baseline_off_cmd": "cd /repo && /venv/bin/python -m pytest -ra -q -p no:cacheprovider --timeout=900 --continue-on-collection-errors", "source_commits": [], "add_only": True},
 "engines": [{"name": "sa", "path": "/verif/sa", "serves_properties": [c["property_id"] for c in checks], "kind_free_text": "repository-specific static analyser (stdlib ast): source index, set/reset pairing, table extraction, sibling diff, region-set abstract interpreter"}],
 "checks": checks,
 "not_applicable": na,
 "notes": "Static analysis only; exit 0 ok / 1 VIOLATION / 2 ANALYSIS-ERROR. known_findings.json lists genuine defects (fixed or known). See DESIGN.md.",
}
json.dump(manifest, open(os.path.join(ROOT, "MANIFEST.json"), "w"), indent=1); print("checks", len(checks), "n/a", len(na))
