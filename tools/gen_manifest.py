"""Regenerate /verif/MANIFEST.json from the per-property modules (sa/props/cXX.py).
Each module may define MANIFEST = {level_text, level_note, technique, category, design_ref}."""
import importlib, json, os, sys
ROOT = os.path.dirname(os.path.dirname(os.path.abspath(__file__)))
sys.path.insert(0, ROOT)
NA = {
 "C14": "order/occupancy of Fifo/Stack is a property of clock-by-clock schedules of push/pop requests over run-time index values; no clause of it is visible in code shape beyond sibling hygiene, which does not imply it (static analysis not applicable)",
 "C15": "exactly-once hand-over depends on the relative timing of two processes and a delay line: a reachability question over a product state space (model checking), not a code-shape question (static analysis not applicable)",
 "C16": "'exactly n clocks' is an arithmetic statement about counters over time (and about C01); a static rule could only restate the source (static analysis not applicable)",
 "C20": "AXI4-Lite correctness is a protocol property over valid/ready interleavings on five channels; the only structural clause (apply_mask) is covered under C18 (static analysis not applicable)",
}
AI = "abstract interpretation of the functions' ASTs (sa/absint.py: symbolic bit vectors, opaque operators, finite literal domains; cohdl is never imported)"
TECH = {
 "C01": "static analysis: syntax-directed rules over the lowering code (transition placement, state registration, back/restart edges, fail-closed dispatch, save/restore pairing of loop bookkeeping, mirror comparison of the if/else merge arms, with/async-with exit on every path, straight-line condition of the case-when lowering); structural pattern matching with metavariables for locals",
 "C02": "static analysis: table extraction and role analysis across the operator pipeline (replacement rows, intrinsic->out->ir->vhdl hand-over, VHDL tokens, tracer dispatch tables, cohdl.op protocol), sibling diff Unsigned<->Signed, all-integer sign/exactness domain for truncating division, 81-case evaluation of format_cast typed against numeric_std, " + AI + " for run-time resize and view offsets",
 "C03": "static analysis: six-stage chain analysis of the assignment operators, reset/push set extraction, alias rules, value-flow analysis of the rewriting traversals (F-WRITEBACK), with-exit rule, mirror rule of the if/else merge",
 "C04": "static analysis: guard analysis of the reset wrappers, polarity evaluation on the two-point domain, truth-table evaluation of derived resets, admission condition and expansion of the reset set, default/noreset propagation rules",
 "C05": "static analysis: front-end guard matrix extraction, 81-case abstract evaluation of format_cast typed against numeric_std, trial-assignment direction rules, join rules incl. call sites, " + AI + " of the bool literal twins, shadowed-kind-test lint over the package",
 "C06": "static analysis: reserved-word/vocabulary tables against IEEE 1076-2008, tokenised template balance, name allocation rule, others/sensitivity rules, buffer/alias-scope rules, cast matrix, operand-visit, stateless-traversal and shadowed-kind-test lints, lexical-context lint for Python strings copied into comments and string literals, distinct-choice rules",
 "C07": "static analysis: IR access flags vs. assembler roles (F-ROLE), guard analysis of the usage check, view rules incl. " + AI + " of slice offsets, value-flow of rewriting traversals, name allocation and buffer rules",
 "C08": "static analysis: abstract interpretation of search_invalid_temporaries over a Venn-region universe of definition sets (sa/regionsets.py), guard analysis of the temporary checks, ordering rules of the passes, write-back / ref-spec / state-root rules",
 "C09": "static analysis: sibling diff Unsigned<->Signed, all-integer sign/exactness domain for truncating division with operand-role resolution, documented width table, literal-range formulas, cast matrix, " + AI + " of multi-index selection and run-time resize",
 "C10": "static analysis: tracer operator tables against the Python data model, dispatch/chain/boolean folding rules, fail-closed tails, argument-binding order, free-name resolution order, " + AI + " of starred unpacking and min/max, With/AsyncWith twin diff, definition-cache purge domain",
 "C11": "static analysis: inventory of module/class-level mutable state, set/reset pairing with wrapper lifting and compile-boundary restores (exception paths), reviewed kinds table re-verified structurally, unordered-iteration lint, snapshot-copy lint, dynamic-port snapshot lifetime, purge domain",
 "C12": "static analysis: interface/port-map/template/ordering rules of the entity pipeline, registration with the innermost block, " + AI + " of IdSet ordering, shared trial-assignment, buffer, discard and usage rules",
 "C13": "static analysis: get-or-create rule with key-completeness dataflow (every input the class depends on is in the key), own-cache rule, base-class lattice extraction (role-resolved canonical view), value-view aliasing rules, " + AI + " of slice/element/iteration offsets",
 "C17": AI + " of to_bits/from_bits for core types, Record, std.Array, BitField (round trip and documented layout for all bit values, bounded widths), adapters and template-order rules, Value-qualifier pass-through guard, view offsets",
 "C18": AI + " of the std helpers over symbolic bits (fold order, layouts, first extremum, result widths, mask, CRC division step, choose_first) with stated bounds; view offsets",
 "C19": AI + " of the fixed-point format algebra, constructors, rounding and saturation blocks (bounded formats), sibling diff SFixed<->UFixed, __eq__/__hash__ lint of the template argument, shared replacement-row, cast-matrix and choose_first rules",
}
props = [json.loads(l) for l in open(os.path.join(ROOT, "properties.jsonl"))]
checks, na = [], []
for p in props:
    pid = p["id"]
    path = os.path.join(ROOT, "sa", "props", pid.lower() + ".py")
    if pid in NA:
        na.append({"property_id": pid, "reason": NA[pid]}); continue
    if not os.path.exists(path):
        na.append({"property_id": pid, "reason": "not claimed yet: the static rules for this property are not built (see DESIGN.md section 2.3 build order)"}); continue
    mod = importlib.import_module(f"sa.props.{pid.lower()}")
    M = getattr(mod, "MANIFEST", {})
    checks.append({
        "property_id": pid,
        "quick_cmd": f"./check {pid} --tier quick",
        "thorough_cmd": f"./check {pid} --tier thorough",
        "evidence_file": f"/verif/evidence/{pid}.json",
        "replay_cmd_template": f"./check {pid} --replay {{path}}",
        "engine": "sa",
        "level_claimed": {"category": getattr(mod, "LEVEL", "other"), "text": M.get("level_text", mod.EXPLANATION), "design_ref": M.get("design_ref", f"DESIGN.md section 4, {pid}")},
        "level_note": M.get("level_note", "; ".join(getattr(mod, "ASSUMPTIONS", []))),
        "technique": M.get("technique", TECH.get(pid, "static analysis: custom AST rules over the repository's syntax trees")),
    })
manifest = {
 "version": 1,
 "setup_cmd": "true",
 "hooks": {"guard": "COHDL_VERIF", "enable": "none needed: the checks never execute cohdl, they parse /repo's working tree", "baseline_off_cmd": "cd /repo && /venv/bin/python -m pytest -ra -q -p no:cacheprovider --timeout=900 --continue-on-collection-errors", "source_commits": [], "add_only": True},
 "engines": [{"name": "sa", "path": "/verif/sa", "serves_properties": [c["property_id"] for c in checks], "kind_free_text": "repository-specific static analyser (stdlib ast only): source index with anchors, structural patterns with metavariables, set/reset pairing, table extraction, sibling diff, guard analysis, value-flow lints, two abstract interpreters (symbolic bit vectors; region sets)"}],
 "checks": checks,
 "not_applicable": na,
 "notes": "Static analysis only; exit 0 ok / 1 VIOLATION / 2 ANALYSIS-ERROR. known_findings.json lists genuine defects (fixed or known). See DESIGN.md.",
}
json.dump(manifest, open(os.path.join(ROOT, "MANIFEST.json"), "w"), indent=1); print("checks", len(checks), "n/a", len(na))
