"""Dev tool: (re)generate sa/param_ref.json - the parameter names, by position, that the rules use as role names.

Rules are written against the parameter names of the tree they were developed on ("obj", "trigger", ...).  A later
rename of a parameter is behaviour preserving; sa/index.py therefore alpha-renames a parameter back to its reference
name (same function, same position, same arity) before any rule sees the function.  This file is that reference.
usage: tools/gen_param_ref.py [REPO]
"""
import json, os, sys

VERIF = os.path.dirname(os.path.dirname(os.path.abspath(__file__)))
sys.path.insert(0, VERIF)
os.environ["VERIF_NO_PARAM_CANON"] = "1"
from sa.index import Index, param_signature  # noqa

repo = sys.argv[1] if len(sys.argv) > 1 else "/repo"
idx = Index(repo)
out = {}
for rel, m in sorted(idx.modules.items()):
    d = {q: param_signature(f.node) for q, f in m.functions.items()}
    d = {q: s for q, s in d.items() if any(n not in ("self", "cls") for _k, n in s)}
    if d:
        out[rel] = {q: [f"{k}:{n}" for k, n in s] for q, s in sorted(d.items())}
with open(os.path.join(VERIF, "sa", "param_ref.json"), "w") as fh:
    json.dump(out, fh, indent=0, sort_keys=True)
print(sum(len(v) for v in out.values()), "functions in", len(out), "modules")
