"""Dev tool: run the registered checks against every seeded mutation.
For each /verif/seeded/<id>/patch.diff: apply it to a scratch worktree of /repo HEAD (never to /repo),
run `./check <P> --repo <scratch>` for the seed's property (and optionally all built properties), revert.
usage: tools/run_seeds.py [--all-props] [seed-id ...]      writes /verif/seeded/RESULTS.json
"""
import json, os, subprocess, sys, glob
VERIF = os.path.dirname(os.path.dirname(os.path.abspath(__file__)))
WT = os.environ.get("SEEDRUN_WT", "/tmp/seedrun_wt")   # several instances may run in parallel on disjoint properties
def sh(*a, **k):
    return subprocess.run(a, capture_output=True, text=True, **k)
def main():
    args = [a for a in sys.argv[1:] if not a.startswith("--")]
    allprops = "--all-props" in sys.argv
    sh("git", "-C", "/repo", "worktree", "remove", "--force", WT)
    r = sh("git", "-C", "/repo", "worktree", "add", "--detach", WT, "HEAD")
    assert r.returncode == 0, r.stderr
    built = sorted(os.path.basename(p)[:-3].upper() for p in glob.glob(VERIF + "/sa/props/c*.py"))
    seeds = sorted(d for d in os.listdir(VERIF + "/seeded") if os.path.isdir(VERIF + "/seeded/" + d))
    if args:
        seeds = [s for s in seeds if s in args or s.split("-")[0] in args]
    results = {}
    try:
        for s in seeds:
            d = f"{VERIF}/seeded/{s}"
            prop = s.split("-")[0]
            r = sh("git", "-C", WT, "apply", d + "/patch.diff")
            if r.returncode != 0:
                results[s] = {"error": "apply failed"}; print(s, "APPLY-FAIL"); continue
            props = built if allprops else ([prop] if prop in built else [])
            det = {}
            for p in props:
                env = dict(os.environ, VERIF_EVIDENCE_DIR=WT + "_evidence")
                c = sh(VERIF + "/check", p, "--repo", WT, env=env)
                lines = [l.strip() for l in c.stdout.splitlines() if "rule=" in l or "ANALYSIS-ERROR" in l]
                det[p] = {"exit": c.returncode, "findings": lines[:6]}
            sh("git", "-C", WT, "checkout", "--", "."); sh("git", "-C", WT, "clean", "-fdq")
            own = det.get(prop, {}).get("exit")
            anyp = [p for p, v in det.items() if v["exit"] == 1]
            status = "DETECTED" if own == 1 else ("detected-by:" + ",".join(anyp) if anyp else ("not-built" if not props else ("ANALYSIS-ERROR" if own == 2 else "missed")))
            results[s] = {"status": status, "checks": det}
            print(f"{s:10s} {status}  " + (det.get(prop, {}).get("findings") or [""])[0][:150])
    finally:
        sh("git", "-C", "/repo", "worktree", "remove", "--force", WT)
    old = {}
    rp = os.environ.get("SEEDRUN_OUT", VERIF + "/seeded/RESULTS.json")
    if os.path.exists(rp) and args:
        old = json.load(open(rp))
    old.update(results)
    json.dump(old, open(rp, "w"), indent=1, sort_keys=True)
main()
