import cohdl
from cohdl import std, Port, Bit, Unsigned
class E(cohdl.Entity):
    a = Port.input(Unsigned[4]); en = Port.input(Bit); o = Port.output(Bit)
    def architecture(self):
        @std.concurrent
        def p():
            match self.a:
                case "0001" if self.en:
                    self.o <<= True
                case _:
                    self.o <<= False
try:
    t = std.VhdlCompiler.to_string(E)
    body = t.split("begin")[-1]
    import re
    bad = not re.search(r"\ben\b", body)      # the guard does not appear anywhere in the emitted logic
    print(body[:300])
except BaseException as e:
    print("rejected:", str(e)[:80]); bad = False
print("FAIL: guard silently ignored" if bad else "PASS"); raise SystemExit(bad)
