# F22 (C10, known finding): `case <pattern> as name` is treated as the wildcard
import cohdl
from cohdl import std, Port, Bit, Unsigned
def classify(x):
    match x:
        case "0001" as y:
            return 1
        case _:
            return 0
class E(cohdl.Entity):
    a = Port.input(Unsigned[4]); o = Port.output(Bit)
    def architecture(self):
        @std.concurrent
        def p():
            if classify(self.a) == 1:
                self.o <<= True
            else:
                self.o <<= False
try:
    t = std.VhdlCompiler.to_string(E)
    body = t.split("begin")[-1]
    print(body[:400])
    # correct lowering must compare a with "0001"; the wildcard treatment makes the first case unconditional
    bad = '"0001"' not in body
except BaseException as e:
    print("rejected:", str(e)[:80]); bad = False
print("FAIL: capture pattern treated as wildcard" if bad else "PASS"); raise SystemExit(bad)
