import cohdl
from cohdl import std, Port, Bit, BitVector, Signal
def mk_bad():
    class Bad(cohdl.Entity):
        clk = Port.input(Bit); a = Port.input(Bit); c = Port.output(Bit)
        def architecture(self):
            @std.sequential(std.Clock(self.clk))
            def proc():
                with std.prefix("stale"):
                    s = Signal[Bit](name=std.name("q"))
                    t = Signal[BitVector[2]]("10101")
    return Bad
def mk_good():
    class Good(cohdl.Entity):
        clk = Port.input(Bit); a = Port.input(Bit); c = Port.output(Bit)
        def architecture(self):
            @std.sequential(std.Clock(self.clk))
            def proc():
                with std.prefix("pfx"):
                    s = Signal[Bit](name=std.name("sig"))
                s <<= self.a
                self.c <<= s
    return Good
ref = std.VhdlCompiler.to_string(mk_good())
try:
    std.VhdlCompiler.to_string(mk_bad()); print("bad accepted?!")
except BaseException as e:
    print("bad rejected:", type(e).__name__, str(e)[:100])
from cohdl.std._prefix import _Prefix; print("scope after reject", _Prefix._prefix_scope)
a1 = std.VhdlCompiler.to_string(mk_good())
ok = a1 == ref
if not ok:
    import difflib; print("\n".join(list(difflib.unified_diff(ref.splitlines(), a1.splitlines(), lineterm=""))[:12]))
print("PASS" if ok else "FAIL"); raise SystemExit(not ok)
