"""C08 pre-existing: the result temporary of an inline-code *expression* (f"{vhdl[Bit]:...}")
is written by ir.InlineCode, which is neither an ir.Expression nor a VariableAssignment, so
detect_uninitialized_temporaries never puts it into local_temporaries/invalid_temporaries.
A value computed only in the if-branch and used after the if is ACCEPTED; the emitted process
reads the variable on the else path without writing it (latched value of an earlier activation).
The same shape with `t = self.a & self.b` is rejected ("temporary might not be initialized")."""
import re, sys
import cohdl
from cohdl import std, Port, Bit, vhdl


class E(cohdl.Entity):
    clk = Port.input(Bit)
    a = Port.input(Bit)
    b = Port.input(Bit)
    c = Port.output(Bit)

    def architecture(self):
        @std.sequential(std.Clock(self.clk))
        def proc():
            if self.a:
                t = f"{vhdl[Bit]:{self.a!r} and {self.b!r}}"
            self.c <<= t


try:
    text = std.VhdlCompiler.to_string(E)
except AssertionError as err:
    print("OK: rejected:", err)
    sys.exit(0)

proc = text[text.index("proc: process") :]
print(proc)
print("WRONG: design accepted; 'temp1' is assigned only inside 'if temp then' but read after 'end if'")
sys.exit(1)
