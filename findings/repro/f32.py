import cohdl
from cohdl import Bit, Port, Signal
from cohdl import std

class F32(cohdl.Entity):
    a = Port.input(Bit)
    b = Port.input(Bit)
    o = Port.output(Bit)

    def architecture(self):
        @std.sequential
        def proc():
            x = self.a == self.b
            z = bool(x)
            if z and self.b:
                self.o <<= True
            else:
                self.o <<= False

print(std.VhdlCompiler.to_string(F32))
