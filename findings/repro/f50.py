"""F50 (C06/C12): a 4-bit signal bound to an 8-bit port of a sub-entity was accepted (the compatibility check is a trial
assignment, which extends narrower vectors) and emitted as `x => a` - a port map with mismatching widths."""
import cohdl
from cohdl import Port, Unsigned, std


class Sub(cohdl.Entity):
    x = Port.input(Unsigned[8])
    y = Port.output(Unsigned[8])

    def architecture(self):
        @std.concurrent
        def logic():
            self.y <<= self.x


class F50(cohdl.Entity):
    a = Port.input(Unsigned[4])
    o = Port.output(Unsigned[8])

    def architecture(self):
        Sub(x=self.a, y=self.o)


try:
    vhdl = std.VhdlCompiler.to_string(F50)
    print("DEFECT" if "x => a" in vhdl else "ok")
except AssertionError as e:
    print("rejected:", str(e).splitlines()[-1])
    print("ok")
