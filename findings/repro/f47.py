"""F47 (C06): Python strings were copied between quotation marks as they are (assert message, str attribute/generic
values): a quotation mark or a line break in the string gave an invalid VHDL string literal."""
import cohdl
from cohdl import Bit, Port, std


class F47(cohdl.Entity):
    a = Port.input(Bit)
    o = Port.output(Bit)

    def architecture(self):
        @std.sequential
        def proc():
            assert self.a, 'input "a" must be high\nsecond line'
            self.o <<= self.a


vhdl = std.VhdlCompiler.to_string(F47)
line = [l for l in vhdl.splitlines() if "report" in l][0]
print(line)
print("DEFECT" if line.count('"') % 2 or not line.rstrip().endswith(";") or '"a"' in line.replace('""a""', "") else "ok")
