# F64 (C02/C09): cohdl.op.truncdiv / cohdl.op.rem with an int on the left and a cohdl.Integer on the right:
# _integer.pyi documents Integer._cohdl_rtruncdiv_ / _cohdl_rrem_, the class did not define them -> AttributeError.
import cohdl
from cohdl import Integer, Entity, Port, std
from cohdl import op
r = []
for name, fn, exp in (("truncdiv", op.truncdiv, -3), ("rem", op.rem, -1)):
    try:
        r.append(int(fn(-7, Integer(2))))
    except AttributeError as e:
        r.append(f"{name}: {e}")
print(r)
class E(Entity):
    a = Port.input(Integer)
    o = Port.output(Integer)
    o2 = Port.output(Integer)
    def architecture(self):
        @std.concurrent
        def l():
            self.o <<= op.truncdiv(7, self.a)
            self.o2 <<= op.rem(7, self.a)
try:
    s = std.VhdlCompiler.to_string(E)
    print([l.strip() for l in s.splitlines() if ' / ' in l or ' rem ' in l])
except Exception as e:
    print("compile failed:", type(e).__name__, str(e).splitlines()[-1][:200])
    r.append("compile")
assert r == [-3, -1], r
