import cohdl
from cohdl import Bit, BitVector, Port
from cohdl import std

class F43(cohdl.Entity):
    sel = Port.input(BitVector[2])
    a = Port.input(Bit)
    o = Port.output(Bit)

    def architecture(self):
        @std.sequential
        def proc():
            match self.sel:
                case "00":
                    self.o <<= self.a
                case "00":                   # duplicate pattern: never taken in Python
                    self.o <<= ~self.a
                case _:
                    self.o <<= False

print(std.VhdlCompiler.to_string(F43))
