import cohdl
from cohdl import Bit, Port, Unsigned
from cohdl import std

class F36(cohdl.Entity):
    a = Port.input(Bit)
    o = Port.output(Unsigned[8])

    def architecture(self):
        @std.concurrent
        def proc():
            xs = [4, 0, 2]
            ys = [8 // x for x in xs if x != 0]     # CPython: [2, 4]; evaluating 8 // 0 first raises ZeroDivisionError
            self.o <<= ys[0] + ys[1]

print(std.VhdlCompiler.to_string(F36))
