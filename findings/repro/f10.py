import cohdl, re
from cohdl import std, Port, Bit, BitVector, Signal
WORDS = "assume assume_guarantee context cover fairness force parameter property protected release restrict restrict_guarantee sequence strong vmode vprop vunit".split()
bad = []
for w in WORDS:
    class E(cohdl.Entity):
        a = Port.input(Bit); c = Port.output(Bit)
        def architecture(self):
            s = Signal[Bit](name=w)
            @std.concurrent
            def logic():
                s.next = self.a
                self.c <<= s
    t = std.VhdlCompiler.to_string(E)
    if re.search(rf"signal {w} :", t): bad.append(w)
print(bad); print("PASS" if not bad else "FAIL"); raise SystemExit(bool(bad))
