# F18 (C10, known finding): operator dispatch ignores the data model's subclass priority and same-type rule
import cohdl
from cohdl import std, Port, Bit
class A:
    def __add__(self, o): return "A.add"
    def __radd__(self, o): return "A.radd"
class B(A):
    def __radd__(self, o): return "B.radd"
class C:
    def __add__(self, o): return NotImplemented
    def __radd__(self, o): return "C.radd"
class E1(cohdl.Entity):
    a = Port.input(Bit); o = Port.output(Bit)
    def architecture(self):
        @std.concurrent
        def p():
            r = A() + B()
            if r == "B.radd":      # what CPython computes (reflected method of the subclass first)
                self.o <<= self.a
            else:
                self.o <<= ~self.a
class E2(cohdl.Entity):
    a = Port.input(Bit); o = Port.output(Bit)
    def architecture(self):
        @std.concurrent
        def p():
            r = C() + C()          # CPython: TypeError (no reflected attempt for operands of the same type)
            self.o <<= self.a
t1 = std.VhdlCompiler.to_string(E1)
sub_ok = "not" not in t1.split("begin")[-1]
try:
    std.VhdlCompiler.to_string(E2); same_ok = False
except BaseException:
    same_ok = True
print("subclass priority like CPython:", sub_ok, "| same-type NotImplemented rejected like CPython:", same_ok)
bad = not (sub_ok and same_ok)
print("FAIL: differs from CPython" if bad else "PASS"); raise SystemExit(bad)
