"""F46 (C06): line breaks in comment strings ended the VHDL comment: the rest was emitted as code.
Sites: cohdl.comment()/std.comment() (Comment.write) and the `comment` attribute of contexts (comment_list)."""
import cohdl
from cohdl import Bit, Port, std


class F46(cohdl.Entity):
    a = Port.input(Bit)
    o = Port.output(Bit)

    def architecture(self):
        @std.sequential(attributes={"comment": "first\nsecond <= oops;"})
        def proc():
            std.comment("line1\nline2 := oops;")
            self.o <<= self.a


vhdl = std.VhdlCompiler.to_string(F46)
bad = [l for l in vhdl.splitlines() if "oops" in l and not l.strip().startswith("--")]
print("\n".join(bad))
print("DEFECT" if bad else "ok")
