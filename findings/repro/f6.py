import cohdl
from cohdl import std, Port, Bit, BitVector, Unsigned
WIDTH = 4
def helper(a):
    return a.resize(WIDTH)
class E(cohdl.Entity):
    a = Port.input(Unsigned[2]); o = Port.output(Unsigned[8])
    def architecture(self):
        @std.concurrent
        def logic():
            self.o <<= helper(self.a)
t1 = std.VhdlCompiler.to_string(E)
WIDTH = 8
t2 = std.VhdlCompiler.to_string(E)
import re
print(re.findall(r"resize\([^;]*", t1), re.findall(r"resize\([^;]*", t2))
ok = t1 != t2 and ", 8)" in t2
print("PASS" if ok else "FAIL: second compile used stale WIDTH"); raise SystemExit(not ok)
