import cohdl, sys
from cohdl import Bit, Port, Signal
from cohdl import std

class F41(cohdl.Entity):
    a = Port.input(Bit)
    o = Port.output(Bit)

    def architecture(self):
        zeta_name = Signal[Bit]()
        alpha_alias = zeta_name          # the same Signal under two closure names
        mid_alias = zeta_name
        @std.concurrent
        def proc():
            alpha_alias.next = self.a
            self.o <<= zeta_name & mid_alias

out = std.VhdlCompiler.to_string(F41)
print([l.strip() for l in out.splitlines() if l.strip().startswith("signal") and "buffer" not in l])
