import cohdl
from cohdl import Bit, BitVector, Port, Unsigned
from cohdl import std

class F39(cohdl.Entity):
    clk = Port.input(Bit)
    v = Port.input(BitVector[3])
    o = Port.output(Unsigned[2])

    def architecture(self):
        def first_set(vec):
            for i, b in enumerate(vec):
                if b:
                    return i + 1
            return 0              # no bit set

        @std.sequential(std.Clock(self.clk))
        def proc():
            self.o <<= first_set(self.v)

print(std.VhdlCompiler.to_string(F39))
