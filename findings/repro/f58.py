"""
Two different entity classes with the same name (e.g. produced by a factory
function for two widths) are both emitted as `entity Leaf`: the second design
unit replaces the first one in the library, the 4 bit instance is bound to the
2 bit entity. Entity names are not made unique and the design is not rejected.
"""
import sys
import cohdl
from cohdl import std, Port, BitVector


def make_leaf(w):
    class Leaf(cohdl.Entity):
        a = Port.input(BitVector[w])
        y = Port.output(BitVector[w])

        def architecture(self):
            @std.concurrent
            def logic():
                self.y <<= self.a

    return Leaf


L4, L2 = make_leaf(4), make_leaf(2)


class Top(cohdl.Entity):
    a = Port.input(BitVector[4])
    y = Port.output(BitVector[4])
    y2 = Port.output(BitVector[2])

    def architecture(self):
        L4(a=self.a, y=self.y)
        L2(a=self.a[1:0], y=self.y2)


vhdl = std.VhdlCompiler.to_string(Top)
n = vhdl.count("entity Leaf is")
print(f"'entity Leaf is' emitted {n} times, instantiations:",
      [l.strip() for l in vhdl.splitlines() if "entity work." in l])
print("WRONG: duplicate design unit names" if n != 1 else "ok")
sys.exit(1 if n != 1 else 0)
