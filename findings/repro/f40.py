import cohdl
from cohdl import Bit, Port, Signed, Unsigned
from cohdl import std
a = Signed[4](3)
b = Signed[2](-2)
print("const:", a - b, (a - b).to_int(), "expected", 3 - (-2))
u = Unsigned[4](3); w = Unsigned[2](1)
print("unsigned const:", (u - w).to_int())
u2 = Unsigned[2](1); w2 = Unsigned[4](3)
print("unsigned narrow-wide:", (u2 - w2).to_int(), "expected", (1-3) % 16)
class F40(cohdl.Entity):
    x = Port.input(Signed[4]); y = Port.input(Signed[2]); o = Port.output(Signed[4])
    def architecture(self):
        @std.concurrent
        def proc():
            self.o <<= self.x - self.y
print([l for l in std.VhdlCompiler.to_string(F40).splitlines() if "<=" in l and "-" in l])
