import cohdl
from cohdl import Bit, Port, Signed, Unsigned, Signal
from cohdl import std
from cohdl.std import SFixed, UFixed, FixedRoundStyle, FixedOverflowStyle

class F38(cohdl.Entity):
    a = Port.input(Signed[4])
    b = Port.input(Unsigned[4])
    o = Port.output(Signed[3])
    p = Port.output(Unsigned[3])
    q = Port.output(Signed[3])

    def architecture(self):
        @std.concurrent
        def proc():
            x = SFixed[1:-2](raw=self.a)
            y = x.resize(1, -1, round_style=FixedRoundStyle.ROUND, overflow_style=FixedOverflowStyle.SATURATE)
            self.o <<= y._val
            u = UFixed[1:-2](raw=self.b)
            v = u.resize(1, -1, round_style=FixedRoundStyle.ROUND, overflow_style=FixedOverflowStyle.SATURATE)
            self.p <<= v._val
            z = SFixed[2:-1](raw=self.a).resize(1, 0, round_style=FixedRoundStyle.ROUND, overflow_style=FixedOverflowStyle.SATURATE)
            self.q <<= z._val

print(std.VhdlCompiler.to_string(F38))
