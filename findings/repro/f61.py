# `False and f()` / `True or f()` : CPython never calls f(). CoHDL evaluates all operands,
# so side effects of f (pyeval calls, signal assignments) happen / are emitted as hardware.
import contextlib, io
import cohdl
from cohdl import std, Entity, Port, Bit

calls = []


@cohdl.pyeval
def note(x):
    calls.append(x)
    return True


class E(Entity):
    a = Port.input(Bit)
    o1 = Port.output(Bit)
    o2 = Port.output(Bit)

    def architecture(self):
        def drive(port, val):
            port <<= val
            return True

        @std.concurrent
        def logic():
            r1 = False and drive(self.o1, self.a)
            r2 = True or drive(self.o2, self.a)
            r3 = False and note("and-operand evaluated")


with contextlib.redirect_stdout(io.StringIO()):
    vhdl = std.VhdlCompiler.to_string(E)

assigns = [l.strip() for l in vhdl.splitlines() if "buffer_o" in l and "<= a" in l]
print("pyeval calls:", calls)
print("assignments :", assigns)
print("WRONG: operands after the deciding constant were evaluated" if calls or assigns else "not reproduced")
