# A function that is called in the TEST of an `if` statement and returns a constant,
# but also performs signal assignments: the assignments are silently dropped from the
# generated VHDL (o1 and o3 are never driven). The same call used as a plain statement
# or in an if-EXPRESSION is emitted correctly (o2, o4).
import contextlib, io
import cohdl
from cohdl import std, Entity, Port, Bit


class E(Entity):
    a = Port.input(Bit)
    o1 = Port.output(Bit)
    o2 = Port.output(Bit)
    o3 = Port.output(Bit)
    o4 = Port.output(Bit)

    def architecture(self):
        def drive(port, val):
            port <<= val
            return True

        @std.concurrent
        def logic():
            if drive(self.o1, self.a):
                pass

            x = 1 if drive(self.o2, self.a) else 0

            if not drive(self.o3, self.a):
                pass
            else:
                pass

            drive(self.o4, self.a)


with contextlib.redirect_stdout(io.StringIO()):
    vhdl = std.VhdlCompiler.to_string(E)

assigns = [l.strip() for l in vhdl.splitlines() if "<=" in l]
print("\n".join(assigns))
missing = [p for p in ("o1", "o2", "o3", "o4") if f"buffer_{p} <= a;" not in assigns]
print("WRONG: ports never driven although drive() was executed for them:" if missing else "not reproduced", missing)
