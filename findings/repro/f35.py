import cohdl
from cohdl import Bit, Port
from cohdl import std

class F35(cohdl.Entity):
    a = Port.input(Bit)
    o = Port.output(Bit)
    o2 = Port.output(Bit)

    def architecture(self):
        @std.concurrent
        def proc():
            first, *rest = (1, 2, 3)
            self.o <<= (len(rest) == 2)
            self.o2 <<= isinstance(rest, list)    # CPython: True

print(std.VhdlCompiler.to_string(F35))
