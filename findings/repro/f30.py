import cohdl
from cohdl import Bit, Port, Signal
from cohdl import std

class F30(cohdl.Entity):
    a = Port.input(Bit)
    o = Port.output(bool)
    o2 = Port.output(bool)

    def architecture(self):
        s = Signal[bool]("0")      # constructor: str literal
        t = Signal[bool](False)
        @std.concurrent
        def proc():
            self.o <<= s
            self.o2 <<= "0"         # assignment of the same literal

print(std.VhdlCompiler.to_string(F30))
