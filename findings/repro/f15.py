# F15 (C06, known finding): select_with without default in a concurrent context has no `when others` choice
import cohdl
from cohdl import std, Port, Bit, BitVector
class E(cohdl.Entity):
    a = Port.input(BitVector[2]); b = Port.input(Bit); o = Port.output(Bit)
    def architecture(self):
        @std.concurrent
        def p():
            self.o <<= cohdl.select_with(self.a, {"00": self.b, "01": ~self.b})
t = std.VhdlCompiler.to_string(E)
i = t.find("with ")
stmt = t[i:t.find(";", i)+1]
print(stmt)
bad = "select" in stmt and "others" not in stmt
print("FAIL: selected assignment without others" if bad else "PASS"); raise SystemExit(bad)
