"""F49 (C07/C06): a Variable read inside `with cohdl.always:` of a sequential context was accepted; the always block is
emitted as concurrent statements outside the process, the variable is declared inside it -> `buffer_o2 <= v;` refers to a
process variable from outside its process (illegal VHDL).  Now rejected like variables in concurrent contexts."""
import cohdl
from cohdl import Bit, Port, Variable, std


class F49(cohdl.Entity):
    clk = Port.input(Bit)
    a = Port.input(Bit)
    o = Port.output(Bit)
    o2 = Port.output(Bit)

    def architecture(self):
        v = Variable[Bit](False)

        @std.sequential(std.Clock(self.clk))
        def proc():
            with cohdl.always:
                self.o2 <<= v
            self.o <<= self.a


try:
    vhdl = std.VhdlCompiler.to_string(F49)
    head = vhdl[:vhdl.index("proc: process")]
    print("DEFECT" if "<= v;" in head else "ok")
except AssertionError as e:
    print("rejected:", e)
    print("ok")
