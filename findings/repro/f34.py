import cohdl
from cohdl import Bit, BitVector, Unsigned, Port, Signal
from cohdl import std

class F34(cohdl.Entity):
    a = Port.input(Unsigned[4])
    o = Port.output(Unsigned[4])
    o2 = Port.output(Unsigned[4])

    def architecture(self):
        @std.concurrent
        def proc():
            def add(x, y=3):
                return x + y
            self.o <<= add(self.a)
            g = lambda x, k=2: x + k
            self.o2 <<= g(self.a)

print(std.VhdlCompiler.to_string(F34))
