"""F52 (C09/C02): op.truncdiv(Signed[4](-8), Signed[3](-1)) on constants raised an out-of-range assertion (the design
is rejected) while the emitted numeric_std division of the same values wraps to -8 (truncdiv wraps modulo the dividend
width)."""
from cohdl import Signed, op

try:
    r = op.truncdiv(Signed[4](-8), Signed[3](-1))
    print(r, "ok" if r.to_int() == -8 else "DEFECT")
except AssertionError as e:
    print("rejected:", e)
    print("DEFECT")
