from fractions import Fraction
from cohdl import std
from cohdl.std import SFixed, UFixed, FixedRoundStyle, FixedOverflowStyle

def val(x):
    return Fraction(x._val.to_int(), 1) * Fraction(2) ** x.right() if hasattr(x, "_val") else None

x = SFixed[0:-3](-0.25)
print("x =", float(x.to_float()) if hasattr(x, "to_float") else x)
y = x.resize(-1, -2, round_style=FixedRoundStyle.ROUND, overflow_style=FixedOverflowStyle.SATURATE)
print("resized =", y, float(y.to_float()) if hasattr(y, "to_float") else "")
z = SFixed[1:-2](1.75)
w = z.resize(1, -1, round_style=FixedRoundStyle.ROUND, overflow_style=FixedOverflowStyle.SATURATE)
print("1.75 -> [1:-1] ROUND SAT =", w)
