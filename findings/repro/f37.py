import cohdl
from cohdl import Bit, Port, Unsigned
from cohdl import std

class Opt:
    def __init__(self, v):
        self.value = v

class F37(cohdl.Entity):
    a = Port.input(Bit)
    o = Port.output(Unsigned[8])

    def architecture(self):
        def get(x):
            if x is None:
                return 0
            return x.value            # CPython never evaluates this for x = None

        @std.concurrent
        def proc():
            self.o <<= get(None) + get(Opt(5))

print(std.VhdlCompiler.to_string(F37))
