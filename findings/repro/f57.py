"""
The vhdl.Entity object is declared in the architecture scope AFTER the ports
and signals. If a port or signal of the entity has the same name as the entity
(VHDL is case insensitive: entity Counter / signal counter, entity IO / port io)
the entity is renamed inside the architecture header only:
    entity Counter is ... end Counter;
    architecture arch_Counter of Counter1 is        <- no such entity
"""
import re, sys
import cohdl
from cohdl import std, Port, Bit, Unsigned, Signal


class Counter(cohdl.Entity):
    clk = Port.input(Bit)
    y = Port.output(Unsigned[4])

    def architecture(self):
        counter = Signal[Unsigned[4]](0, name="counter")

        @std.sequential(std.Clock(self.clk))
        def proc():
            counter.next = counter + 1

        @std.concurrent
        def logic():
            self.y <<= counter


class IO(cohdl.Entity):
    a = Port.input(Bit)
    io = Port.output(Bit)

    def architecture(self):
        @std.concurrent
        def logic():
            self.io <<= self.a


bad = 0
for ent in (Counter, IO):
    vhdl = std.VhdlCompiler.to_string(ent)
    decl = re.search(r"entity (\w+) is", vhdl).group(1)
    arch_of = re.search(r"architecture \w+ of (\w+) is", vhdl).group(1)
    print(f"{ent.__name__}: declared 'entity {decl}', architecture is 'of {arch_of}'")
    bad += decl != arch_of
print("WRONG: architecture refers to a non existing entity" if bad else "ok")
sys.exit(1 if bad else 0)
