import cohdl
from cohdl import std, Port, Bit, BitVector, Signal
class Sub(cohdl.Entity):
    x = Port.input(Bit); y = Port.output(Bit)
    def architecture(self):
        @std.concurrent
        def logic():
            self.y <<= ~self.x
class Bad(cohdl.Entity):
    clk = Port.input(Bit); a = Port.input(Bit); c = Port.output(Bit)
    def architecture(self):
        @std.concurrent
        def proc():
            Sub(x=self.a, y=self.c)
print(std.VhdlCompiler.to_string(Bad)[-700:])
