import cohdl
from cohdl import Bit, Port
from cohdl import std

class F13(cohdl.Entity):
    inp = Port.input(Bit)
    out = Port.output(Bit)          # `out` is a VHDL reserved word

    def architecture(self):
        @std.concurrent
        def proc():
            self.out <<= self.inp

print(std.VhdlCompiler.to_string(F13))
