from cohdl import std, Signed, Unsigned
bad = []
try:
    x = std.SFixed[3:-2](Signed[3](1))
    if float(str(x).split("(")[-1].rstrip(")")) != 1.0: bad.append(("SFixed(Signed) value", str(x)))
except BaseException as e:
    bad.append(("SFixed[3:-2](Signed[3](1))", type(e).__name__, str(e)[:60]))
try:
    y = std.UFixed[3:-2](Unsigned[3](5))
    print("UFixed(Unsigned):", y)
except BaseException as e:
    bad.append(("UFixed(Unsigned)", str(e)[:60]))
for cls, raw in ((std.SFixed, Signed), (std.UFixed, Unsigned)):
    try:
        src = cls[2:-1](1.5)
        z = cls[3:-3](src)
        print(cls.__name__, "from coarser format:", src, "->", z)
        if "1.5" not in str(z): bad.append((cls.__name__ + " widening changes the value", str(z)))
    except BaseException as e:
        bad.append((cls.__name__ + "[3:-3](" + cls.__name__ + "[2:-1](1.5))", type(e).__name__, str(e)[:60]))
print(bad); print("PASS" if not bad else "FAIL"); raise SystemExit(bool(bad))
