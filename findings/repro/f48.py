"""F48 (C06): select_with({"01": a, BitVector[2]("01"): b}) - two distinct Python keys, one VHDL choice: the design
was accepted and emitted with `when "01"` twice (case statements need distinct choices).  Now rejected."""
import cohdl
from cohdl import Bit, BitVector, Port, std


class F48(cohdl.Entity):
    sel = Port.input(BitVector[2])
    a = Port.input(Bit)
    o = Port.output(Bit)

    def architecture(self):
        @std.sequential
        def proc():
            self.o <<= cohdl.select_with(self.sel, {"01": self.a, BitVector[2]("01"): ~self.a}, default=self.a)


try:
    vhdl = std.VhdlCompiler.to_string(F48)
    print("DEFECT" if vhdl.count('when "01"') > 1 else "ok")
except AssertionError as e:
    print("rejected:", e)
    print("ok")
