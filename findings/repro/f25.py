import cohdl
from cohdl import std, Port, Bit, BitVector, Signal
class Sub(cohdl.Entity):
    x = Port.input(Bit); y = Port.output(Bit)
    def architecture(self):
        @std.concurrent
        def logic():
            self.y <<= ~self.x
def mk_bad():
    class Bad(cohdl.Entity):
        clk = Port.input(Bit); a = Port.input(Bit); c = Port.output(Bit)
        def architecture(self):
            @std.concurrent
            def proc():
                Sub(x=self.a, y=self.c)          # inline entity declared inside a context
                t = Signal[BitVector[2]]("10101")  # then the context is rejected
    return Bad
def mk_good():
    class Good(cohdl.Entity):
        clk = Port.input(Bit); a = Port.input(Bit); c = Port.output(Bit)
        def architecture(self):
            @std.concurrent
            def proc():
                self.c <<= self.a
    return Good
ref = std.VhdlCompiler.to_string(mk_good())
try:
    std.VhdlCompiler.to_string(mk_bad()); print("bad accepted?!")
except BaseException as e:
    print("bad rejected:", type(e).__name__, str(e)[:100])
try:
    a1 = std.VhdlCompiler.to_string(mk_good())
except BaseException as e:
    print("FAIL good rejected after history:", type(e).__name__, str(e)[:200]); raise SystemExit(1)
ok = a1 == ref
if not ok:
    import difflib; print("\n".join(list(difflib.unified_diff(ref.splitlines(), a1.splitlines(), lineterm=""))[:30]))
print("PASS" if ok else "FAIL"); raise SystemExit(not ok)
