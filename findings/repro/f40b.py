from cohdl import Signed, Unsigned
bad = 0
for wa in (1,2,3,4):
    for wb in (1,2,3,4):
        w = max(wa, wb)
        for a in range(-(1<<(wa-1)), 1<<(wa-1)):
            for b in range(-(1<<(wb-1)), 1<<(wb-1)):
                got = (Signed[wa](a) - Signed[wb](b))
                exp = ((a - b + (1<<(w-1))) % (1<<w)) - (1<<(w-1))
                if got.width != w or got.to_int() != exp:
                    bad += 1
                    if bad < 5: print("S", wa, wb, a, b, got.to_int(), exp)
        for a in range(0, 1<<wa):
            for b in range(0, 1<<wb):
                got = (Unsigned[wa](a) - Unsigned[wb](b))
                exp = (a - b) % (1<<w)
                if got.width != w or got.to_int() != exp:
                    bad += 1
                    if bad < 10: print("U", wa, wb, a, b, got.to_int(), exp)
print("bad", bad)
