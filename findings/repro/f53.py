"""F53 (C06/C12): `Sub(x=self.a.unsigned)` with `a: BitVector[4]` and port `x: Unsigned[4]` was accepted; the port map
names the root object: `x => a` associates a std_logic_vector with an unsigned port (ill-typed port association)."""
import cohdl
from cohdl import Port, Unsigned, BitVector, std


class Sub(cohdl.Entity):
    x = Port.input(Unsigned[4])
    y = Port.output(Unsigned[4])

    def architecture(self):
        @std.concurrent
        def logic():
            self.y <<= self.x


class F53(cohdl.Entity):
    a = Port.input(BitVector[4])
    o = Port.output(BitVector[4])

    def architecture(self):
        Sub(x=self.a.unsigned, y=self.o.unsigned)


try:
    vhdl = std.VhdlCompiler.to_string(F53)
    print("DEFECT" if "x => a" in vhdl else "ok")
except AssertionError as e:
    print("rejected:", str(e).splitlines()[-1])
    print("ok")
