"""F45 (C01): a coroutine whose FIRST statement is a `match` with an await in a branch.

The generator first tries to lower the match to a VHDL case statement; the attempt lowers the branch bodies and is
given up when a branch contains a state transition.  During the attempt the first state was still empty, so the
`await self.a` of `case 1` claimed it (start-of-process special case) and left `if a = '1' then y <= 1` behind in
state_0 - executed on every visit of state_0 whatever `sel` is (statement executed early and twice).
Expected: state_0 contains only the dispatch on `sel`; the poll of `a` lives in its own state.
"""
import cohdl
from cohdl import Bit, Port, Unsigned, Null, std


class F45(cohdl.Entity):
    clk = Port.input(Bit)
    a = Port.input(Bit)
    b = Port.input(Bit)
    sel = Port.input(Unsigned[2])
    y = Port.output(Unsigned[4], default=Null)

    def architecture(self):
        @std.sequential(std.Clock(self.clk))
        async def proc():
            match self.sel:
                case 1:
                    await self.a
                    self.y <<= 1
                case 2:
                    self.y <<= 5
            self.y <<= 2
            await self.b
            self.y <<= 3


vhdl = std.VhdlCompiler.to_string(F45)
body = vhdl[vhdl.index("when state_0"):vhdl.index("when state_1")]
print(body)
print("DEFECT" if "a = '1'" in body else "ok")
