"""F51 (C06): `case St.A` twice in a match over an enum signal was emitted as a VHDL case statement with the choice `A`
twice (the duplicate test of F44 compares the entries of a map keyed by identity; one object in two patterns is a
single entry)."""
import cohdl
from cohdl import Bit, Port, Signal, std


class St(cohdl.enum.Enum):
    A = cohdl.enum.auto() if hasattr(cohdl.enum, "auto") else 1
    B = 2


class F51(cohdl.Entity):
    clk = Port.input(Bit)
    a = Port.input(Bit)
    o = Port.output(Bit)

    def architecture(self):
        s = Signal[St](St.A)

        @std.sequential(std.Clock(self.clk))
        def proc():
            match s:
                case St.A:
                    self.o <<= self.a
                    s.next = St.B
                case St.A:
                    self.o <<= ~self.a
                case _:
                    self.o <<= False
                    s.next = St.A


vhdl = std.VhdlCompiler.to_string(F51)
print("DEFECT" if vhdl.count("when A =>") > 1 else "ok")
