import cohdl
from cohdl import Bit, BitVector, Port, Signal
from cohdl import std

class F31(cohdl.Entity):
    a = Port.input(BitVector[16])
    o_idx = Port.output(Bit)
    o_it = Port.output(Bit)

    def architecture(self):
        @std.concurrent
        def proc():
            sub = self.a[12:5][6:3]        # bits 11..8 of a
            self.o_idx <<= sub[2]          # element 2 by index  -> a(10)
            elems = [b for b in sub]       # element 2 by iteration
            self.o_it <<= elems[2]

print(std.VhdlCompiler.to_string(F31))
