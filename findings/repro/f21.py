import cohdl
from cohdl import std, Port, Bit, BitVector, Signal
class E(cohdl.Entity):
    clk = Port.input(Bit); rst = Port.input(Bit); a = Port.input(Bit); c = Port.output(Bit); d = Port.output(Bit, default=False)
    def architecture(self):
        def on_reset():
            self.d <<= True
        @std.sequential(std.Clock(self.clk), std.Reset(self.rst), on_reset=on_reset)
        def proc():
            self.c <<= self.a
t = std.VhdlCompiler.to_string(E)
ok = "buffer_d <= '1'" in t
print(t[-500:] if not ok else "")
print("PASS" if ok else "FAIL on_reset action missing"); raise SystemExit(not ok)
