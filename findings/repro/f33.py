import cohdl
from cohdl import Bit, BitVector, Unsigned, Port, Signal
from cohdl import std

class F33(cohdl.Entity):
    clk = Port.input(Bit)
    vec = Port.input(BitVector[8])
    idx = Port.input(Unsigned[3])
    o = Port.output(Bit, default=False)

    def architecture(self):
        @std.sequential(std.Clock(self.clk))
        async def proc():
            self.o <<= False
            await self.vec[self.idx]
            self.o <<= True

print(std.VhdlCompiler.to_string(F33))
