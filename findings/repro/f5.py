import cohdl
from cohdl import std, Port, Bit, BitVector, Signal
FAIL_NOW = True
class E(cohdl.Entity):
    a = Port.input(Bit); p = Port.output(Bit); q = Port.output(Bit)
    def architecture(self):
        @std.concurrent
        def first():
            self.p <<= self.a
        if FAIL_NOW:
            raise AssertionError("user error in architecture")
        @std.concurrent
        def second():
            self.q <<= ~self.a
try:
    std.VhdlCompiler.to_string(E); print("accepted?!")
except AssertionError as e:
    print("rejected:", e)
FAIL_NOW = False
text = std.VhdlCompiler.to_string(E)
ok = "buffer_q <=" in text
print("PASS" if ok else "FAIL: context 'second' dropped"); raise SystemExit(not ok)
