from cohdl import Unsigned
r = 3 * Unsigned[4](2)
print(r, r.to_int(), r.width)
ok = r.to_int() == 6 and r.width == 8
print("PASS" if ok else "FAIL"); raise SystemExit(not ok)
