import cohdl, re
from cohdl import std, Port, Bit, BitVector, Signal
WORDS = "boolean integer string true false to_unsigned to_signed to_integer shift_left shift_right rising_edge falling_edge work cohdl_bool_to_std_logic".split()
bad = []
for w in WORDS:
    class E(cohdl.Entity):
        a = Port.input(Bit); c = Port.output(Bit)
        def architecture(self):
            s = Signal[Bit](name=w)
            @std.concurrent
            def logic():
                s.next = self.a
                self.c <<= s
    t = std.VhdlCompiler.to_string(E)
    if re.search(rf"signal {w} :", t): bad.append(w)
print(bad); print("PASS" if not bad else "FAIL"); raise SystemExit(bool(bad))
