# F14 (C06, known finding): an unclocked sequential process that reads no signal gets an empty sensitivity list
import cohdl
from cohdl import std, Port, Bit
class E(cohdl.Entity):
    o = Port.output(Bit)
    def architecture(self):
        @std.sequential
        def p():
            self.o <<= True
t = std.VhdlCompiler.to_string(E)
bad = "process()" in t
print("FAIL: emitted `process()`" if bad else "PASS"); raise SystemExit(bad)
