import cohdl
from cohdl import std, Port, Bit, BitVector
class E(cohdl.Entity):
    a = Port.input(BitVector[2]); b = Port.input(Bit); c = Port.output(Bit)
    def architecture(self):
        @std.sequential
        def proc():
            match self.a:
                case "00":
                    x = self.b | self.b
                case "01":
                    pass
            self.c <<= x
try:
    print(std.VhdlCompiler.to_string(E)); print("ACCEPTED (bug)"); raise SystemExit(1)
except AssertionError as e:
    print("rejected:", str(e)[:80])
