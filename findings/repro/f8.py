import cohdl
from cohdl import std, Port, Bit, BitVector, Unsigned, Signed, op
from cohdl._core._integer import Integer
bad = []
def chk(name, got, exp):
    g = got.to_int() if hasattr(got, "to_int") else int(got)
    if g != exp: bad.append((name, g, exp))
chk("truncdiv S64", op.truncdiv(Signed[64](2**62+1), 1), 2**62+1)
chk("rem U64", op.rem(Unsigned[64](2**63+1), 3), (2**63+1) % 3)
chk("rem S64", op.rem(Signed[64](-(2**62+1)), 3), -((2**62+1) % 3))
chk("int truncdiv", op.truncdiv(-(2**70+1), 2), -(2**69))
chk("int rem", op.rem(-(2**70+1), 2), -1)
chk("Integer truncdiv", op.truncdiv(Integer(2**70+3), 2), 2**69+1)
chk("Integer rem", op.rem(Integer(-(2**70+3)), 4), -3)
chk("rtruncdiv", op.truncdiv(2**60+1, Signed[64](1)), 2**60+1)
for a in range(-8, 8):
    for b in range(-8, 8):
        if b == 0: continue
        q = abs(a)//abs(b) * (1 if (a<0)==(b<0) else -1)
        chk(f"S4 {a}/{b}", op.truncdiv(Signed[5](a), Signed[5](b)), q)
        chk(f"S4 {a} rem {b}", op.rem(Signed[5](a), Signed[5](b)), a - b*q)
        chk(f"int {a}/{b}", op.truncdiv(a, b), q)
class E(cohdl.Entity):
    a = Port.input(Signed[8]); o = Port.output(Signed[8]); p = Port.output(Signed[8])
    def architecture(self):
        @std.concurrent
        def logic():
            self.o <<= op.truncdiv(self.a, op.truncdiv(-7, 2))
            self.p <<= op.rem(self.a, op.rem(-7, 4))
t = std.VhdlCompiler.to_string(E)
if "/ (-3)" not in t.replace("to_signed(-3, 8)", "(-3)") and "-3" not in t: bad.append(("traced truncdiv", t[-400:], ""))
print(bad[:5]); print("PASS" if not bad else "FAIL"); raise SystemExit(bool(bad))
