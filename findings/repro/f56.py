"""
An entity without ports is accepted but emits
  - an empty port clause `port ( );`  (illegal VHDL)
  - an instantiation without port map AND without terminating semicolon:
        comp_NoPorts: entity work.NoPorts(arch_NoPorts)
      end architecture arch_Top;
"""
import sys
import cohdl
from cohdl import std, Port, Bit, Signal
import re
def strip(v):
    return "\n".join(l for l in v.split("\n") if l.strip())


class NoPorts(cohdl.Entity):
    def architecture(self):
        s = Signal[Bit]()

        @std.concurrent
        def logic():
            s.next = True


class Top(cohdl.Entity):
    a = Port.input(Bit)

    def architecture(self):
        NoPorts()


vhdl = strip(std.VhdlCompiler.to_string(Top))
print(vhdl)
lines = vhdl.splitlines()
inst = next(l for l in lines if "entity work.NoPorts" in l)
bad = not inst.rstrip().endswith(";") or "port (\n    );" in vhdl
print("WRONG: empty port clause / instantiation statement without ';'" if bad else "ok")
sys.exit(1 if bad else 0)
