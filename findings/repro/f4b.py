import cohdl
from cohdl import std, Port, Bit, BitVector, Signal
def mk_bad():
    class Bad(cohdl.Entity):
        clk = Port.input(Bit); a = Port.input(Bit); c = Port.output(Bit)
        def architecture(self):
            @std.sequential(std.Clock(self.clk, frequency=std.MHz(100)))
            def proc():
                t = Signal[BitVector[2]]("10101")
    return Bad
def mk_noclk():
    class NoClk(cohdl.Entity):
        clk = Port.input(Bit); a = Port.input(Bit); c = Port.output(Bit)
        def architecture(self):
            @std.sequential
            async def proc():
                await std.wait_for(std.ns(20))
                self.c <<= self.a
    return NoClk
def attempt():
    try:
        std.VhdlCompiler.to_string(mk_noclk()); return "accepted"
    except BaseException as e:
        return "rejected: " + str(e)[:60]
first = attempt()
try:
    std.VhdlCompiler.to_string(mk_bad())
except BaseException as e:
    pass
second = attempt()
print(first); print(second)
ok = first.split(":")[0] == second.split(":")[0]
print("PASS" if ok else "FAIL"); raise SystemExit(not ok)
