"""PRE-EXISTING (unmodified tree): `await true` (= std.tick()) as the first statement of a
coroutine takes no clock (fine: first action polls immediately) but it also leaves the first
state empty, so the NEXT await/while is again treated as "very first action": `await self.a`
below is polled in the same clock instead of starting with the following clock.  By the
stated rule (only the very first action is immediate) one clock is lost per activation.
The same program with `self.p <<= self.p` in place of `await true` polls `a` one clock later.
"""
from cohdl import Entity, Port, Bit, Unsigned, true
from cohdl import std


class E(Entity):
    clk = Port.input(Bit)
    a = Port.input(Bit)
    o = Port.output(Unsigned[4], default=0)

    def architecture(self):
        @std.sequential(std.Clock(self.clk))
        async def proc():
            await true
            await self.a
            self.o <<= self.o + 1


vhdl = std.VhdlCompiler.to_string(E)
proc = vhdl[vhdl.index("process(") :]
print(proc)
if "case" not in proc:
    print("WRONG: single state - `await true; await a` collapsed to `if a: o+=1` every clock;")
    print("       with a=1 constantly o increments EVERY clock; executing the coroutine directly gives")
    print("       await true (clk k, immediate) -> await a reached at clk k, polled at k+1 -> o+=1 at k+1 -> restart k+2: every 2nd clock")
else:
    print("ok")
