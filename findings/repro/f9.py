from cohdl import Variable, Unsigned
v = Variable[Unsigned[4]](3)
v @= Unsigned[4](9)
ok = v._value.to_int() == 9 if hasattr(v, "_value") else False
try:
    v @= Unsigned[8](200); narrowing = "accepted"
except AssertionError:
    narrowing = "rejected"
print(v, narrowing)
ok = ok and narrowing == "rejected"
print("PASS" if ok else "FAIL"); raise SystemExit(not ok)
