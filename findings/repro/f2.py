import cohdl
from cohdl import std, Port, Bit, BitVector
def mk_bad():
    class Bad(cohdl.Entity):
        clk = Port.input(Bit); a = Port.input(Bit); c = Port.output(Bit)
        def architecture(self):
            @std.sequential(std.Clock(self.clk))
            async def proc():
                while True:
                    if self.a:
                        continue
                    await self.a
                    self.c <<= self.a
    return Bad
def mk_good():
    class Good(cohdl.Entity):
        clk = Port.input(Bit); a = Port.input(Bit); c = Port.output(Bit)
        def architecture(self):
            @std.sequential(std.Clock(self.clk))
            async def proc():
                await self.a
                self.c <<= self.a
                await self.a
                self.c <<= ~self.a
    return Good
ref = std.VhdlCompiler.to_string(mk_good())
try:
    std.VhdlCompiler.to_string(mk_bad()); print("bad accepted?!")
except BaseException as e:
    print("bad rejected:", type(e).__name__, str(e)[:100])
try:
    again = std.VhdlCompiler.to_string(mk_good())
except BaseException as e:
    print("FAIL: good design rejected after history:", str(e)[:100]); raise SystemExit(1)
print("PASS" if again == ref else "FAIL differ"); raise SystemExit(again != ref)
