import cohdl
from cohdl import Bit, Port, Signal, vhdl
from cohdl import std

class F29(cohdl.Entity):
    clk = Port.input(Bit)
    a = Port.input(Bit)
    o = Port.output(Bit)
    o2 = Port.output(Bit)

    def architecture(self):
        @std.sequential(std.Clock(self.clk))
        def proc():
            s = Signal[Bit](self.a)
            self.o <<= s
            self.o2 <<= f"{vhdl[Bit]:({s!r})}"

print(std.VhdlCompiler.to_string(F29))
