import cohdl
from cohdl import std, Port, Bit, BitVector, Signal
class Sub(cohdl.Entity):
    i = Port.input(Bit); o = Port.output(Bit)
    def architecture(self):
        @std.concurrent
        def logic():
            self.o <<= ~self.i
class Top(cohdl.Entity):
    a = Port.input(Bit); z = Port.input(Bit); c = Port.output(Bit)
    def architecture(self):
        Sub(i=self.a, o=self.z)       # output of the instance drives an INPUT port of the parent
        @std.concurrent
        def logic():
            self.c <<= self.z
try:
    t = std.VhdlCompiler.to_string(Top)
    print(t[t.find("comp_"):][:200])
    print("FAIL: accepted"); raise SystemExit(1)
except AssertionError as e:
    print("PASS rejected:", str(e)[:80])
