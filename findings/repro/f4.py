import cohdl
from cohdl import std, Port, Bit, BitVector, Signal
from cohdl._core import _context
def mk_bad():
    class Bad(cohdl.Entity):
        clk = Port.input(Bit); a = Port.input(Bit); c = Port.output(Bit)
        def architecture(self):
            @std.sequential(std.Clock(self.clk, frequency=std.MHz(100)))
            def proc():
                self.a <<= self.c     # write to input -> rejected?  use an undefined name to force tracing error
                undefined_name_xyz
    return Bad
def mk_good():
    class Good(cohdl.Entity):
        clk = Port.input(Bit); a = Port.input(Bit); c = Port.output(Bit)
        def architecture(self):
            @std.sequential(std.Clock(self.clk))
            def proc():
                with std.prefix("pfx"):
                    s = Signal[Bit](name=std.name("sig"))
                s <<= self.a
                self.c <<= s
    return Good
ref = std.VhdlCompiler.to_string(mk_good())
try:
    std.VhdlCompiler.to_string(mk_bad()); print("bad accepted?!")
except BaseException as e:
    print("bad rejected:", type(e).__name__, str(e)[:100])
print("block stack after reject:", len(_context._block_stack), "current ctx:", std.SequentialContext.current())
a1 = std.VhdlCompiler.to_string(mk_good())
a2 = std.VhdlCompiler.to_string(mk_good())
ok = (a1 == ref and a2 == ref and len(_context._block_stack)==0 and std.SequentialContext.current() is None)
if a2 != ref:
    import difflib; print("\n".join(list(difflib.unified_diff(ref.splitlines(), a2.splitlines(), lineterm=""))[:12]))
print("PASS" if ok else "FAIL"); raise SystemExit(not ok)
